#!/bin/bash
# Runs every registered quick check on the current tree (evidence is rewritten); prints one line per check.
cd "$(dirname "$0")"
tier=${1:-quick}
for p in $(python3 -c "import json; print(' '.join(c['property_id'] for c in json.load(open('MANIFEST.json'))['checks']))"); do
  out=$(./check $p --tier $tier 2>&1); rc=$?
  echo "$p rc=$rc $(echo "$out" | tail -1)"
  echo "$out" | grep -E "^(VIOLATION|KNOWN-FINDING)" | cut -c1-200
done
