(* Driver for the extracted model: one request (an s-expression) per input line, one answer per
   output line.  Only parentheses and atoms are tokenised here; everything else is Coq code. *)
open Model

let explode (s : string) : char list = List.init (String.length s) (String.get s)
let implode (l : char list) : string = String.of_seq (List.to_seq l)

let parse (s : string) : sexp =
  let n = String.length s in
  let pos = ref 0 in
  let rec skip () = if !pos < n && (s.[!pos] = ' ' || s.[!pos] = '\t') then (incr pos; skip ()) in
  let rec item () =
    skip ();
    if !pos >= n then failwith "unexpected end"
    else if s.[!pos] = '(' then begin
      incr pos;
      let items = ref [] in
      let rec loop () =
        skip ();
        if !pos >= n then failwith "unclosed"
        else if s.[!pos] = ')' then incr pos
        else (items := item () :: !items; loop ()) in
      loop ();
      SList (List.rev !items)
    end else begin
      let start = !pos in
      while !pos < n && s.[!pos] <> ' ' && s.[!pos] <> '(' && s.[!pos] <> ')' && s.[!pos] <> '\t' do incr pos done;
      SAtom (explode (String.sub s start (!pos - start)))
    end in
  item ()

let () =
  try
    while true do
      let line = input_line stdin in
      let out =
        try implode (handle (parse line))
        with Failure m -> "PARSEFAIL " ^ m | Stack_overflow -> "STACKOVERFLOW" in
      print_string out; print_newline ()
    done
  with End_of_file -> ()
