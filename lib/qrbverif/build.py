"""Build steps shared by all checks: regenerate coq/Gen from /repo, (re)compile the Coq development,
extract the model, build the OCaml driver and the Go harness.  Everything is incremental and runs
under a file lock so that checks can run in parallel."""
import fcntl, hashlib, os, subprocess, time

ROOT = os.path.dirname(os.path.dirname(os.path.dirname(os.path.abspath(__file__))))
REPO = os.environ.get("QRB_REPO", "/repo")
COQ = os.path.join(ROOT, "coq")
BIN = os.path.join(ROOT, "bin")
WORK = os.path.join(ROOT, "work")
GOENV = dict(os.environ, GOFLAGS="-mod=mod", GOPROXY="off", GOSUMDB="off", GOTOOLCHAIN="local",
             CARGO_NET_OFFLINE="true", PIP_NO_INDEX="1")
HOOK_TAG = "verif"


class BuildError(Exception):
    def __init__(self, step, output):
        super().__init__(f"{step} failed")
        self.step, self.output = step, output


def sh(cmd, cwd=ROOT, timeout=1800, env=None, check=False, step=None):
    t0 = time.time()
    try:
        p = subprocess.run(cmd, cwd=cwd, env=env or os.environ, timeout=timeout, shell=isinstance(cmd, str),
                           stdout=subprocess.PIPE, stderr=subprocess.STDOUT, text=True, errors="replace")
        rc, out = p.returncode, p.stdout
    except subprocess.TimeoutExpired as e:
        rc, out = 124, (e.stdout or "") + f"\nTIMEOUT after {timeout}s"
        if isinstance(out, bytes):
            out = out.decode("utf8", "replace")
    if check and rc != 0:
        raise BuildError(step or str(cmd), out)
    return rc, out, time.time() - t0


class Lock:
    def __init__(self, name):
        os.makedirs(os.path.join(ROOT, ".locks"), exist_ok=True)
        self.path = os.path.join(ROOT, ".locks", name)

    def __enter__(self):
        self.f = open(self.path, "w")
        fcntl.flock(self.f, fcntl.LOCK_EX)
        return self

    def __exit__(self, *a):
        fcntl.flock(self.f, fcntl.LOCK_UN)
        self.f.close()


def _hash_files(paths):
    h = hashlib.sha256()
    for p in sorted(paths):
        h.update(p.encode())
        try:
            with open(p, "rb") as f:
                h.update(f.read())
        except OSError:
            h.update(b"<missing>")
    return h.hexdigest()


def _go_sources(sub):
    out = []
    for d, _, fs in os.walk(os.path.join(ROOT, "go", sub)):
        out += [os.path.join(d, f) for f in fs if f.endswith(".go")]
    return out


def _stamp(name):
    return os.path.join(BIN, "." + name + ".stamp")


def _fresh(name, digest):
    try:
        return open(_stamp(name)).read() == digest
    except OSError:
        return False


def _mark(name, digest):
    with open(_stamp(name), "w") as f:
        f.write(digest)


def go_prepare():
    os.makedirs(BIN, exist_ok=True)
    gosum = os.path.join(ROOT, "go", "go.sum")
    src = os.path.join(REPO, "go.sum")
    if os.path.exists(src):
        data = open(src, "rb").read()
        if not os.path.exists(gosum) or open(gosum, "rb").read() != data:
            open(gosum, "wb").write(data)


def build_translator():
    go_prepare()
    srcs = _go_sources("cmd/qrb2coq")
    dg = _hash_files(srcs)
    if _fresh("qrb2coq", dg) and os.path.exists(os.path.join(BIN, "qrb2coq")):
        return
    sh(["go", "build", "-o", os.path.join(BIN, "qrb2coq"), "./cmd/qrb2coq"], cwd=os.path.join(ROOT, "go"),
       env=GOENV, check=True, step="go build qrb2coq", timeout=600)
    _mark("qrb2coq", dg)


def run_translator():
    """Regenerate coq/Gen/*.v and the harness registry from the current /repo tree."""
    # the source importer of go/types resolves imports relative to the working directory's module
    rc, out, _ = sh([os.path.join(BIN, "qrb2coq"), "-repo", REPO, "-out", os.path.join(COQ, "Gen")],
                    cwd=os.path.join(ROOT, "go"), env=GOENV, timeout=300)
    return rc, out


def coq_make(targets=None, keep_going=True, timeout=3000):
    if not os.path.exists(os.path.join(COQ, "Makefile")) or \
            os.path.getmtime(os.path.join(COQ, "Makefile")) < os.path.getmtime(os.path.join(COQ, "_CoqProject")):
        sh("coq_makefile -f _CoqProject -o Makefile", cwd=COQ, check=True, step="coq_makefile")
    cmd = ["make", "-j16"] + (["-k"] if keep_going else []) + (targets or [])
    rc, out, dt = sh(cmd, cwd=COQ, timeout=timeout)
    return rc, out, dt


def build_model():
    """Extract the model and build the OCaml driver (skipped when the extracted code is unchanged)."""
    oc = os.path.join(ROOT, "ocaml")
    sh(["coqc", "-Q", COQ, "QRB", os.path.join(COQ, "Extract", "Extract.v")], cwd=oc, check=True,
       step="extraction", timeout=900)
    dg = _hash_files([os.path.join(oc, f) for f in ("model.ml", "model.mli", "driver.ml")])
    if _fresh("model", dg) and os.path.exists(os.path.join(BIN, "model")):
        return
    sh("ocamlfind ocamlopt -package str model.mli model.ml driver.ml -o " + os.path.join(BIN, "model"),
       cwd=oc, check=True, step="ocaml build", timeout=900)
    _mark("model", dg)


def build_harness(race=False):
    go_prepare()
    name = "harness-race" if race else "harness"
    cmd = ["go", "build", "-tags", HOOK_TAG] + (["-race"] if race else []) + \
          ["-o", os.path.join(BIN, name), "./cmd/harness"]
    # the go tool's own cache makes this incremental; it must re-read /repo every time
    sh(cmd, cwd=os.path.join(ROOT, "go"), env=GOENV, check=True, step="go build harness", timeout=900)


def vo_ok(relpath):
    """True if coq/<relpath>.vo exists and is newer than its source."""
    v = os.path.join(COQ, relpath)
    vo = v[:-2] + ".vo"
    return os.path.exists(vo) and os.path.getmtime(vo) >= os.path.getmtime(v)


class BuildState:
    def __init__(self):
        self.translator_rc = 0
        self.translator_out = ""
        self.make_rc = 0
        self.make_out = ""
        self.make_s = 0.0
        self.errors = []


def ensure_built(race=False):
    """Full incremental build.  Raises BuildError only for glue that cannot be attributed to the
    code under test (translator / extraction / driver); a failing Coq file is reported in the state."""
    st = BuildState()
    with Lock("build.lock"):
        build_translator()
        st.translator_rc, st.translator_out = run_translator()
        st.make_rc, st.make_out, st.make_s = coq_make()
        try:
            build_model()
        except BuildError as e:
            st.errors.append(("model", e.output))
        try:
            build_harness(race=race)
        except BuildError as e:
            st.errors.append(("harness", e.output))
    return st
