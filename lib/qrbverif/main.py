import argparse, json, os, sys, time
from . import build, corr


def cmd_setup(_):
    st = build.ensure_built()
    ok = st.translator_rc == 0 and st.make_rc == 0 and not st.errors
    if not ok:
        print(st.translator_out[-3000:])
        print(st.make_out[-6000:])
        for n, o in st.errors:
            print(n, o[-3000:])
    print("setup", "ok" if ok else "FAILED", f"(coq make {st.make_s:.0f}s)")
    return 0 if ok else 1


def cmd_corr(argv):
    ap = argparse.ArgumentParser()
    ap.add_argument("--seed", type=int, default=1)
    ap.add_argument("-n", type=int, default=500)
    ap.add_argument("--depth", type=int, default=5)
    ap.add_argument("--hostile", type=float, default=0.03)
    a = ap.parse_args(argv)
    st = build.ensure_built()
    if st.make_rc or st.errors or st.translator_rc:
        print(st.translator_out[-2000:], st.make_out[-4000:], st.errors)
        return 1
    t0 = time.time()
    cases, stats, rc, err = corr.run_harness(["-seed", str(a.seed), "-n", str(a.n), "-depth", str(a.depth),
                                              "-hostile", str(a.hostile)])
    t1 = time.time()
    n, mism, dfail = corr.compare_renders(cases)
    t2 = time.time()
    print(f"cases={len(cases)} renders={n} mismatches={len(mism)} decodefail={len(dfail)} "
          f"harness={t1-t0:.1f}s model={t2-t1:.1f}s rc={rc}")
    for m in mism[:5]:
        print(json.dumps(m, indent=1)[:3000])
    for ci, ri, a in dfail[:5]:
        print("DECODEFAIL", cases[ci]["prog"][:300], a)
        print(cases[ci]["dump"][:1500])
    return 0


def main(argv):
    if not argv:
        print(__doc__)
        return 2
    cmd, rest = argv[0], argv[1:]
    if cmd == "setup":
        return cmd_setup(rest)
    if cmd == "corr":
        return cmd_corr(rest)
    if cmd == "coqchk":
        # independent re-check of every compiled property file and everything it depends on; prints the axioms
        st = build.ensure_built()
        mods = sorted("QRB.Props." + f[:-2] for f in os.listdir(os.path.join(build.COQ, "Props")) if f.endswith(".v"))
        rc, out, dt = build.sh(["coqchk", "-silent", "-o", "-Q", ".", "QRB"] + mods, cwd=build.COQ, timeout=7200)
        print(out[-1500:])
        print(f"coqchk exit {rc} ({dt:.0f}s)")
        return rc
    from . import props
    return props.run(cmd, rest)
