"""Generic part of a property check: build, proof obligations, evidence, verdict."""
import argparse, hashlib, json, os, re, time
from . import build

EVID = os.path.join(build.ROOT, "evidence")
REPLAYS = os.path.join(build.ROOT, "replays")

TRUSTED_BASE = [
    "Coq 8.16.1 kernel incl. vm_compute (no native_compute)",
    "translator go/cmd/qrb2coq (Go AST -> coq/Gen/*.v)",
    "reflective dump go/internal/dump + decoder coq/Model/Decode.v (abstraction from Go memory to model values)",
    "extraction: ExtrOcamlBasic, ExtrOcamlString (bool, option, list, prod, unit, sumbool, ascii => char, "
    "string => char list); nat, N, Z stay Coq datatypes; OCaml driver ocaml/driver.ml; a sample of the requests of every "
    "correspondence is re-evaluated inside the kernel (vm_compute) and compared with the extracted program's answers",
    "hand-written models tied to the code by differential comparison (sampled, every run): compile / run (every rendering), "
    "the API models coq/Model/Api.v and coq/Model/Ctor.v (every recorded call: receiver, arguments, result, all fields); WITH and "
    "CASE builder states travel as the dump of w.Select() / b.End()",
    "Go standard library as specified: regexp (RE2 semantics), strconv, strings, sort, errors, unicode tables",
    "formalisation of PostgreSQL's lexer / grammar in coq/Pg (written from scan.l, gram.y and the manual)",
    "python orchestration lib/qrbverif (diffing, classification, evidence)",
]


class Ctx:
    def __init__(self, prop, tier, seed):
        self.prop, self.tier, self.seed = prop, tier, seed
        self.t0 = time.time()
        self.violations = []      # dicts: {"what":..., "replay":{...}, "no_input": bool}
        self.known = []           # strings for KNOWN-FINDING lines
        self.cov = {}             # coverage section of the evidence
        self.assumptions = []
        self.obligations = []     # (name, ok)
        self.notes = []
        self.build = None

    def quick(self):
        return self.tier == "quick"

    def violation(self, what, replay, no_input=False):
        self.violations.append({"what": what, "replay": replay, "no_input": no_input})

    def obligation(self, name, ok, detail=""):
        self.obligations.append((name, bool(ok), detail))


def theorem_names(vfile):
    src = open(vfile).read()
    return re.findall(r"^\s*(?:Theorem|Lemma|Corollary|Example)\s+([A-Za-z0-9_']+)", src, re.M)


def check_props_file(ctx, rel):
    """Compiles coq/<rel> (its dependencies were built by make) and records one obligation per
    theorem, plus what Print Assumptions reports."""
    path = os.path.join(build.COQ, rel)
    names = theorem_names(path)
    rc, out, dt = build.sh(["coqc", "-Q", ".", "QRB", rel], cwd=build.COQ, timeout=1500)
    closed = out.count("Closed under the global context")
    axioms = re.findall(r"^Axioms:\n((?:.+\n)+)", out, re.M)
    if rc != 0:
        detail = out[-1500:]
        m = re.search(r"Compiled library QRB\.(Obl\.\w+)", out)
        if m:
            # a per-run obligation over the regenerated Gen/Ast.v no longer holds: say which one and about which functions
            obl = m.group(1).replace(".", "/") + ".v"
            rc2, out2, _ = build.sh(["coqc", "-Q", ".", "QRB", obl], cwd=build.COQ, timeout=1500)
            lemma = ""
            lm = re.search(r'File "\./%s", line (\d+)' % re.escape(obl), out2)
            if lm:
                lines = open(os.path.join(build.COQ, obl)).read().split("\n")
                for ln in range(int(lm.group(1)) - 1, -1, -1):
                    mm = re.match(r"\s*(?:Lemma|Theorem)\s+(\w+)", lines[ln])
                    if mm:
                        lemma = mm.group(1)
                        break
            detail = (f"{obl}: obligation {lemma or '?'} over the regenerated Gen/Ast.v no longer holds "
                      f"({out2.strip()[-300:]})")
            if obl == "Obl/Effects.v":
                q = os.path.join(build.WORK, f"diag_{os.getpid()}.v")
                os.makedirs(build.WORK, exist_ok=True)
                with open(q, "w") as f:
                    f.write("From Coq Require Import String List.\nFrom QRB Require Import Meta.GoAst Meta.EffectIR Meta.Lower Gen.Ast.\n"
                            "Eval vm_compute in unsafe_value_fns all_funcs.\n")
                rc3, out3, _ = build.sh(["coqc", "-Q", build.COQ, "QRB", q], cwd=build.WORK, timeout=600)
                for ext in (".v", ".vo", ".vok", ".vos", ".glob"):
                    try:
                        os.unlink(q[:-2] + ext)
                    except OSError:
                        pass
                detail += " | functions the freshness checker does not accept (package, receiver, name): " + " ".join(out3.split())[:700]
        for n in names:
            ctx.obligation(f"{rel}:{n}", False, detail)
        ctx.notes.append(f"{rel} does not compile: {detail[-800:]}")
        return False
    for n in names:
        ctx.obligation(f"{rel}:{n}", True)
    ctx.cov.setdefault("print_assumptions", []).append(
        {"file": rel, "closed_under_global_context": closed, "axioms": [a.strip() for a in axioms]})
    return True


def forbidden_scan():
    """No Admitted / admit / Axiom / Parameter / Conjecture / guard switches anywhere in the development."""
    bad = []
    pat = re.compile(r"\b(Admitted|admit|Axiom|Axioms|Parameter|Parameters|Conjecture|Admit Obligations|"
                     r"Unset Guard Checking|Unset Positivity Checking|Unset Universe Checking|bypass_check|"
                     r"Hypothesis|Hypotheses|Variable|Variables)\b")
    for d, _, fs in os.walk(build.COQ):
        for f in fs:
            if not f.endswith(".v"):
                continue
            p = os.path.join(d, f)
            depth = 0
            for ln, line in enumerate(open(p, errors="replace"), 1):
                code = re.sub(r"\(\*.*?\*\)", "", line)
                if re.match(r"\s*Section\b", code):
                    depth += 1
                if re.match(r"\s*End\b", code) and depth > 0:
                    depth -= 1
                for m in pat.finditer(code):
                    w = m.group(1)
                    if w in ("Hypothesis", "Hypotheses", "Variable", "Variables") and depth > 0:
                        continue
                    bad.append(f"{os.path.relpath(p, build.COQ)}:{ln}: {w}")
    return bad


def load_known():
    p = os.path.join(build.ROOT, "known_findings.json")
    try:
        return json.load(open(p))
    except OSError:
        return {"findings": [], "fixed": []}


def write_replay(ctx, v, idx):
    os.makedirs(REPLAYS, exist_ok=True)
    body = json.dumps({"property": ctx.prop, "seed": ctx.seed, "tier": ctx.tier, "what": v["what"],
                       "no_failing_input_found": v["no_input"], "replay": v["replay"]}, indent=1, sort_keys=True)
    h = hashlib.sha256(body.encode()).hexdigest()[:12]
    path = os.path.join(REPLAYS, f"{ctx.prop}-{h}.json")
    with open(path, "w") as f:
        f.write(body + "\n")
    return path


def finish(ctx, level="proof"):
    n_ob = len(ctx.obligations)
    n_ok = sum(1 for _, ok, _ in ctx.obligations if ok)
    broken = [(n, d) for n, ok, d in ctx.obligations if not ok]
    if broken and not ctx.violations:
        ctx.violation("proof obligation / correspondence no longer checks and no failing input was found: "
                      + "; ".join(n for n, _ in broken[:6]),
                      {"broken": [{"obligation": n, "detail": d[-1200:]} for n, d in broken[:6]]}, no_input=True)
    cov = dict(ctx.cov)
    cov.update({
        "obligations": n_ob, "discharged": n_ok,
        "checker_cmd": f"./check {ctx.prop} --tier {ctx.tier}  (coqc 8.16.1 via make; Props/{ctx.prop}.v)",
        "trusted_base": TRUSTED_BASE,
        "obligation_list": [n for n, _, _ in ctx.obligations][:200],
        "broken_obligations": [n for n, _ in broken],
        "notes": ctx.notes,
    })
    cov.setdefault("evaluations", 0)
    cov.setdefault("distinct_nontrivial", 0)
    ev = {"property_id": ctx.prop, "tier": ctx.tier, "seed": ctx.seed, "level": level, "coverage": cov,
          "assumptions": ctx.assumptions, "wall_s": round(time.time() - ctx.t0, 2),
          "violations": len(ctx.violations), "known_findings_reported": ctx.known}
    os.makedirs(EVID, exist_ok=True)
    with open(os.path.join(EVID, f"{ctx.prop}.json"), "w") as f:
        json.dump(ev, f, indent=1, sort_keys=True)
        f.write("\n")
    for k in ctx.known:
        print(f"KNOWN-FINDING: property={ctx.prop} {k}")
    for i, v in enumerate(ctx.violations[:8]):
        path = write_replay(ctx, v, i)
        tail = " no-failing-input-found" if v["no_input"] else ""
        print(f"  {v['what'][:600]}")
        print(f"VIOLATION property={ctx.prop} replay={path}{tail}")
    if len(ctx.violations) > 8:
        print(f"  ... {len(ctx.violations) - 8} further violations not listed")
    print(f"{ctx.prop} {ctx.tier}: obligations {n_ok}/{n_ob}, evaluations {cov.get('evaluations')}, "
          f"violations {len(ctx.violations)}, known findings {len(ctx.known)}, {ev['wall_s']}s")
    return 1 if ctx.violations else 0


def run(prop, argv):
    from . import checks
    if prop == "baseline-off":
        return checks.baseline_off()
    if prop == "replay":
        return checks.replay(argv)
    ap = argparse.ArgumentParser(prog=f"check {prop}")
    ap.add_argument("--tier", default=os.environ.get("VERIF_TIER", "quick"), choices=["quick", "thorough"])
    ap.add_argument("--seed", type=int, default=int(os.environ.get("VERIF_SEED", "1")))
    a = ap.parse_args(argv)
    if prop not in checks.CHECKS:
        print(f"unknown property {prop}")
        return 2
    ctx = Ctx(prop, a.tier, a.seed)
    try:
        ctx.build = build.ensure_built(race=(prop in checks.NEEDS_RACE))
    except build.BuildError as e:
        ctx.obligation(f"build:{e.step}", False, e.output)
        ctx.notes.append(f"build step failed: {e.step}: {e.output[-1500:]}")
        return finish(ctx)
    st = ctx.build
    if st.translator_rc != 0:
        ctx.obligation("translator qrb2coq", False, st.translator_out)
    for name, out in st.errors:
        ctx.obligation(f"build:{name}", False, out)
    bad = forbidden_scan()
    ctx.obligation("no Admitted/admit/Axiom/Parameter/Conjecture/guard switches in coq/", not bad, "\n".join(bad))
    checks.CHECKS[prop](ctx)
    return finish(ctx)
