"""Correspondence between the implementation (Go harness output) and the extracted Coq model."""
import json, os, subprocess, tempfile
from concurrent.futures import ThreadPoolExecutor
from . import build

MODEL = os.path.join(build.BIN, "model")


def run_harness(args, race=False, timeout=3000, env=None):
    """Runs bin/harness with args, returns (cases, stats, rc, stderr)."""
    os.makedirs(build.WORK, exist_ok=True)
    fd, path = tempfile.mkstemp(suffix=".jsonl", dir=build.WORK)
    os.close(fd)
    exe = os.path.join(build.BIN, "harness-race" if race else "harness")
    p = subprocess.run([exe] + args + ["-out", path], stdout=subprocess.PIPE, stderr=subprocess.PIPE,
                       text=True, errors="replace", timeout=timeout, env=env)
    cases = []
    with open(path) as f:
        for line in f:
            line = line.strip()
            if line:
                cases.append(json.loads(line))
    os.unlink(path)
    stats = {}
    for line in p.stderr.splitlines():
        if line.startswith("STATS "):
            stats = json.loads(line[6:])
    return cases, stats, p.returncode, p.stderr


def _model_chunk(lines):
    p = subprocess.run([MODEL], input="\n".join(lines) + "\n", stdout=subprocess.PIPE, stderr=subprocess.PIPE,
                       text=True, timeout=3000)
    out = p.stdout.split("\n")
    if out and out[-1] == "":
        out.pop()
    if len(out) != len(lines):
        raise RuntimeError(f"model driver answered {len(out)} lines for {len(lines)} requests: {p.stderr[:500]}")
    return out


def model_answers(requests, workers=16):
    if not requests:
        return []
    k = max(1, min(workers, len(requests) // 50 + 1))
    size = (len(requests) + k - 1) // k
    chunks = [requests[i:i + size] for i in range(0, len(requests), size)]
    with ThreadPoolExecutor(max_workers=k) as ex:
        res = list(ex.map(_model_chunk, chunks))
    return [a for r in res for a in r]


def hexs(s):
    return "s" + s.encode("utf8", "surrogateescape").hex()


def named_sexp(named):
    if named is None:
        return "nil"
    return "(list " + " ".join(f"({hexs(k)} a{v})" for k, v in named.items()) + ")"


def tf(b):
    return "T" if b else "F"


def render_request(case, r):
    return f"(render {tf(r['v'])} {tf(r['p'])} {named_sexp(r['named'])} {case['dump']})"


def impl_obs(r):
    """Canonical observable of one implementation rendering."""
    if r.get("panic"):
        return "PANIC"
    if r.get("missing"):
        return "MISSING"
    args = ",".join(f"a{i}" for i in r["args"])
    err = r["err"] if r["err"] is not None else ""
    return f"OK s{r['sql']} [{args}] s{err}"


def decode_obs(o):
    if not o.startswith("OK "):
        return o
    parts = o.split(" ")
    try:
        sql = bytes.fromhex(parts[1][1:]).decode("utf8", "replace")
        err = bytes.fromhex(parts[3][1:]).decode("utf8", "replace")
    except Exception:
        return o
    return f"OK sql={sql!r} args={parts[2]} err={err!r}"


def compare_renders(cases):
    """Returns (n_compared, mismatches, decodefails) for all renderings of all cases."""
    reqs, idx = [], []
    for ci, c in enumerate(cases):
        for ri, r in enumerate(c["renders"]):
            reqs.append(render_request(c, r))
            idx.append((ci, ri))
    answers = model_answers(reqs)
    mism, dfail = [], []
    for (ci, ri), a in zip(idx, answers):
        c, r = cases[ci], cases[ci]["renders"][ri]
        r["model"] = a
        if a.startswith("DECODEFAIL") or a.startswith("PARSEFAIL") or a.startswith("BADREQUEST"):
            dfail.append((ci, ri, a))
            continue
        o = impl_obs(r)
        if o != a:
            mism.append({"case": c["id"], "prog": c["prog"], "opts": {"v": r["v"], "p": r["p"], "named": r["named"]},
                         "impl": decode_obs(o), "model": decode_obs(a), "dump": c["dump"]})
    return len(reqs), mism, dfail


# ---------------------------------------------------------------------------------------------------
# cross-check of extraction: the same requests evaluated inside the kernel (vm_compute) must give the answers
# of the extracted OCaml program

def _sexp_to_coq(text):
    """request text -> Coq term of type sexp (atoms never contain quotes or backslashes: strings travel as hex)"""
    out, i, n = [], 0, len(text)
    stack = [[]]
    while i < n:
        ch = text[i]
        if ch in " \t":
            i += 1
        elif ch == "(":
            stack.append([])
            i += 1
        elif ch == ")":
            items = stack.pop()
            stack[-1].append("SList [" + "; ".join(items) + "]")
            i += 1
        else:
            j = i
            while j < n and text[j] not in " \t()":
                j += 1
            atom = text[i:j]
            if '"' in atom or "\\" in atom:
                raise ValueError("atom not representable")
            stack[-1].append('SAtom "' + atom + '"')
            i = j
    return stack[0][0]


def kernel_crosscheck(pairs, tag):
    """pairs: [(request text, answer of bin/model)].  Returns (ok, detail)."""
    import os
    os.makedirs(build.WORK, exist_ok=True)
    path = os.path.join(build.WORK, f"xcheck_{tag}_{os.getpid()}.v")
    items = []
    for req, ans in pairs:
        if '"' in ans:
            continue
        try:
            items.append(f"({_sexp_to_coq(req)}, \"{ans}\")")
        except ValueError:
            continue
    body = ("From Coq Require Import String List.\nFrom QRB Require Import Model.Sexp Model.Driver.\nImport ListNotations.\n"
            "Local Open Scope string_scope.\n"
            "Definition cases : list (sexp * string) := [\n " + ";\n ".join(items) + "].\n"
            "Definition bad := filter (fun p => negb (String.eqb (handle (fst p)) (snd p))) cases.\n"
            "Definition n_bad := Eval vm_compute in length bad.\nPrint n_bad.\n")
    with open(path, "w") as f:
        f.write(body)
    rc, out, dt = build.sh(["coqc", "-Q", build.COQ, "QRB", path], cwd=build.WORK, timeout=1500)
    for ext in (".v", ".vo", ".vok", ".vos", ".glob"):
        try:
            os.unlink(path[:-2] + ext)
        except OSError:
            pass
    try:
        os.unlink(os.path.join(build.WORK, "." + os.path.basename(path)[:-2] + ".aux"))
    except OSError:
        pass
    ok = rc == 0 and "n_bad = 0" in out.replace("\n", " ")
    return ok, len(items), (out[-600:] if not ok else f"{len(items)} requests, {dt:.0f}s")
