"""Correspondence between the implementation (Go harness output) and the extracted Coq model."""
import json, os, subprocess, tempfile
from concurrent.futures import ThreadPoolExecutor
from . import build

MODEL = os.path.join(build.BIN, "model")


def run_harness(args, race=False, timeout=3000, env=None):
    """Runs bin/harness with args, returns (cases, stats, rc, stderr)."""
    os.makedirs(build.WORK, exist_ok=True)
    fd, path = tempfile.mkstemp(suffix=".jsonl", dir=build.WORK)
    os.close(fd)
    exe = os.path.join(build.BIN, "harness-race" if race else "harness")
    p = subprocess.run([exe] + args + ["-out", path], stdout=subprocess.PIPE, stderr=subprocess.PIPE,
                       text=True, errors="replace", timeout=timeout, env=env)
    cases = []
    with open(path) as f:
        for line in f:
            line = line.strip()
            if line:
                cases.append(json.loads(line))
    os.unlink(path)
    stats = {}
    for line in p.stderr.splitlines():
        if line.startswith("STATS "):
            stats = json.loads(line[6:])
    return cases, stats, p.returncode, p.stderr


def _model_chunk(lines):
    p = subprocess.run([MODEL], input="\n".join(lines) + "\n", stdout=subprocess.PIPE, stderr=subprocess.PIPE,
                       text=True, timeout=3000)
    out = p.stdout.split("\n")
    if out and out[-1] == "":
        out.pop()
    if len(out) != len(lines):
        raise RuntimeError(f"model driver answered {len(out)} lines for {len(lines)} requests: {p.stderr[:500]}")
    return out


def model_answers(requests, workers=16):
    if not requests:
        return []
    k = max(1, min(workers, len(requests) // 50 + 1))
    size = (len(requests) + k - 1) // k
    chunks = [requests[i:i + size] for i in range(0, len(requests), size)]
    with ThreadPoolExecutor(max_workers=k) as ex:
        res = list(ex.map(_model_chunk, chunks))
    return [a for r in res for a in r]


def hexs(s):
    return "s" + s.encode("utf8", "surrogateescape").hex()


def named_sexp(named):
    if named is None:
        return "nil"
    return "(list " + " ".join(f"({hexs(k)} a{v})" for k, v in named.items()) + ")"


def tf(b):
    return "T" if b else "F"


def render_request(case, r):
    return f"(render {tf(r['v'])} {tf(r['p'])} {named_sexp(r['named'])} {case['dump']})"


def impl_obs(r):
    """Canonical observable of one implementation rendering."""
    if r.get("panic"):
        return "PANIC"
    if r.get("missing"):
        return "MISSING"
    args = ",".join(f"a{i}" for i in r["args"])
    err = r["err"] if r["err"] is not None else ""
    return f"OK s{r['sql']} [{args}] s{err}"


def decode_obs(o):
    if not o.startswith("OK "):
        return o
    parts = o.split(" ")
    try:
        sql = bytes.fromhex(parts[1][1:]).decode("utf8", "replace")
        err = bytes.fromhex(parts[3][1:]).decode("utf8", "replace")
    except Exception:
        return o
    return f"OK sql={sql!r} args={parts[2]} err={err!r}"


def compare_renders(cases):
    """Returns (n_compared, mismatches, decodefails) for all renderings of all cases."""
    reqs, idx = [], []
    for ci, c in enumerate(cases):
        for ri, r in enumerate(c["renders"]):
            reqs.append(render_request(c, r))
            idx.append((ci, ri))
    answers = model_answers(reqs)
    mism, dfail = [], []
    for (ci, ri), a in zip(idx, answers):
        c, r = cases[ci], cases[ci]["renders"][ri]
        r["model"] = a
        if a.startswith("DECODEFAIL") or a.startswith("PARSEFAIL") or a.startswith("BADREQUEST"):
            dfail.append((ci, ri, a))
            continue
        o = impl_obs(r)
        if o != a:
            mism.append({"case": c["id"], "prog": c["prog"], "opts": {"v": r["v"], "p": r["p"], "named": r["named"]},
                         "impl": decode_obs(o), "model": decode_obs(a), "dump": c["dump"]})
    return len(reqs), mism, dfail
