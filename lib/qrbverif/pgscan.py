"""A small scanner for PostgreSQL text used by the direct (implementation-side) evaluators until a
token is needed exactly; the formal oracle is coq/Pg/Lexer.v (extracted, request `lex`)."""


def scan_params(sql: bytes):
    """Positions (start, end, k) of $k parameter tokens outside literals and quoted names."""
    out = []
    i, n = 0, len(sql)

    def ident_start(c):
        return c == 95 or 65 <= c <= 90 or 97 <= c <= 122 or c >= 128

    def ident_cont(c):
        return ident_start(c) or 48 <= c <= 57 or c == 36

    while i < n:
        c = sql[i]
        if ident_start(c):
            j = i
            while j < n and ident_cont(sql[j]):
                j += 1
            word = sql[i:j]
            if j < n and sql[j] == 39 and word in (b"E", b"e"):
                j += 1
                while j < n:
                    if sql[j] == 92:
                        j += 2
                        continue
                    if sql[j] == 39:
                        if j + 1 < n and sql[j + 1] == 39:
                            j += 2
                            continue
                        j += 1
                        break
                    j += 1
            i = j
        elif c == 39:
            j = i + 1
            while j < n:
                if sql[j] == 39:
                    if j + 1 < n and sql[j + 1] == 39:
                        j += 2
                        continue
                    j += 1
                    break
                j += 1
            i = j
        elif c == 34:
            j = i + 1
            while j < n:
                if sql[j] == 34:
                    if j + 1 < n and sql[j + 1] == 34:
                        j += 2
                        continue
                    j += 1
                    break
                j += 1
            i = j
        elif c == 36 and i + 1 < n and 48 <= sql[i + 1] <= 57:
            j = i + 1
            while j < n and 48 <= sql[j] <= 57:
                j += 1
            out.append((i, j, int(sql[i + 1:j])))
            i = j
        else:
            i += 1
    return out
