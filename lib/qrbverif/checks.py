"""The per-property checks.  Each takes a Ctx, records obligations, coverage, known findings and
violations; props.finish() turns that into the evidence file, the output lines and the exit code."""
import json, os, re
from collections import Counter
from . import build, corr, props
from .pgscan import scan_params

NEEDS_RACE = set()
CHECKS = {}


def check(name):
    def deco(f):
        CHECKS[name] = f
        return f
    return deco


# ------------------------------------------------------------------------------------ shared steps

def harness_cases(ctx, n, depth=5, hostile=0.03, extra=None):
    args = ["-seed", str(ctx.seed), "-n", str(n), "-depth", str(depth), "-hostile", str(hostile)] + (extra or [])
    cases, stats, rc, err = corr.run_harness(args)
    if rc != 0:
        ctx.obligation("harness run", False, err[-2000:])
    ctx.cov["generator_stats"] = {k: v for k, v in sorted(stats.items()) if not k.startswith("call:")}
    calls = {k[5:]: v for k, v in stats.items() if k.startswith("call:")}
    ctx.cov["api_calls_distinct"] = len(calls)
    ctx.cov["api_calls_top"] = dict(Counter(calls).most_common(12))
    return cases


def correspondence(ctx, cases, label="render"):
    """Implementation vs extracted model on every rendering; a disagreement breaks the tie."""
    n, mism, dfail = corr.compare_renders(cases)
    ctx.cov["traces_validated_against_impl"] = ctx.cov.get("traces_validated_against_impl", 0) + n - len(mism) - len(dfail)
    ctx.cov["correspondence_mismatches"] = len(mism)
    ctx.cov["unmodelled_values"] = len(dfail)
    if dfail:
        ci, ri, a = dfail[0]
        ctx.obligation(f"correspondence {label}: every dumped value decodes into the model", False,
                       json.dumps({"prog": cases[ci]["prog"], "dump": cases[ci]["dump"][:2000], "answer": a}))
    else:
        ctx.obligation(f"correspondence {label}: every dumped value decodes into the model", True)
    if mism:
        ctx.obligation(f"correspondence {label}: model and implementation agree byte for byte", False,
                       json.dumps(mism[:3])[:4000])
    else:
        ctx.obligation(f"correspondence {label}: model and implementation agree byte for byte", True)
    return mism


def stability(ctx, cases):
    for c in cases:
        for r in c["renders"]:
            if r.get("unstable"):
                ctx.violation("repeated rendering of one value differs",
                              {"prog": c["prog"], "opts": {"v": r["v"], "p": r["p"], "named": r["named"]},
                               "first": corr.decode_obs(corr.impl_obs(r)), "other": r["unstable"][:2000]})


def samples(cases, k=3):
    out = []
    for c in cases[:k]:
        r = c["renders"][0]
        out.append({"prog": c["prog"][:400], "sql": bytes.fromhex(r["sql"]).decode("utf8", "replace")[:300],
                    "args": r["args"]})
    return out


def distribution(ctx, cases):
    types = Counter(c["type"].split(".")[-1] for c in cases)
    sizes = Counter(min(len(c["dump"]) // 500, 20) for c in cases)
    errs = Counter()
    for c in cases:
        for r in c["renders"]:
            if r.get("panic"):
                errs["panic"] += 1
            elif r.get("missing"):
                errs["missing-named"] += 1
            elif r["err"] is None:
                errs["ok"] += 1
            else:
                for e in r.get("err_is") or ["other-error"]:
                    errs[e] += 1
    ctx.cov["input_distribution"] = {"top_level_type": dict(types.most_common()),
                                     "dump_size_div_500": {str(k): v for k, v in sorted(sizes.items())},
                                     "outcomes": dict(errs)}


def marker(i):
    return b"\x01a%d\x02" % i


def inline_requests(cases):
    reqs, idx = [], []
    for ci, c in enumerate(cases):
        for ri, r in enumerate(c["renders"]):
            if r.get("panic") or r.get("missing"):
                continue
            reqs.append(f"(inline {corr.tf(r['v'])} {corr.tf(r['p'])} {corr.named_sexp(r['named'])} {c['dump']})")
            idx.append((ci, ri))
    return reqs, idx


def eval_substitution(ctx, cases):
    """C03/C04 directly on the implementation's output: placeholders are exactly $1..$n in order of
    first occurrence, and replacing $k by args[k-1] yields the composed statement with every value
    in place (the model's stateless rendering)."""
    reqs, idx = inline_requests(cases)
    answers = corr.model_answers(reqs)
    evaluated = nontrivial = excluded = 0
    seen = set()
    for (ci, ri), a in zip(idx, answers):
        c, r = cases[ci], cases[ci]["renders"][ri]
        if not a.startswith("IL s"):
            continue
        il = bytes.fromhex(a.split(" ")[1][1:])
        r["used_names"] = sorted({bytes.fromhex(x[1:]).decode("utf8", "surrogateescape")
                                  for x in a.split(" ")[2].split(",") if x.startswith("s")})
        marked = re.sub(rb"\x01[^\x02]*\x02", b" $0 ", il)
        found = scan_params(marked)
        if any(k != 0 for _, _, k in found) or len(found) != il.count(b"\x01"):
            excluded += 1           # caller-supplied raw text contains a parameter token or an open quote
            continue
        sql = bytes.fromhex(r["sql"])
        ps = scan_params(sql)
        evaluated += 1
        firsts = []
        for _, _, k in ps:
            if k not in firsts:
                firsts.append(k)
        nargs = len(r["args"])
        rep = {"prog": c["prog"], "opts": {"v": r["v"], "p": r["p"], "named": r["named"]},
               "sql": sql.decode("utf8", "replace"), "args": r["args"]}
        if firsts != list(range(1, nargs + 1)):
            ctx.violation(f"placeholders {firsts} are not $1..${nargs} in order of first occurrence", rep)
            continue
        out, last = b"", 0
        for s, e, k in ps:
            out += sql[last:s] + marker(r["args"][k - 1])
            last = e
        out += sql[last:]
        if out != il:
            rep["substituted"] = out.decode("utf8", "replace")
            rep["composed"] = il.decode("utf8", "replace")
            ctx.violation("substituting $k by args[k-1] does not give back the composed statement", rep)
            continue
        if len(ps) >= 2 and (c["dump"], r["v"], r["p"]) not in seen:
            seen.add((c["dump"], r["v"], r["p"]))
            nontrivial += 1
    ctx.cov["evaluations"] = ctx.cov.get("evaluations", 0) + evaluated
    ctx.cov["distinct_nontrivial"] = ctx.cov.get("distinct_nontrivial", 0) + nontrivial
    ctx.cov["excluded_raw_text_breaks_lexing"] = excluded
    return evaluated


# ------------------------------------------------------------------------------------ C03

@check("C03")
def c03(ctx):
    props.check_props_file(ctx, "Props/C03.v")
    n = 3000 if ctx.quick() else 120000
    cases = harness_cases(ctx, n, depth=6 if ctx.quick() else 8)
    distribution(ctx, cases)
    correspondence(ctx, cases)
    eval_substitution(ctx, cases)
    stability(ctx, cases)
    ctx.cov["rule"] = ("type-directed API programs (every exported function/method, reflection); each value rendered "
                       "under 4 option combinations and up to 3 named-argument maps; non-trivial = distinct value x "
                       "options whose text has >= 2 placeholders; evaluated = placeholders enumerate 1..n and "
                       "substitution equals the stateless rendering")
    ctx.cov["samples"] = samples(cases)


# ------------------------------------------------------------------------------------ C04

@check("C04")
def c04(ctx):
    props.check_props_file(ctx, "Props/C04.v")
    n = 3000 if ctx.quick() else 120000
    cases = harness_cases(ctx, n, depth=6 if ctx.quick() else 8, extra=["-binds", "0.5", "-repeat", "5"])
    distribution(ctx, cases)
    correspondence(ctx, cases)
    eval_substitution(ctx, cases)
    stability(ctx, cases)
    # missing / extra / nil maps
    n_missing = n_extra = with_binds = 0
    for c in cases:
        if not c["binds"]:
            continue
        with_binds += 1
        base = c["renders"][0]
        for r in c["renders"][4:]:
            named = r["named"]
            used = base.get("used_names")
            if used is None:
                continue
            missing = any(u not in (named or {}) for u in used)
            rep = {"prog": c["prog"], "named": named, "used_names": used,
                   "result": corr.decode_obs(corr.impl_obs(r))}
            if r.get("panic"):
                continue
            if missing:
                n_missing += 1
                if not r.get("missing") or r["sql"] != "":
                    ctx.violation("a used bind name has no value but rendering did not fail with empty SQL", rep)
            else:
                n_extra += 1
                if (r["sql"], r["args"], r["err"]) != (base["sql"], base["args"], base["err"]):
                    ctx.violation("supplying extra, unused names changed the result", rep)
    ctx.cov["cases_with_binds"] = with_binds
    ctx.cov["missing_map_renderings"] = n_missing
    ctx.cov["extra_map_renderings"] = n_extra
    ctx.cov["rule"] = ("type-directed API programs with bind names from a pool incl. empty and odd strings; maps: "
                       "complete, missing one name, nil, with extras; every rendering repeated 5 times (fresh Go map "
                       "order); non-trivial = distinct value x options with >= 2 placeholders")
    ctx.cov["samples"] = samples([c for c in cases if c["binds"]] or cases)


def baseline_off():
    """The repository's own suite with the verif guard off (workspace mode, no -mod flag)."""
    env = dict(os.environ, GOPROXY="off", GOSUMDB="off", GOTOOLCHAIN="local")
    env.pop("GOFLAGS", None)
    rc, out, dt = build.sh(["go", "test", "-json", "-vet=off", "-count=1", "-timeout", "25m", "./..."],
                           cwd=build.REPO, env=env, timeout=1800)
    print(out)
    return rc


def replay(argv):
    if not argv:
        print("usage: check replay <file>")
        return 2
    data = json.load(open(argv[0]))
    print(json.dumps(data, indent=1)[:6000])
    prop = data.get("property")
    if prop in CHECKS:
        os.environ["VERIF_SEED"] = str(data.get("seed", 1))
        return props.run(prop, ["--tier", data.get("tier", "quick"), "--seed", str(data.get("seed", 1))])
    return 0
