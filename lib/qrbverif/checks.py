"""The per-property checks.  Each takes a Ctx, records obligations, coverage, known findings and
violations; props.finish() turns that into the evidence file, the output lines and the exit code."""
import json, os, re
from collections import Counter
from . import build, corr, props

NEEDS_RACE = {"C11"}
CHECKS = {}


def check(name):
    def deco(f):
        CHECKS[name] = f
        return f
    return deco


# ------------------------------------------------------------------------------------ shared steps

def harness_cases(ctx, n, depth=5, hostile=0.03, extra=None):
    args = ["-seed", str(ctx.seed), "-n", str(n), "-depth", str(depth), "-hostile", str(hostile)] + (extra or [])
    cases, stats, rc, err = corr.run_harness(args)
    if rc != 0:
        ctx.obligation("harness run", False, err[-2000:])
    ctx.cov["generator_stats"] = {k: v for k, v in sorted(stats.items()) if not k.startswith("call:")}
    calls = {k[5:]: v for k, v in stats.items() if k.startswith("call:")}
    ctx.cov["api_calls_distinct"] = len(calls)
    ctx.cov["api_calls_top"] = dict(Counter(calls).most_common(12))
    return cases


def correspondence(ctx, cases, label="render"):
    """Implementation vs extracted model on every rendering; a disagreement breaks the tie."""
    n, mism, dfail = corr.compare_renders(cases)
    ctx.cov["traces_validated_against_impl"] = ctx.cov.get("traces_validated_against_impl", 0) + n - len(mism) - len(dfail)
    ctx.cov["correspondence_mismatches"] = len(mism)
    ctx.cov["unmodelled_values"] = len(dfail)
    if dfail:
        ci, ri, a = dfail[0]
        ctx.obligation(f"correspondence {label}: every dumped value decodes into the model", False,
                       json.dumps({"prog": cases[ci]["prog"], "dump": cases[ci]["dump"][:2000], "answer": a}))
    else:
        ctx.obligation(f"correspondence {label}: every dumped value decodes into the model", True)
    if mism:
        ctx.obligation(f"correspondence {label}: model and implementation agree byte for byte", False,
                       json.dumps(mism[:3])[:4000])
    else:
        ctx.obligation(f"correspondence {label}: model and implementation agree byte for byte", True)
    # extraction is trusted glue: re-evaluate a sample of the same requests inside the kernel
    k = 40 if ctx.quick() else 400
    step = max(1, len(cases) // k)
    pairs = []
    for c in cases[::step][:k]:
        r = c["renders"][0]
        if r.get("model") and not r["model"].startswith(("DECODEFAIL", "PARSEFAIL", "BADREQUEST")) and len(c["dump"]) < 20000:
            pairs.append((corr.render_request(c, r), r["model"]))
    if pairs:
        ok, nreq, detail = corr.kernel_crosscheck(pairs, ctx.prop + label[:3].replace(" ", "_"))
        ctx.obligation(f"extraction cross-check {label}: vm_compute inside Coq gives the extracted model's answers", ok, detail)
        ctx.cov["extraction_crosscheck_requests"] = ctx.cov.get("extraction_crosscheck_requests", 0) + nreq
    return mism


def stability(ctx, cases):
    for c in cases:
        for r in c["renders"]:
            if r.get("unstable"):
                ctx.violation("repeated rendering of one value differs",
                              {"prog": c["prog"], "opts": {"v": r["v"], "p": r["p"], "named": r["named"]},
                               "first": corr.decode_obs(corr.impl_obs(r)), "other": r["unstable"][:2000]})


def samples(cases, k=3):
    out = []
    for c in cases[:k]:
        r = c["renders"][0]
        out.append({"prog": c["prog"][:400], "sql": bytes.fromhex(r["sql"]).decode("utf8", "replace")[:300],
                    "args": r["args"]})
    return out


def distribution(ctx, cases):
    types = Counter(c["type"].split(".")[-1] for c in cases)
    sizes = Counter(min(len(c["dump"]) // 500, 20) for c in cases)
    errs = Counter()
    for c in cases:
        for r in c["renders"]:
            if r.get("panic"):
                errs["panic"] += 1
            elif r.get("missing"):
                errs["missing-named"] += 1
            elif r["err"] is None:
                errs["ok"] += 1
            else:
                for e in r.get("err_is") or ["other-error"]:
                    errs[e] += 1
    ctx.cov["input_distribution"] = {"top_level_type": dict(types.most_common()),
                                     "dump_size_div_500": {str(k): v for k, v in sorted(sizes.items())},
                                     "outcomes": dict(errs)}


def lex_many(texts, scs=True):
    """Token lists (or None on a lexical error) from the extracted PostgreSQL lexer."""
    reqs = [f"(lex {corr.tf(scs)} s{t.hex()})" for t in texts]
    out = []
    for a in corr.model_answers(reqs):
        if a.startswith("TOK"):
            out.append([t for t in a.split(" ")[1:] if t])
        else:
            out.append(None)
    return out


def marker(i):
    return b"\x01a%d\x02" % i


def inline_requests(cases):
    reqs, idx = [], []
    for ci, c in enumerate(cases):
        for ri, r in enumerate(c["renders"]):
            if r.get("panic") or r.get("missing"):
                continue
            reqs.append(f"(inline {corr.tf(r['v'])} {corr.tf(r['p'])} {corr.named_sexp(r['named'])} {c['dump']})")
            idx.append((ci, ri))
    return reqs, idx


def eval_substitution(ctx, cases):
    """C03/C04 directly on the implementation's output: the parameter tokens of the text (PostgreSQL
    lexer) are exactly $1..$n in order of first occurrence, and replacing $k by args[k-1] yields the
    token sequence of the composed statement with every value in place (stateless rendering)."""
    reqs, idx = inline_requests(cases)
    answers = corr.model_answers(reqs)
    items = []
    for (ci, ri), a in zip(idx, answers):
        c, r = cases[ci], cases[ci]["renders"][ri]
        if not a.startswith("IL s"):
            continue
        il = bytes.fromhex(a.split(" ")[1][1:])
        r["used_names"] = sorted({bytes.fromhex(x[1:]).decode("utf8", "surrogateescape")
                                  for x in a.split(" ")[2].split(",") if x.startswith("s")})
        marked = re.sub(rb"\x01a(\d+)\x02", lambda m: b"$%d" % (1000000 + int(m.group(1))), il)
        marked = re.sub(rb"\x01\?\x02", b"$999999", marked)
        r["_nmark"] = il.count(b"\x01")
        items.append((c, r, marked, bytes.fromhex(r["sql"])))
    toks_il = lex_many([m for _, _, m, _ in items])
    toks_sql = lex_many([q for _, _, _, q in items])
    evaluated = nontrivial = excluded = 0
    seen = set()
    for (c, r, marked, sql), til, tsql in zip(items, toks_il, toks_sql):
        if til is None or any(t[0] == "P" and int(bytes.fromhex(t[1:])) < 999999 for t in til) or \
                sum(1 for t in til if t[0] == "P") != r["_nmark"]:
            excluded += 1           # caller-supplied raw text does not lex or contains a parameter token itself
            continue
        evaluated += 1
        rep = {"prog": c["prog"], "opts": {"v": r["v"], "p": r["p"], "named": r["named"]},
               "sql": sql.decode("utf8", "replace"), "args": r["args"]}
        if tsql is None:
            ctx.violation("the emitted text does not lex although the composed statement does", rep)
            continue
        ks = [int(bytes.fromhex(t[1:])) for t in tsql if t[0] == "P"]
        firsts = []
        for k in ks:
            if k not in firsts:
                firsts.append(k)
        nargs = len(r["args"])
        if firsts != list(range(1, nargs + 1)):
            ctx.violation(f"placeholders {firsts} are not $1..${nargs} in order of first occurrence", rep)
            continue
        sub = [("ARG", r["args"][int(bytes.fromhex(t[1:])) - 1]) if t[0] == "P" else t for t in tsql]
        exp = [("ARG", int(bytes.fromhex(t[1:])) - 1000000) if t[0] == "P" else t for t in til]
        if sub != exp:
            rep["composed"] = marked.decode("utf8", "replace")
            ctx.violation("substituting $k by args[k-1] does not give back the composed statement", rep)
            continue
        if len(ks) >= 2 and (c["dump"], r["v"], r["p"]) not in seen:
            seen.add((c["dump"], r["v"], r["p"]))
            nontrivial += 1
    ctx.cov["evaluations"] = ctx.cov.get("evaluations", 0) + evaluated
    ctx.cov["distinct_nontrivial"] = ctx.cov.get("distinct_nontrivial", 0) + nontrivial
    ctx.cov["excluded_raw_text_breaks_lexing"] = excluded
    return evaluated


# ------------------------------------------------------------------------------------ C03

@check("C03")
def c03(ctx):
    props.check_props_file(ctx, "Props/C03.v")
    # the constructors that decide which values are bound at all (Arg, Args, SetMap, Values ...) against their model
    live, tail, diffs = api_correspondence(ctx, 4000 if ctx.quick() else 40000)
    api_composition_search(ctx, tail, diffs, "the values handed to a constructor are not the ones the emitted text binds")
    n = 3000 if ctx.quick() else 60000
    cases = harness_cases(ctx, n, depth=6 if ctx.quick() else 8)
    distribution(ctx, cases)
    correspondence(ctx, cases)
    eval_substitution(ctx, cases)
    stability(ctx, cases)
    ctx.cov["rule"] = ("type-directed API programs (every exported function/method, reflection); each value rendered "
                       "under 4 option combinations and up to 3 named-argument maps; non-trivial = distinct value x "
                       "options whose text has >= 2 placeholders; evaluated = placeholders enumerate 1..n and "
                       "substitution equals the stateless rendering")
    ctx.cov["samples"] = samples(cases)


# ------------------------------------------------------------------------------------ C04

@check("C04")
def c04(ctx):
    props.check_props_file(ctx, "Props/C04.v")
    n = 3000 if ctx.quick() else 60000
    cases = harness_cases(ctx, n, depth=6 if ctx.quick() else 8, extra=["-binds", "0.5", "-repeat", "5"])
    distribution(ctx, cases)
    correspondence(ctx, cases)
    eval_substitution(ctx, cases)
    stability(ctx, cases)
    # missing / extra / nil maps
    n_missing = n_extra = with_binds = 0
    for c in cases:
        if not c["binds"]:
            continue
        with_binds += 1
        base = c["renders"][0]
        for r in c["renders"][4:]:
            named = r["named"]
            used = base.get("used_names")
            if used is None:
                continue
            missing = any(u not in (named or {}) for u in used)
            rep = {"prog": c["prog"], "named": named, "used_names": used,
                   "result": corr.decode_obs(corr.impl_obs(r))}
            if r.get("panic"):
                continue
            if missing:
                n_missing += 1
                if not r.get("missing") or r["sql"] != "":
                    ctx.violation("a used bind name has no value but rendering did not fail with empty SQL", rep)
            else:
                n_extra += 1
                if (r["sql"], r["args"], r["err"]) != (base["sql"], base["args"], base["err"]):
                    ctx.violation("supplying extra, unused names changed the result", rep)
    ctx.cov["cases_with_binds"] = with_binds
    ctx.cov["missing_map_renderings"] = n_missing
    ctx.cov["extra_map_renderings"] = n_extra
    ctx.cov["rule"] = ("type-directed API programs with bind names from a pool incl. empty and odd strings; maps: "
                       "complete, missing one name, nil, with extras; every rendering repeated 5 times (fresh Go map "
                       "order); non-trivial = distinct value x options with >= 2 placeholders")
    ctx.cov["samples"] = samples([c for c in cases if c["binds"]] or cases)


# ------------------------------------------------------------------------------------ C05 / C10 / C11

def special_mode_raw(ctx, mode, extra, race=False, timeout=3000):
    os.makedirs(build.WORK, exist_ok=True)
    out = os.path.join(build.WORK, f"{mode}-{os.getpid()}.jsonl")
    exe = os.path.join(build.BIN, "harness-race" if race else "harness")
    rc, o, _ = build.sh([exe, "-mode", mode, "-seed", str(ctx.seed), "-out", out] + extra, timeout=timeout)
    cases = [json.loads(l) for l in open(out)] if os.path.exists(out) else []
    if os.path.exists(out):
        os.unlink(out)
    return cases, rc, o


@check("C05")
def c05(ctx):
    props.check_props_file(ctx, "Props/C05.v")
    n, steps = (250, 40) if ctx.quick() else (8000, 60)
    hist = special_mode_cases(ctx, "c05", ["-n", str(n), "-depth", str(steps)])
    ev = forks = 0
    methods = set()
    for h in hist:
        ev += h["steps"]
        forks += h["forks"]
        methods.update(h["methods"])
        for v in h["violations"]:
            ctx.violation("a derivation changed what an earlier value renders to", {"history": h["id"], "detail": v[:3000]})
    # every recorded API call (statement builders, WITH builders, expression constructors and methods): receiver and
    # arguments are dumped before and after the call, field by field incl. unexported ones and slice contents
    live, tail, diffs = api_correspondence(ctx, 4000 if ctx.quick() else 40000)
    for s_ in live:
        ev += 1
        if s_.get("mutated"):
            ctx.violation("a call changed its receiver or an argument (compared field by field before / after)",
                          {"prog": s_["prog"][-3000:], "call": f"{s_['rtype']} {s_['method']}", "changed": s_["mutated"].strip()})
            break
    # the batch form and the JSON histories of C16 also continue the batch builder after End()
    ctx.cov["evaluations"] = ev
    ctx.cov["distinct_nontrivial"] = forks
    ctx.cov["history_trees"] = len(hist)
    ctx.cov["distinct_methods_used_as_continuation"] = len(methods)
    ctx.cov["rule"] = (f"history trees of {steps} derivation steps: any live value (structured and type-directed bases, incl. the JSON "
                       "batch builder) is continued by a random method found by reflection, recent values and already continued "
                       "values preferred; after every call every live value is re-rendered and compared with its first rendering; "
                       "evaluations = derivation steps, non-trivial = values continued at least twice (forks); in addition every "
                       "recorded API call is checked to leave receiver and arguments unchanged (structural dump before / after)")
    ctx.cov["samples"] = [{"history": h["id"], "steps": h["steps"], "forks": h["forks"], "methods": h["methods"][:6]} for h in hist[:3]]
    ctx.assumptions.append("the lowering Go AST -> effect IR (coq/Meta/Lower.v) is the trusted reading of Go's slice / append / "
                           "value-copy semantics; it is conservative (unknown constructs are rejected)")


@check("C10")
def c10(ctx):
    props.check_props_file(ctx, "Props/C10.v")
    n, reps = (150, 20) if ctx.quick() else (1500, 200)
    res = special_mode_cases(ctx, "c10", ["-n", str(n), "-repeat", str(reps)])
    ev = 0
    for r in res:
        ev += r["renders"]
        for v in r["violations"][:1]:
            ctx.violation("repeated rendering of one value differs", {"prog": r["prog"][:1500], "detail": v[:2500]})
    # a second process renders the same values for the first time in the opposite order
    rev = special_mode_cases(ctx, "c10", ["-n", str(n), "-repeat", "1", "-reverse"])
    ctx.obligation("both c10 runs generate the same values", [r["prog"] for r in res] == [r["prog"] for r in rev])
    for a, b in zip(res, rev):
        ev += 1
        if a["prog"] == b["prog"] and a["first"] != b["first"]:
            ctx.violation("the outcome of rendering a value depends on which other values were rendered before it",
                          {"prog": a["prog"][:1500], "rendered_early": a["first"][:2000], "rendered_late": b["first"][:2000]})
    ctx.cov["evaluations"] = ev
    ctx.cov["distinct_nontrivial"] = len(res)
    ctx.cov["rule"] = (f"each value (structured statements; InsertInto/Update.SetMap with 1..64 random keys) rendered {reps} times "
                       "interleaved with renderings of the other values in one goroutine, then from 16 goroutines; every result "
                       "(sql, args, error class) compared byte for byte with the first; distinct = values")
    ctx.cov["samples"] = [{"prog": r["prog"][:200], "renders": r["renders"]} for r in res[:3]]
    ctx.assumptions.append("partial: goroutine schedules are exercised, not enumerated")


@check("C11")
def c11(ctx):
    props.check_props_file(ctx, "Props/C11.v")
    runs = 6 if ctx.quick() else 60
    ev = 0
    for k in range(runs):
        os.environ["GORACE"] = "halt_on_error=0"
        res, rc, out = special_mode_raw(ctx, "c11", ["-n", "40", "-depth", "120" if ctx.quick() else "600"], race=True)
        ctx.seed += 1
        if "DATA RACE" in out or rc == 66:
            ctx.violation("the race detector reports a data race between goroutines sharing builder values",
                          {"race_report": out[:6000]})
            break
        if rc != 0 or not res:
            ctx.obligation("race-enabled harness run", False, out[-2000:])
            break
        r = res[0]
        ev += r["ops"]
        for v in r["violations"][:2]:
            ctx.violation("a goroutine observed a different result than it would alone", {"detail": v[:3000]})
    ctx.seed -= runs
    ctx.cov["evaluations"] = ev
    ctx.cov["distinct_nontrivial"] = runs * 16
    ctx.cov["rule"] = ("harness built with -race: 16 goroutines derive from and render 40 shared values (with a few earlier "
                       "derivations, common sub-expressions and CTE lists) following plans whose results were computed "
                       "sequentially; every result compared with the sequential one; evaluations = concurrent operations, "
                       "non-trivial = goroutine runs")
    ctx.cov["samples"] = [{"goroutines": 16, "shared_values": 40}]
    ctx.assumptions.append("partial: the Go memory model and scheduler are not modelled; the race detector observes the schedules "
                           "that happen; regexp.Regexp is trusted to be safe for concurrent use")


# ------------------------------------------------------------------------------------ C06

def known_for(prop):
    return [f for f in props.load_known().get("findings", [])
            if f.get("property") == prop or prop in f.get("properties", [])]


@check("C06")
def c06(ctx):
    props.check_props_file(ctx, "Props/C06.v")
    maxlen = 3 if ctx.quick() else 5
    nrand = 400 if ctx.quick() else 20000
    os.makedirs(build.WORK, exist_ok=True)
    out = os.path.join(build.WORK, f"c06-{os.getpid()}.jsonl")
    rc, o, _ = build.sh([os.path.join(build.BIN, "harness"), "-mode", "c06", "-seed", str(ctx.seed), "-maxlen", str(maxlen),
                         "-n", str(nrand), "-out", out], timeout=3000)
    cases = [json.loads(l) for l in open(out)]
    os.unlink(out)
    if rc != 0:
        ctx.obligation("harness run (c06 mode)", False, o[-2000:])
    # the model renders the same text (ties quote_lit / z_dec / compile to the code)
    reqs = [f"(render T {corr.tf(c.get('pretty', False))} nil {c['dump']})" for c in cases]
    answers = corr.model_answers(reqs)
    mism = []
    for c, a in zip(cases, answers):
        if c.get("panic"):
            continue
        if not a.startswith("OK s") or a.split(" ")[1][1:] != c["sql"]:
            mism.append({"ctx": c["ctx"], "kind": c["kind"], "s": c["s"], "impl": c["sql"], "model": a[:400]})
    ctx.obligation("correspondence: model and implementation render every literal case byte for byte", not mism,
                   json.dumps(mism[:3]))
    ctx.cov["traces_validated_against_impl"] = len(cases) - len(mism)
    zz = "S" + b"zz".hex()
    known_nul = False
    ev = 0
    kinds, ctxs, lens = Counter(), Counter(), Counter()
    distinct = set()
    for scs in (True, False):
        t_sql = lex_many([bytes.fromhex(c["sql"]) for c in cases], scs)
        t_ref = lex_many([bytes.fromhex(c["ref"]) for c in cases], scs)
        for c, ts, tr in zip(cases, t_sql, t_ref):
            ev += 1
            kinds[c["kind"]] += 1
            ctxs[c["ctx"]] += 1
            rep = {"context": c["ctx"], "kind": c["kind"], "value": c["s"], "standard_conforming_strings": scs,
                   "sql": bytes.fromhex(c["sql"]).decode("utf8", "replace"), "err": c.get("err"), "panic": c.get("panic")}
            if c.get("panic") or c.get("err"):
                ctx.violation("rendering a literal failed", rep)
                continue
            if tr is None:
                ctx.obligation("reference rendering lexes", False, json.dumps(rep))
                continue
            if c["kind"] in ("string", "rune"):
                lens[len(c["s"]) // 2] += 1
                reftok = zz if c["kind"] == "string" else "S7a"
                want = [("S" + c["s"]) if t == reftok else t for t in tr]
                ok = ts == want
                if not ok and "00" in [c["s"][i:i + 2] for i in range(0, len(c["s"]), 2)]:
                    known_nul = known_nul or rep
                    continue
            elif c["kind"] == "int":
                z = int(c["s"])
                digits = "N" + str(abs(z)).encode().hex()
                lit = (["C2d"] if z < 0 else []) + [digits]
                want = [x for t in tr for x in (lit if t == "N37" else [t])]
                ok = ts == want
            elif c["kind"] == "float":
                import struct
                f = struct.unpack("<d", struct.pack("<Q", int(c["s"])))[0]
                # read the constant back: it must be a (signed) numeric constant equal to the Go value
                ok = ts is not None and len(ts) >= len(tr)
                if ok:
                    k = len(ts) - len(tr)      # 0 or 1 extra token (the sign) per occurrence is handled below
                    want, i, ok2 = [], 0, True
                    for t in tr:
                        if t == "N37":
                            neg = False
                            if i < len(ts) and ts[i] == "C2d":
                                neg, i = True, i + 1
                            if i >= len(ts) or ts[i][0] != "N":
                                ok2 = False
                                break
                            txt = bytes.fromhex(ts[i][1:]).decode()
                            val = float(txt) * (-1.0 if neg else 1.0)
                            if struct.pack("<d", val) != struct.pack("<d", f) and not (val == f == 0.0):
                                ok2 = False
                                break
                            i += 1
                        else:
                            if i >= len(ts) or ts[i] != t:
                                ok2 = False
                                break
                            i += 1
                    ok = ok2 and i == len(ts)
            else:
                want = [("W" + c["s"].encode().hex()) if t in ("W" + b"true".hex(), "W" + b"false".hex()) else t for t in tr]
                ok = ts == want
            if not ok:
                rep["tokens"] = ts
                rep["expected_from_reference"] = tr
                ctx.violation("the literal is not emitted as exactly one constant with its value", rep)
            else:
                distinct.add((c["kind"], c["s"], c["ctx"]))
    if known_nul:
        kf = [k for k in known_for("C06") if k["id"] == "D9-literal-NUL"]
        if kf:
            ctx.known.append(f"D9-literal-NUL a string containing a NUL byte is not carried as one literal "
                             f"(e.g. context {known_nul['context']}, value hex {known_nul['value']})")
        else:
            ctx.violation("a string containing NUL is not emitted as one string constant", known_nul)
    ctx.cov["evaluations"] = ev
    ctx.cov["distinct_nontrivial"] = len(distinct)
    ctx.cov["exhaustive"] = False
    ctx.cov["exhaustive_part"] = f"all strings of length <= {maxlen} over the 12-byte critical alphabet; every context for length <= 2"
    ctx.cov["input_distribution"] = {"kinds": dict(kinds), "contexts": dict(ctxs),
                                     "string_length": {str(k): v for k, v in sorted(lens.items())}}
    ctx.cov["rule"] = ("exhaustive strings over {' \\ a E $ - / * LF NUL 0xC3 0xA9} + random long strings (invalid UTF-8 incl.) x "
                       "27 literal contexts, ints incl. min/max, floats incl. subnormals and random bit patterns, bools, ESCAPE "
                       "runes; each statement is lexed (both standard_conforming_strings settings) and compared with the token "
                       "stream of the same statement holding a reference literal; distinct = (kind, value, context)")
    ctx.cov["samples"] = [{"context": c["ctx"], "value_hex": c["s"], "sql": bytes.fromhex(c["sql"]).decode("utf8", "replace")}
                          for c in cases[200:203]]
    ctx.assumptions.append("partial for floats: strconv.FormatFloat is an oracle; its output is read back with Python's "
                           "correctly rounded float() and compared bit for bit")
    ctx.assumptions.append("the context condition of C06_string (what precedes / follows a literal) is evaluated on every "
                           "generated statement, not yet proved for all statements")


# ------------------------------------------------------------------------------------ C16

def special_mode_cases(ctx, mode, extra):
    os.makedirs(build.WORK, exist_ok=True)
    out = os.path.join(build.WORK, f"{mode}-{os.getpid()}.jsonl")
    rc, o, _ = build.sh([os.path.join(build.BIN, "harness"), "-mode", mode, "-seed", str(ctx.seed), "-out", out] + extra,
                        timeout=3000)
    cases = [json.loads(l) for l in open(out)] if os.path.exists(out) else []
    if os.path.exists(out):
        os.unlink(out)
    ctx.obligation(f"harness run ({mode} mode)", rc == 0, o[-2000:])
    return cases


def pairs_from_tokens(toks):
    """[(key hex, value hex)] from the tokens of name ( 'k' , v , 'k' , v ... )"""
    if toks is None or len(toks) < 3 or toks[0][0] != "W" or toks[1] != "C28" or toks[-1] != "C29":
        return None
    body = toks[2:-1]
    if not body:
        return []
    if len(body) % 4 != 3:
        return None
    out = []
    for i in range(0, len(body), 4):
        k, c, v = body[i:i + 3]
        if k[0] != "S" or c != "C2c" or v[0] != "W":
            return None
        if i + 3 < len(body) and body[i + 3] != "C2c":
            return None
        out.append((k[1:], v[1:]))
    return out


@check("C16")
def c16(ctx):
    props.check_props_file(ctx, "Props/C16.v")
    # the builder calls themselves (JsonBuildObject, Prop, PropIf, Unset; the SELECT-level ApplySelectJson) against
    # the constructor / API model that C16_api_call_is_map_step speaks about
    live, tail, diffs = api_correspondence(ctx, 3000 if ctx.quick() else 30000)
    ctx.cov["api_json_builder_steps"] = sum(1 for s_ in live if "JsonBuildObject" in s_["method"] or s_["method"] in ("ApplySelectJson", "SelectJson"))
    api_composition_search(ctx, tail, diffs, "a JSON object builder call composes another object than the one the emitted text shows")
    maxlen = 3 if ctx.quick() else 5
    cases = special_mode_cases(ctx, "c16", ["-maxlen", str(maxlen), "-n", "600" if ctx.quick() else "30000"])
    reqs = []
    for c in cases:
        fl = corr.tf(c["jsonb"])
        reqs += [f"(json16 {fl} {c['ops']})", f"(json16 {fl} {c['ops_batch']})", f"(json16 {fl} {c['ops_apply']})"]
    ans = corr.model_answers(reqs)
    toks = lex_many([bytes.fromhex(c["sql"][0]) if not c.get("panic") and not c["sql"][0].startswith("ERR") else b"" for c in cases])
    mism = []
    ev = 0
    lens = Counter()
    for i, c in enumerate(cases):
        ev += 1
        nops = c["ops"].count("(")
        lens[min(nops, 41)] += 1
        rep = {"history": c["prog"], "sql": c.get("sql"), "spec": c.get("spec")}
        if c.get("panic"):
            ctx.violation("the JSON object builder panicked / misbehaved: " + c["panic"], rep)
            continue
        plain, batch, apply_ = (a.split(" ") for a in ans[3 * i:3 * i + 3])
        if plain[0] != "J16" or batch[0] != "J16" or apply_[0] != "J16":
            ctx.obligation("model decodes every history", False, json.dumps(rep))
            continue
        sql = c["sql"]
        name = "jsonb_build_object" if c["jsonb"] else "json_build_object"
        # direct evaluation against the ordered-map specification
        got = pairs_from_tokens(toks[i])
        want = [tuple(kv.split("=")) for kv in c["spec"].split(":")[1].split(";") if kv]
        fn_tok = toks[i][0] if toks[i] else None
        if got != want:
            ctx.violation("the emitted entries are not the insertion-ordered map of the history", rep)
        elif fn_tok != "W" + name.encode().hex():
            ctx.violation("the json/jsonb flavour chosen at creation is not preserved", rep)
        elif not (sql[0] == sql[1] == sql[2] == sql[3]):
            ctx.violation("batch form / ApplyIf form is not equivalent to the same sets applied one by one", rep)
        elif bytes.fromhex(sql[4]) != b"SELECT " + bytes.fromhex(sql[0]):
            ctx.violation("the history applied to a select's JSON selection renders differently", rep)
        elif bytes.fromhex(sql[5]) != name.encode() + b"()":
            ctx.violation("operating on the object changed the base value", rep)
        # correspondence with the model
        if not (plain[1][1:] == sql[0] and batch[1][1:] == sql[1] and apply_[1][1:] == sql[2] and plain[2][1:] == sql[4]
                and plain[3] == batch[3] == apply_[3] == c["spec"]):
            mism.append({"history": c["prog"], "impl": sql, "model": [plain, batch, apply_]})
    ctx.obligation("correspondence: model and implementation agree on every history (sql of all forms, abstract state)",
                   not mism, json.dumps(mism[:2])[:3000])
    ctx.cov["traces_validated_against_impl"] = len(cases) - len(mism)
    ctx.cov["evaluations"] = ev
    ctx.cov["distinct_nontrivial"] = sum(1 for c in cases if c["ops"].count("(") >= 2)
    ctx.cov["exhaustive_part"] = f"all histories of length <= {maxlen} over 3 keys x {{set, set-if true, set-if false, unset}} x both flavours"
    ctx.cov["input_distribution"] = {"history_length": {str(k): v for k, v in sorted(lens.items())}}
    ctx.cov["rule"] = ("exhaustive short histories + random histories up to length 40 over 4 fixed and 20 random keys (empty key, "
                       "key needing escaping); each run one by one, in batch form (maximal set runs), through ApplyIf(true/false) "
                       "and as a select's JSON selection; entries read back from the SQL with the PostgreSQL lexer and compared "
                       "with an independent ordered-map specification; non-trivial = history of >= 2 operations")
    ctx.cov["samples"] = [{"history": c["prog"][:300], "sql": bytes.fromhex(c["sql"][0]).decode("utf8", "replace")}
                          for c in cases[50:53] if not c.get("panic")]


# ------------------------------------------------------------------------------------ C12 / C13

def adapters(ctx, which):
    props.check_props_file(ctx, f"Props/{which}.v")
    cases = special_mode_cases(ctx, "c12", ["-n", "3600" if ctx.quick() else "120000", "-hostile", "0.2"])
    # independent oracle: what the extracted model says ToSQL returns for the same value, options and named arguments
    with_dump = [c for c in cases if c.get("dump")]
    correspondence(ctx, with_dump, label="ToSQL of the adapter cases")
    cube = Counter()
    ev = 0
    distinct = set()
    errkinds = Counter()
    for c in cases:
        failing = bool(c.get("render_err"))
        m = (c.get("renders") or [{}])[0].get("model", "")
        model_failing = m in ("MISSING", "PANIC") or (m.startswith("OK ") and m.split(" ")[3] != "s")
        if which == "C12" and model_failing and not c.get("panic") and (c["ncalls"] != 0 or not failing):
            ctx.violation("rendering reports an error according to the model, yet the executor was called or no error came back",
                          {"adapter": c["adapter"], "method": c["method"], "construction": c["path"], "named_args": c["named"],
                           "validation": c["validate"], "prog": c["prog"][:1500], "model_ToSQL": corr.decode_obs(m),
                           "implementation_ToSQL_error": c.get("render_err"), "executor_calls": c["ncalls"],
                           "sql_handed_to_executor_or_rendered": bytes.fromhex(c["sql"]).decode("utf8", "replace")[:600]})
            ev += 1
            continue
        if (which == "C12") != failing and not c.get("panic"):
            continue
        ev += 1
        cube[(c["adapter"], c["method"], c["path"], c["named"], c["validate"])] += 1
        if failing:
            errkinds[c["render_err"].split(":")[0][:40]] += 1
        rep = {"adapter": c["adapter"], "method": c["method"], "construction": c["path"], "named_args": c["named"],
               "validation": c["validate"], "executor_fails": c["exec_fails"], "prog": c["prog"][:1500],
               "render_err": c.get("render_err"), "executor_calls": c["ncalls"], "problems": c["problems"]}
        if c.get("panic"):
            ctx.violation("adapter call panicked: " + c["panic"][:200], rep)
            continue
        mine = [p for p in c["problems"] if p.startswith(which)]
        if mine:
            ctx.violation(mine[0][:300], rep)
        else:
            distinct.add((c["adapter"], c["method"], c["path"], c["named"], c["validate"], c["prog"]))
    ctx.cov["evaluations"] = ev
    ctx.cov["distinct_nontrivial"] = len(distinct)
    ctx.cov["configuration_cube_cells_hit"] = len(cube)
    ctx.cov["configuration_cube_cells_total"] = 2 * 3 * 2 * 2 * 2
    ctx.cov["input_distribution"] = {"render_error_kinds": dict(errkinds),
                                     "per_adapter_method": dict(Counter((k[0] + "." + k[1]) for k in cube.elements()))}
    ctx.cov["samples"] = [{"adapter": c["adapter"], "method": c["method"], "prog": c["prog"][:300],
                           "render_err": c.get("render_err")} for c in cases[:3]]
    return cases


@check("C12")
def c12(ctx):
    adapters(ctx, "C12")
    ctx.cov["rule"] = ("structured + type-directed queries, 20% hostile names/types, binds with and without supplied map (missing "
                       "named argument), conflicting clauses; every failing query x 2 adapters x 3 methods x 2 construction paths "
                       "x named/none x validation on/off with a recording stub executor; distinct = (configuration, program)")


@check("C13")
def c13(ctx):
    adapters(ctx, "C13")
    ctx.cov["rule"] = ("every successfully rendering query (0..40+ arguments) x 2 adapters x 3 methods x 2 construction paths x "
                       "named/none x validation on/off; the recorded call (context identity, sql, args by DeepEqual) is compared "
                       "with a fresh ToSQL under the same options; executor results and errors must come back unchanged; "
                       "distinct = (configuration, program)")


# ------------------------------------------------------------------------------------ C17

@check("C17")
def c17(ctx):
    props.check_props_file(ctx, "Props/C17.v")
    # refinements and the inherited operators on refined values against the constructor model (operand = handle)
    live, tail, diffs = api_correspondence(ctx, 3000 if ctx.quick() else 30000)
    api_composition_search(ctx, tail, diffs, "the operand inside the larger expression is not the refined value")
    cases = special_mode_cases(ctx, "c17", ["-maxlen", "3" if ctx.quick() else "4"])
    ev = 0
    per = Counter()
    distinct = set()
    methods = set()
    for c in cases:
        ev += 1
        per[c["builder"]] += 1
        methods.add(c["method"])
        rep = {"builder": c["builder"], "refinements": c["refine"], "inherited_method": c["method"],
               "refined_alone": bytes.fromhex(c["refined"].split("|")[0]).decode("utf8", "replace") if c.get("refined") else None,
               "through_inherited_method": bytes.fromhex(c["via"].split("|")[0]).decode("utf8", "replace") if c.get("via") else None,
               "through_plain_wrapper": bytes.fromhex(c["wrap"].split("|")[0]).decode("utf8", "replace") if c.get("wrap") else None}
        if c.get("panic"):
            ctx.violation("applying an inherited method panicked: " + c["panic"][:200], rep)
        elif c["via"] != c["wrap"] or not c["via"].startswith(c["refined"].split("|")[0]):
            ctx.violation("the operand of the inherited operator is not the refined value", rep)
        elif not c["handle_ok"]:
            ctx.violation("the self handle of the refined value is not a copy of the value", rep)
        else:
            distinct.add((c["builder"], c["refine"], c["method"]))
    ctx.cov["evaluations"] = ev
    ctx.cov["distinct_nontrivial"] = len([d for d in distinct if d[1]])
    ctx.cov["exhaustive"] = True
    ctx.cov["inherited_methods"] = sorted(methods)
    ctx.cov["input_distribution"] = {"per_builder": dict(per)}
    ctx.cov["rule"] = ("all refinement sequences up to length 3 (thorough: 4) over {Distinct, OrderBy, Asc, Desc, NullsFirst, NullsLast, "
                       "Filter, WithinGroup, WithOrdinality, As, ColumnDefinition} applicable to FuncBuilder, AggExpBuilder / "
                       "OrderByAggExpBuilder, CaseExp, IdentExp, fn.JsonToRecord x every method of ExpBase (reflection); the text "
                       "through the inherited method must equal the text through ExpBase{Exp: refined} and start with the "
                       "standalone rendering; non-trivial = at least one refinement")
    ctx.cov["samples"] = [{"builder": c["builder"], "refinements": c["refine"], "method": c["method"],
                           "sql": bytes.fromhex(c["via"].split("|")[0]).decode("utf8", "replace")} for c in cases[300:303]]


# ------------------------------------------------------------------------------------ C18

OP_SYMBOLS = {"Eq": "=", "Neq": "<>", "Lt": "<", "Lte": "<=", "Gt": ">", "Gte": ">=", "Concat": "||", "RegexpMatch": "~",
              "RegexpIMatch": "~*", "RegexpNotMatch": "!~", "RegexpINotMatch": "!~*", "Plus": "+", "Minus": "-", "Mult": "*",
              "Divide": "/", "Mod": "%", "Pow": "^", "JsonExtract": "->", "JsonExtractText": "->>", "JsonExtractPath": "#>",
              "JsonExtractPathText": "#>>", "Contains": "@>", "ContainedBy": "<@", "Like": "LIKE", "ILike": "ILIKE",
              "NotLike": "NOT LIKE", "NotILike": "NOT ILIKE", "SimilarTo": "SIMILAR TO", "NotSimilarTo": "NOT SIMILAR TO",
              "In": "IN", "NotIn": "NOT IN"}
SUFFIX_SYMBOLS = {"IsNull": "IS NULL", "IsNotNull": "IS NOT NULL"}


def norm_name(s):
    return s.replace("_", "").replace(" ", "").lower()


@check("C18")
def c18(ctx):
    props.check_props_file(ctx, "Props/C18.v")
    # the operator / predicate methods and their optional refinements (Escape): Model/Ctor.v's tables binops / matchops
    # say which symbol each method denotes; every call of the systematic catalogue is compared with them
    live, tail, diffs = api_correspondence(ctx, 2500 if ctx.quick() else 25000)
    api_composition_search(ctx, tail, diffs, "an operator method (or its optional refinement) emits another operator than the one it is named after")
    cases = special_mode_cases(ctx, "c18", [])
    ev = 0
    names = set()
    unknown_ops = []
    for c in cases:
        ev += 1
        names.add(c["name"])
        rep = {"wrapper": c["name"], "arguments": c["arg_text"], "sql": c.get("sql"), "generic": c.get("generic"),
               "panic": c.get("panic"), "err": c.get("err")}
        if c["kind"] == "func":
            if c.get("panic"):
                # more optional arguments than the function accepts: an arity guard, not a wrapper defect
                if "too many arguments" in c["panic"]:
                    continue
                ctx.violation("wrapper panicked: " + c["panic"][:200], rep)
                continue
            if c.get("alias"):
                rep["aliasing"] = c["alias"]
                ctx.violation("wrapper does not pass its arguments unchanged: " + c["alias"][:200], rep)
                continue
            go_name = c["name"].split(".")[1]
            sql = c["sql"]
            if go_name in ("JsonBuildObject", "JsonbBuildObject"):
                want = ("jsonb" if go_name.startswith("Jsonb") else "json") + "_build_object()"
                if sql != want:
                    ctx.violation("wrapper does not emit the function it is named after", rep)
                continue
            if go_name == "Extract":
                at = c["arg_text"] or ["", ""]
                if sql != f"EXTRACT({at[0]} FROM {at[1]})":
                    ctx.violation("EXTRACT wrapper does not pass field and source in declared order", rep)
                continue
            i = sql.find("(")
            sym, rest = sql[:i].strip(), sql[i:]
            if i <= 0 or norm_name(sym) != norm_name(go_name):
                ctx.violation("wrapper does not emit the function it is named after", rep)
            elif rest != "(" + ",".join(c["arg_text"] or []) + ")":
                ctx.violation("wrapper does not pass exactly its arguments in declared order", rep)
            elif c.get("generic") != sql:
                ctx.violation("wrapper differs from the same call through the generic constructor", rep)
        else:
            if c.get("panic"):
                ctx.violation("operator method panicked: " + c["panic"][:200], rep)
            elif c["name"] in OP_SYMBOLS:
                arg = "(zz)" if c["name"] in ("In", "NotIn") else "zz"
                if c["sql"] != f"lhs {OP_SYMBOLS[c['name']]} {arg}":
                    ctx.violation("operator method does not emit the operator it is named after", rep)
            elif c["name"].endswith(".Escape") and c["name"][:-7] in OP_SYMBOLS:
                if c["sql"] != f"lhs {OP_SYMBOLS[c['name'][:-7]]} zz ESCAPE '!'":
                    ctx.violation("the optional ESCAPE argument changes the operator the method is named after", rep)
            elif c["name"] in SUFFIX_SYMBOLS:
                if c["sql"] != f"lhs {SUFFIX_SYMBOLS[c['name']]}":
                    ctx.violation("predicate method does not emit the predicate it is named after", rep)
            else:
                unknown_ops.append(c["name"])
    ctx.obligation("every operator / predicate method of ExpBase found by reflection has an entry in the naming table",
                   not unknown_ops, json.dumps(unknown_ops))
    ctx.cov["evaluations"] = ev
    ctx.cov["distinct_nontrivial"] = len(names)
    ctx.cov["exhaustive"] = True
    ctx.cov["wrappers_enumerated"] = len(names)
    ctx.cov["rule"] = ("every exported function of package fn and the conditional functions (registry regenerated from the source) "
                       "for every arity within the declaration (0..3 optional arguments) and every operator / predicate method of "
                       "ExpBase (reflection), applied to distinguishable arguments arg1..argN and, in every expression position, to calls of the "
                       "conditional wrappers, a generic function call, a literal and an operator expression; the symbol in the text must "
                       "normalise to the Go name, the arguments must appear once each in declared order, and the text must equal "
                       "the generic constructor's; distinct = wrappers")
    ctx.cov["samples"] = [{"wrapper": c["name"], "sql": c.get("sql")} for c in cases[:3]]


# ------------------------------------------------------------------------------------ C19

@check("C19")
def c19(ctx):
    props.check_props_file(ctx, "Props/C19.v")
    # ApplyIf / ApplySelectJson of the statement builders against the functional model the C19_api_* laws are about
    live, tail, diffs = api_correspondence(ctx, 3000 if ctx.quick() else 30000)
    ctx.cov["api_applyif_steps"] = sum(1 for s_ in live if s_["method"] in ("ApplyIf", "ApplySelectJson"))
    api_composition_search(ctx, tail, diffs, "a conditional combinator returns something else than the receiver / the function's result")
    cases = special_mode_cases(ctx, "c19", ["-n", "1200" if ctx.quick() else "60000"])
    kinds = Counter()
    ev = 0
    distinct = set()
    for c in cases:
        ev += 1
        kinds[(c["kind"], c["cond"])] += 1
        rep = {"kind": c["kind"], "cond": c["cond"], "what": c["desc"][:1500], "calls": c["calls"],
               "got": c["got"][:600], "want": c["want"][:600]}
        if c.get("panic"):
            ctx.violation("conditional helper panicked / misbehaved: " + c["panic"], rep)
            continue
        if c["got"] != c["want"] or c["got_args"] != c["want_args"]:
            ctx.violation("the conditional helper does not render like the plain if/else", rep)
            continue
        if c["calls"] >= 0 and c["calls"] != (1 if c["cond"] else 0):
            ctx.violation(f"the supplied function was called {c['calls']} times", rep)
            continue
        if not c["recv_same"]:
            ctx.violation("the receiver was changed by the conditional helper", rep)
            continue
        distinct.add((c["kind"], c["cond"], c["desc"]))
    # And / Or with nil operands also against the model: same value as without the nils
    reqs, idx = [], []
    for i, c in enumerate(cases):
        if c.get("dump"):
            reqs += [f"(render T F nil {c['dump']})", f"(render T F nil {c['dump_want']})"]
            idx.append(i)
    ans = corr.model_answers(reqs)
    bad = [cases[i]["desc"] for k, i in enumerate(idx) if ans[2 * k] != ans[2 * k + 1] or ans[2 * k].startswith("DECODEFAIL")]
    ctx.obligation("model: And/Or with nil operands equals And/Or without them", not bad, json.dumps(bad[:3]))
    ctx.cov["traces_validated_against_impl"] = len(idx)
    ctx.cov["evaluations"] = ev
    ctx.cov["distinct_nontrivial"] = len(distinct)
    ctx.cov["input_distribution"] = {f"{k[0]} cond={k[1]}": v for k, v in sorted(kinds.items())}
    ctx.cov["rule"] = ("receivers (select, update, JSON object, JSON batch builder) generated through the fluent API x both "
                       "conditions x callback functions built from one random fluent method each (call counter) and nil "
                       "functions; And/Or with nil at random positions among up to 5 operands; both sides of the law are "
                       "rendered and compared (sql, args); distinct = (helper, condition, receiver+function program)")
    ctx.cov["samples"] = [{"kind": c["kind"], "cond": c["cond"], "program": c["desc"][:300]} for c in cases[:3]]


# ------------------------------------------------------------------------------------ C07 / C08

def shape_ok(toks, types):
    """The token shape of the theorems (observer of Meta/Product.v), on lexer tokens; returns
    'ok', 'kf-uescape' or 'bad'."""
    o = "O0"
    for t in toks:
        k = t[0]
        word = k == "W"
        ue = word and bytes.fromhex(t[1:]).lower() == b"uescape"
        seg = word or k == "Q"
        useg = k == "U"
        star = t == "C2a"
        selfc = bytes.fromhex(t[1:]).decode("latin1") if k == "C" else None
        if o in ("O0", "ODot"):
            o = "SegU" if useg else "Seg" if seg else ("Star" if star and not types else "R")
        elif o in ("Seg", "SegU"):
            if selfc == ".":
                o = "ODot"
            elif ue:
                o = "Ue" if o == "SegU" else "UeBad"
            elif types and selfc == "(":
                o = "T1"
            elif types and selfc == "[":
                o = "T4"
            else:
                o = "R"
        elif o == "Star":
            o = "UeBad" if ue else "R"
        elif o == "Ue":
            o = "Done" if k == "S" else "R"
        elif o == "Done":
            o = "T4" if types and selfc == "[" else "R"
        elif o == "UeBad":
            o = "KF" if k == "S" else "R"
        elif o == "KF":
            o = "KF" if types and (selfc in ("[", "]") or k == "N") else "R"
        elif o == "T1":
            o = "T2" if k == "N" else "R"
        elif o == "T2":
            o = "T3" if selfc == ")" else "R"
        elif o == "T3":
            o = "T4" if selfc == "[" else ("UeBad" if ue else "R")
        elif o == "T4":
            o = "T6" if selfc == "]" else ("T5" if k == "N" else "R")
        elif o == "T5":
            o = "T6" if selfc == "]" else "R"
        elif o == "T6":
            o = "T4" if selfc == "[" else "R"
        else:
            o = "R"
    if o in ("Seg", "SegU", "Done") or (o == "Star" and not types) or (types and o in ("T3", "T6")):
        return "ok"
    return "kf-uescape" if o == "KF" else "bad"


def pattern_check(ctx, which):
    kind = "ident" if which == "C07" else "type"
    props.check_props_file(ctx, f"Props/{which}.v")
    cases = special_mode_cases(ctx, "c07", ["-n", "4000" if ctx.quick() else "200000",
                                           "-stride", "8" if ctx.quick() else "1"])
    cases = [c for c in cases if c["kind"] == kind]
    strs = [bytes.fromhex(c["s"]) for c in cases]
    trimmed = [s.strip(b" \t\n\v\f\r\x85\xa0") if kind == "ident" else s for s in strs]
    # Go's TrimSpace is Unicode aware; ask the model only about what the library's matcher saw: the
    # emitted text (for accepted names) or the string itself
    probe = []
    for c, s in zip(cases, strs):
        probe.append(bytes.fromhex(c["sql"]) if (kind == "ident" and c["valid"]) else
                     (s if kind == "type" else None))
    idx = [i for i, p in enumerate(probe) if p is not None]
    req = "validident" if kind == "ident" else "validtype"
    ans = corr.model_answers([f"({req} s{probe[i].hex()})" for i in idx])
    mism = []
    for i, a in zip(idx, ans):
        if (a == "T") != cases[i]["valid"]:
            mism.append({"string_hex": probe[i].hex(), "go_regexp": cases[i]["valid"], "model_matcher": a})
    ctx.obligation(f"correspondence: the model's derivative matcher agrees with Go's regexp on every tested string ({kind} pattern)",
                   not mism, json.dumps(mism[:5]))
    ctx.cov["traces_validated_against_impl"] = len(idx) - len(mism)
    # a rejected string is reported and not written - whichever option methods were called, in whichever order, and from
    # inside a statement as well; an accepted one is written the same way everywhere
    n_var = 0
    reject_text = {}
    for c, s in zip(cases, strs):
        for v in c.get("variants", []):
            n_var += 1
            vsql = bytes.fromhex(v["sql"])
            rep = {"input_hex": c["s"], "input": s.decode("utf8", "replace"), "rendering": v["name"],
                   "emitted": vsql.decode("utf8", "replace"), "err": v.get("err")}
            if not c["valid"]:
                if not v.get("err"):
                    ctx.violation(f"a string the pattern rejects is rendered without an error ({v['name']})", rep)
                    break
                # nothing of a rejected string is written: every rejected string gives the same text in this rendering
                ref = reject_text.setdefault(v["name"], vsql)
                if vsql != ref:
                    rep["text_for_other_rejected_strings"] = ref.decode("utf8", "replace")
                    ctx.violation(f"a string the pattern rejects leaves a trace in the text ({v['name']})", rep)
                    break
            elif v.get("err") and not c.get("err"):
                ctx.violation(f"a string the pattern accepts is reported as invalid in another rendering ({v['name']})", rep)
                break
        else:
            continue
        break
    ctx.cov["option_and_position_variants_rendered"] = n_var
    # direct evaluation: what is emitted for an accepted string lexes as the required shape
    acc = [i for i, c in enumerate(cases) if c["valid"] and not c.get("panic")]
    emitted = []
    for i in acc:
        c = cases[i]
        sql = bytes.fromhex(c["sql"])
        emitted.append(sql if kind == "ident" else sql[len(b"x::"):])
    toks = lex_many(emitted, True)
    known_hit = {}
    ev = 0
    listed = {k["id"]: k for k in known_for(which)}
    classes = Counter()
    for i, e, t in zip(acc, emitted, toks):
        c = cases[i]
        ev += 1
        rep = {"input_hex": c["s"], "input": strs[i].decode("utf8", "replace"), "emitted": e.decode("utf8", "replace"),
               "err": c.get("err"), "tokens": t}
        if c.get("err"):
            ctx.violation("the matcher accepts the string but rendering reports an error", rep)
            continue
        if kind == "ident" and e != strs[i].strip() and e.decode("utf8", "replace") != strs[i].decode("utf8", "replace").strip():
            ctx.violation("the emitted text is not the trimmed input", rep)
            continue
        if kind == "type" and (e != strs[i] or not bytes.fromhex(c["sql"]).startswith(b"x::")):
            ctx.violation("the emitted text is not the input", rep)
            continue
        cls = None
        if t is not None:
            r = shape_ok(t, kind == "type")
            if r == "ok":
                classes["shape-ok"] += 1
                continue
            if r == "kf-uescape":
                cls = "D8-uescape-without-uident"
        if cls is None and b"\x00" in e:
            cls = "D9-name-NUL"
        if cls is None and re.search(rb"(?<![0-9A-Za-z_$\x80-\xff])[Uu]&(?!\")", e):
            cls = "D8-uamp-before-unquoted"
        if cls is None:
            ctx.violation("an accepted string is not emitted as a pure identifier path" if kind == "ident" else
                          "an accepted cast type is not emitted as a pure type name", rep)
            continue
        classes[cls] += 1
        known_hit.setdefault(cls, rep)
    for cls, rep in sorted(known_hit.items()):
        if cls in listed:
            ctx.known.append(f"{cls} e.g. input {rep['input']!r} is accepted and emitted as {rep['emitted']!r}")
        else:
            ctx.violation(f"accepted string outside the safe shape ({cls})", rep)
    ctx.cov["evaluations"] = len(cases)
    ctx.cov["accepted_strings_lexed"] = ev
    ctx.cov["distinct_nontrivial"] = len({c["s"] for c in cases if c["valid"]})
    ctx.cov["input_distribution"] = {"accepted": len(acc), "rejected": len(cases) - len(acc), "classes_of_accepted": dict(classes)}
    ctx.cov["rule"] = ("every ASCII character and every boundary code point of \\p{L} / \\p{Nd} (quick: every 8th) in 17 position "
                       "classes, grammar-shaped names/types with prefixes, UESCAPE / modifier / array tails and byte mutations, "
                       "names around the 63-character limit; Go's regexp (verif hook) vs the model's matcher on each; every "
                       "accepted string is rendered and the emitted text lexed; distinct = accepted strings")
    ctx.cov["samples"] = [{"input": strs[i].decode("utf8", "replace"), "emitted": emitted[k].decode("utf8", "replace")}
                          for k, i in enumerate(acc[:3])]
    ctx.assumptions.append("the theorem represents a non-ASCII rune by one byte >= 0x80 (the lexer treats all such bytes alike); "
                           "token-level invalidity of Unicode escapes inside U&\"...\" is decided by PostgreSQL's parser, not its lexer")
    ctx.assumptions.append("standard_conforming_strings = on (the default since 9.1) for the UESCAPE character literal")


@check("C07")
def c07(ctx):
    pattern_check(ctx, "C07")


@check("C08")
def c08(ctx):
    pattern_check(ctx, "C08")


# ------------------------------------------------------------------------------------ C09

def parse_sexp(text):
    """Nested lists / atoms from the dump text."""
    toks = text.replace("(", " ( ").replace(")", " ) ").split()
    pos = 0

    def item():
        nonlocal pos
        t = toks[pos]
        pos += 1
        if t != "(":
            return t
        out = []
        while toks[pos] != ")":
            out.append(item())
        pos += 1
        return out
    return item()


HANDLE_STRUCTS = {"IdentExp", "FuncBuilder", "AggExpBuilder", "CaseExp", "funcExp"}


def collect_names(node, names, types, info):
    """Independent traversal of the composed value: every N(...) and Cast(...) string, except inside
    the self handles (copies of the value itself)."""
    if not isinstance(node, list) or not node:
        return
    head = node[0]
    if head == "IdentExp":
        names.append(bytes.fromhex(node[2][1:]))
        return
    if head == "expType":
        types.append(bytes.fromhex(node[1][1:]))
        return
    if head == "selectCombination":
        parts = node[1]
        # selectQueryParts: ... orderBys(11) limit(12) offset(13)
        if parts[11] != "nil" and parts[11] != ["list"] or parts[12] != "nil" or parts[13] != "nil":
            info["branch_tail"] = True
    if head == "InsertBuilder":
        if node[6] != "nil" and node[7] != "nil":
            info["abort"] = True
        if node[10] != "s" and node[8] not in ("nil", ["list"]) and node[11] != "s":
            info["abort"] = True
    if head == "fromItem" and node[1] == "T" and node[2] == "T":
        info["abort"] = True
    if head == "FuncBuilder" and node[4] == "T" and node[6] not in ("nil", ["list"]):
        info["abort"] = True
    start = 2 if head in HANDLE_STRUCTS else 1
    skip = set()
    if head == "InsertBuilder" and len(node) == 15:
        # parts that a later call has overridden are not part of the composed statement (and have no slot in it):
        # VALUES rows once a query is set; ON CONFLICT parts without an action; DO UPDATE's SET / WHERE after DoNothing
        do_update = "s" + b"DO UPDATE".hex()
        if node[7] != "nil":
            skip.add(6)
        if node[11] == "s":
            skip.update({8, 9, 12, 13})
        elif node[11] != do_update:
            skip.update({12, 13})
    for i, child in enumerate(node[start:], start):
        if i in skip:
            continue
        collect_names(child, names, types, info)


@check("C09")
def c09(ctx):
    props.check_props_file(ctx, "Props/C09.v")
    n = 3000 if ctx.quick() else 60000
    cases = harness_cases(ctx, n, depth=6 if ctx.quick() else 8, hostile=0.22)
    distribution(ctx, cases)
    correspondence(ctx, cases)
    # validity of every distinct name / type by the model's matcher (tied to regexp by the C07/C08 checks)
    per_case = []
    all_names, all_types = set(), set()
    for c in cases:
        names, types, info = [], [], {}
        collect_names(parse_sexp(c["dump"]), names, types, info)
        per_case.append((names, types, info))
        all_names.update(names)
        all_types.update(types)
    ln, lt = sorted(all_names), sorted(all_types)
    va = corr.model_answers([f"(validident s{x.hex()})" for x in ln] + [f"(validtype s{x.hex()})" for x in lt])
    valid_n = {x: a == "T" for x, a in zip(ln, va[:len(ln)])}
    valid_t = {x: a == "T" for x, a in zip(lt, va[len(ln):])}
    ev = nontriv = 0
    known = {}
    offenders_hist = Counter()
    seen = set()
    for c, (names, types, info) in zip(cases, per_case):
      for ri in (0, 2):                # validation on: plain, pretty printed
          r = c["renders"][ri]
          if r.get("panic") or r.get("missing"):
              continue
          ev += 1
          bad_n = [x for x in names if not valid_n[x]]
          bad_t = [x for x in types if not valid_t[x]]
          offenders_hist[min(len(bad_n) + len(bad_t), 7)] += 1
          msg = bytes.fromhex(r["err"]) if r["err"] else b""
          rep = {"prog": c["prog"], "pretty_print": ri == 2, "offending_names": [x.decode("utf8", "replace") for x in bad_n],
                 "offending_types": [x.decode("utf8", "replace") for x in bad_t],
                 "err": msg.decode("utf8", "replace"), "sql": bytes.fromhex(r["sql"]).decode("utf8", "replace")}
          problems = []
          if (r["err"] is None) and (bad_n or bad_t):
              problems.append("rendering succeeded although a name or type is invalid")
          n_id = msg.count(b"identifier: invalid: ")
          n_ty = msg.count(b"type: invalid: ")
          if n_id != len(bad_n) or n_ty != len(bad_t):
              problems.append(f"{len(bad_n)} invalid names / {len(bad_t)} invalid types composed, "
                              f"{n_id} / {n_ty} reported")
          for x in set(bad_n):
              if b"identifier: invalid: " + x not in msg:
                  problems.append("an offending name is not reported")
          for x in set(bad_t):
              if b"type: invalid: " + x not in msg:
                  problems.append("an offending type is not reported")
          if bad_n and "ErrInvalidIdentifier" not in (r.get("err_is") or []):
              problems.append("errors.Is(err, ErrInvalidIdentifier) is false")
          if bad_t and "ErrInvalidType" not in (r.get("err_is") or []):
              problems.append("errors.Is(err, ErrInvalidType) is false")
          if problems:
              if info.get("branch_tail"):
                  known.setdefault("D5-setop-branch-tail", rep)
              elif info.get("abort"):
                  known.setdefault("D10-offender-after-structural-abort", rep)
              else:
                  ctx.violation("; ".join(sorted(set(problems))), rep)
          elif (bad_n or bad_t) and ri == 0 and c["dump"] not in seen:
              seen.add(c["dump"])
              nontriv += 1
    listed = {k["id"] for k in known_for("C09")}
    for kid, rep in known.items():
        if kid in listed:
            ctx.known.append(f"{kid} e.g. {rep['prog'][:200]}")
        else:
            ctx.violation(f"offenders not reported ({kid})", rep)
    ctx.cov["evaluations"] = ev
    ctx.cov["distinct_nontrivial"] = nontriv
    ctx.cov["input_distribution"]["simultaneous_offenders"] = {str(k): v for k, v in sorted(offenders_hist.items())}
    ctx.cov["rule"] = ("mixed structured / type-directed statements with 22% hostile names and cast types at every position "
                       "class; the offenders are collected by an independent traversal of the dumped value (every IdentExp / "
                       "expType outside self handles) and compared with the reported errors (count, text, errors.Is); "
                       "non-trivial = distinct value with at least one offender that is reported correctly")
    ctx.cov["samples"] = samples(cases)
    ctx.assumptions.append("partial: that the names visited by the rendering (idents (compile e)) are all names of the value is "
                           "checked by the independent traversal on every generated value, not yet proved in Coq")


# ------------------------------------------------------------------------------------ C14

VALIDATION_PREFIXES = ("identifier: invalid", "type: invalid", "case: no conditions given")


def err_lines(r):
    if r["err"] is None:
        return []
    return bytes.fromhex(r["err"]).decode("utf8", "replace").split("\n")


def structural_lines(r):
    # an invalid name may itself contain a newline; its continuation lines belong to the validation error
    out, skipping = [], False
    for line in err_lines(r):
        if line.startswith(VALIDATION_PREFIXES):
            skipping = True
            continue
        if line.startswith(("from item:", "insert:", "func:")):
            skipping = False
            out.append(line)
        elif not skipping:
            out.append(line)
    return out


@check("C14")
def c14(ctx):
    props.check_props_file(ctx, "Props/C14.v")
    n = 3000 if ctx.quick() else 60000
    cases = harness_cases(ctx, n, depth=6 if ctx.quick() else 8, hostile=0.05)
    distribution(ctx, cases)
    correspondence(ctx, cases)
    ev = nontriv = 0
    seen = set()
    for c in cases:
        byopt = {(r["v"], r["p"]): r for r in c["renders"][:4]}
        for p in (False, True):
            on, off = byopt[(True, p)], byopt[(False, p)]
            if on.get("panic") or off.get("panic") or on.get("missing") or off.get("missing"):
                continue
            ev += 1
            rep = {"prog": c["prog"], "pretty": p, "validating": corr.decode_obs(corr.impl_obs(on)),
                   "not_validating": corr.decode_obs(corr.impl_obs(off))}
            if on["err"] is None:
                if (on["sql"], on["args"]) != (off["sql"], off["args"]) or off["err"] is not None:
                    ctx.violation("a query that is valid with validation on renders differently with validation off", rep)
                elif c["dump"] not in seen and ("IdentExp" in c["dump"] or "expType" in c["dump"]):
                    seen.add(c["dump"])
                    nontriv += 1
            if structural_lines(on) != structural_lines(off):
                ctx.violation("structural conflicts are not reported identically in both modes", rep)
    ctx.cov["evaluations"] = ev
    ctx.cov["distinct_nontrivial"] = nontriv
    ctx.cov["rule"] = ("type-directed API programs, 5% hostile names; each value rendered validation on/off x pretty on/off; "
                       "non-trivial = distinct value containing at least one name or cast type whose validating "
                       "rendering has no error")
    ctx.cov["samples"] = samples(cases)


# ------------------------------------------------------------------------------------ C15

@check("C15")
def c15(ctx):
    props.check_props_file(ctx, "Props/C15.v")
    n = 3000 if ctx.quick() else 60000
    cases = harness_cases(ctx, n, depth=6 if ctx.quick() else 8,
                          extra=["-boost", "qrb.InsertInto=25,WithBuilder.InsertInto=25"])
    distribution(ctx, cases)
    correspondence(ctx, cases)
    ev = nontriv = unlexable = skipped_invalid = 0
    seen = set()
    pairs = []
    for c in cases:
        byopt = {(r["v"], r["p"]): r for r in c["renders"][:4]}
        for v in (False, True):
            pl, pp = byopt[(v, False)], byopt[(v, True)]
            if pl.get("panic") or pp.get("panic") or pl.get("missing") or pp.get("missing"):
                continue
            if not v and byopt[(True, False)]["err"] is not None:
                # validation off AND the statement does not validate: invalid caller-supplied names (an unbalanced
                # quote, say) are written as they are and swallow the white space that follows - not a statement
                skipped_invalid += 1
                continue
            pairs.append((c, v, pl, pp))
    toks = {}
    for scs in (True, False):
        toks[scs] = (lex_many([bytes.fromhex(pl["sql"]) for _, _, pl, _ in pairs], scs),
                     lex_many([bytes.fromhex(pp["sql"]) for _, _, _, pp in pairs], scs))
    for i, (c, v, pl, pp) in enumerate(pairs):
        ev += 1
        rep = {"prog": c["prog"], "validating": v, "plain": corr.decode_obs(corr.impl_obs(pl)),
               "pretty": corr.decode_obs(corr.impl_obs(pp))}
        if pl["args"] != pp["args"] or pl["err"] != pp["err"]:
            ctx.violation("pretty printing changes the argument list or the error", rep)
            continue
        bad = False
        for scs in (True, False):
            ta, tb = toks[scs][0][i], toks[scs][1][i]
            if ta is None and tb is None:
                unlexable += 1          # caller-supplied raw text (validation off) that is not SQL at all
            elif ta != tb:
                rep["standard_conforming_strings"] = scs
                ctx.violation("pretty and plain renderings have different PostgreSQL token sequences", rep)
                bad = True
                break
        if not bad and pl["sql"] != pp["sql"] and (c["dump"], v) not in seen:
            seen.add((c["dump"], v))
            nontriv += 1
    ctx.cov["both_renderings_unlexable"] = unlexable
    ctx.cov["validation_off_renderings_of_invalid_statements_not_judged"] = skipped_invalid
    ctx.cov["evaluations"] = ev
    ctx.cov["distinct_nontrivial"] = nontriv
    ctx.cov["rule"] = ("type-directed API programs with INSERT boosted; plain vs pretty rendering for validation on and "
                       "off; non-trivial = distinct value x validation whose two texts actually differ")
    ctx.cov["samples"] = samples([c for c in cases if c["renders"][0]["sql"] != c["renders"][2]["sql"]] or cases)


# ------------------------------------------------------------------------------------ C01

def _txt(h):
    return bytes.fromhex(h).decode("utf8", "replace")


@check("C01")
def c01(ctx):
    props.check_props_file(ctx, "Props/C01.v")
    listed = {k["id"]: k for k in known_for("C01")}
    known_hit = {}
    verdicts = Counter()
    ev = 0
    nontriv = set()

    seen_sigs = set()
    dup = [0]

    def classify(rep, classes, what):
        """a text that does not read back as composed: recorded finding, outside the quantifier, or violation"""
        qs = [c for c in classes if c.startswith("Q-")]
        if qs:
            verdicts["outside quantifier"] += 1
            return
        ds = [c for c in classes if not c.startswith("Q-")]
        unlisted = [c for c in ds if c not in listed]
        if ds and not unlisted:
            for c in ds:
                known_hit.setdefault(c, rep)
            verdicts["recorded finding"] += 1
        else:
            rep["classes"] = classes
            verdicts["violation"] += 1
            sig = (what, tuple(sorted(set(classes))), rep.get("statement", "")[:6])
            # one replay per distinct kind of failure, so that the listed ones are different from each other
            if sig not in seen_sigs:
                seen_sigs.add(sig)
                ctx.violation(what + (": " + ", ".join(unlisted) if unlisted else ""), rep)
            else:
                dup[0] += 1

    # ---- A: intent-level programs: what the caller means vs what PostgreSQL's grammar reads
    n_int = 2500 if ctx.quick() else 60000
    icases = special_mode_cases(ctx, "c01", ["-n", str(n_int)])
    icases = [c for c in icases if c.get("kind") != "panic"] if icases else []
    ctx.cov["intent_cases_by_kind"] = dict(Counter(c["kind"] for c in icases))
    correspondence(ctx, icases, label="intent programs")
    reqs, owner = [], []
    for ci, c in enumerate(icases):
        seen = set()
        for r in c["renders"][:4]:
            if r.get("panic"):
                ctx.violation("rendering a statement panicked", {"prog": c["prog"][:2000], "panic": r["panic"]})
                continue
            if r["err"] is not None:
                ctx.violation("a statement composed of plain names reports an error", {"prog": c["prog"][:2000], "err": _txt(r["err"])})
                continue
            if r["sql"] not in seen:
                seen.add(r["sql"])
                reqs.append(f"(readstmt s{r['sql']})")
                owner.append((ci, r))
    for (ci, r), a in zip(owner, corr.model_answers(reqs)):
        c = icases[ci]
        ev += 1
        got = _txt(a[4:]) if a.startswith("RS s") else None
        if got == c["expect"]:
            verdicts["intent ok"] += 1
            nontriv.add(c["prog"])
            continue
        rep = {"prog": c["prog"][:3000], "options": {"validation": r["v"], "pretty": r["p"]}, "emitted": _txt(r["sql"])[:3000],
               "expected_reading": c["expect"][:3000],
               "actual_reading": got[:3000] if got else "(rejected by the statement grammar)"}
        classify(rep, c["deviations"], "the emitted statement does not read back as the statement that was composed")

    # ---- B: the library's own records (type-directed and grammar-shaped API programs): composed parts vs slots
    n = 3000 if ctx.quick() else 60000
    cases = harness_cases(ctx, n, depth=5 if ctx.quick() else 7, hostile=0.0)
    distribution(ctx, cases)
    correspondence(ctx, cases, label="API programs")
    reqs, owner = [], []
    for ci, c in enumerate(cases):
        seen = set()
        # "renders without error": judged under validation; with validation off an invalid caller-supplied name is
        # written as it is and says nothing about the builders
        if any(r.get("panic") or r.get("missing") or r["err"] is not None for r in c["renders"][:4] if r["v"]):
            verdicts["not rendering without error"] += 1
            continue
        for r in c["renders"][:4]:
            if r.get("panic") or r.get("missing") or r["err"] is not None or r["sql"] in seen:
                continue
            seen.add(r["sql"])
            reqs.append(f"(c01 {c['dump']} s{r['sql']})")
            owner.append((ci, r))
    for (ci, r), a in zip(owner, corr.model_answers(reqs)):
        c = cases[ci]
        if not a.startswith("C01 "):
            ctx.obligation("every c01 request is answered by the model", False, a[:300])
            continue
        for vi, v in enumerate(a[4:].split(" | ")):
            p = v.split(" ")
            if p[0] == "skip":
                continue
            ev += 1
            if p[0] == "ok":
                verdicts["records ok" if vi == 0 else "nested ok"] += 1
                if vi == 0:
                    nontriv.add(c["dump"])
                continue
            sql = _txt(r["sql"])
            classes = [x for x in (p[3] if len(p) > 3 else "").split(",") if x]
            if "\x00" in sql:
                classes.append("D9-literal-NUL")
            rep = {"prog": c["prog"][:3000], "options": {"validation": r["v"], "pretty": r["p"]},
                   "statement": "top level" if vi == 0 else f"nested statement #{vi} (model text)",
                   "emitted": sql[:3000], "composed": _txt(p[1][1:])[:3000],
                   "read_back_as": _txt(p[2][1:])[:3000] if p[0] == "mismatch" else "(rejected by the statement grammar)"}
            classify(rep, classes, "a composed part is missing, duplicated, moved or the text is not a statement")
    # C: the builder methods themselves, call by call against the functional model the C01_api_* laws are about
    live, tail, diffs = api_correspondence(ctx, 4000 if ctx.quick() else 40000)
    api_composition_search(ctx, tail, diffs, "a builder call composes something else than the statement that is emitted after it")
    ev += len(live)
    for kid, rep in sorted(known_hit.items()):
        ctx.known.append(f"{kid} e.g. {rep['prog'][:300]} is emitted as {rep['emitted'][:300]!r}")
    if dup[0]:
        ctx.notes.append(f"{dup[0]} further violations of an already listed kind are not listed separately")
    ctx.cov["evaluations"] = ev
    ctx.cov["distinct_nontrivial"] = len(nontriv)
    ctx.cov["verdicts"] = dict(verdicts)
    ctx.cov["rule"] = ("A: abstract statements (all slots, repeated calls, aliases, CTEs, set operations, four statement kinds; all "
                       "leaves distinct names) composed through the API; the text under each option combination is read by the "
                       "statement reader of Pg/Stmt.v and compared with the intended clause tree. B: reflection-generated and "
                       "grammar-shaped API programs; the clause tree built from the builder records (Model/C01Eval.v) is compared "
                       "with the reading of the emitted text, nested statements included; compositions lacking a mandatory part "
                       "or with empty operand lists are outside the quantifier. C: histories of builder calls from the entry points and "
                       "from generated statements; the model's result of every call (Model/Api.v) equals the implementation's. "
                       "non-trivial = distinct statements read back equal")
    ctx.cov["samples"] = samples(icases)



# ------------------------------------------------------------------------------------ API model (Model/Api.v)

def api_correspondence(ctx, n):
    """Histories of builder calls (entry points included) applied through reflection; the model's result of every
    call (Model/Api.v, extracted) must equal the implementation's, structurally.  Returns (live steps, requests tail
    per step, diffs) for the property-specific search."""
    steps, rc, o = special_mode_raw(ctx, "api", ["-n", str(n), "-depth", "2"])
    ctx.obligation("API harness run", rc == 0 and bool(steps), o[-1500:])
    live = [s for s in steps if not s.get("skip")]
    skipped = Counter(s["method"] for s in steps if s.get("skip"))

    def tail(s):
        return f"{corr.hexs(s['rtype'])} {corr.hexs(s['method'])} {s['recv']} ({' '.join(s['args'] or [])})"
    ans = corr.model_answers([f"(api {tail(s)} {s['result']})" for s in live])
    diffs, unmod, dfail, agreed_panics = [], [], [], 0
    for s, a in zip(live, ans):
        if a == "API ok":
            continue
        if a == "API none":
            if s["result"] == "panic":
                agreed_panics += 1
            else:
                unmod.append(s)
        elif a.startswith("API diff"):
            diffs.append((s, a))
        else:
            dfail.append((s, a))
    ctx.obligation("API model: every recorded builder call decodes into the model", not dfail,
                   json.dumps([{"prog": s["prog"][-600:], "answer": a} for s, a in dfail[:3]]))
    # a call without a handler (a function or method added to the library, or a call the model says panics but the
    # implementation completes) is a gap in the model, not a broken tie: listed, not failed
    ctx.cov["api_calls_without_handler"] = dict(Counter(f"{s['rtype']}.{s['method']}" for s in unmod).most_common(20))
    ctx.obligation("API model: the model's result of every builder call equals the implementation's (all fields)", not diffs,
                   json.dumps([{"type": s["rtype"], "method": s["method"], "prog": s["prog"][-600:]} for s, _ in diffs[:3]]))
    # extraction is trusted glue here too: a sample of the same requests is re-evaluated inside the kernel
    k = 30 if ctx.quick() else 300
    step = max(1, len(live) // k)
    pairs = [(f"(api {tail(s)} {s['result']})", a) for s, a in list(zip(live, ans))[::step][:k] if len(s["recv"]) + len(s["result"]) < 20000]
    if pairs:
        ok, nreq, detail = corr.kernel_crosscheck(pairs, ctx.prop + "api")
        ctx.obligation("extraction cross-check API: vm_compute inside Coq gives the extracted model's answers", ok, detail)
        ctx.cov["extraction_crosscheck_requests"] = ctx.cov.get("extraction_crosscheck_requests", 0) + nreq
    ctx.cov["api_steps_compared"] = len(live)
    ctx.cov["api_methods_distinct"] = len({(s["rtype"], s["method"]) for s in live})
    ctx.cov["api_entry_point_steps"] = sum(1 for s in live if s["rtype"] == "qrb")
    ctx.cov["api_constructor_steps"] = sum(1 for s in live if s["rtype"] == "ctor")
    ctx.cov["api_expression_method_steps"] = sum(1 for s in live if s["rtype"] == "meth")
    ctx.cov["api_construction_panics_agreed"] = agreed_panics
    ctx.cov["api_methods_not_modelled"] = dict(skipped)
    ctx.cov["traces_validated_against_impl"] = ctx.cov.get("traces_validated_against_impl", 0) + len(live) - len(diffs) - len(unmod) - len(dfail)
    return live, tail, diffs

def api_composition_search(ctx, tail, diffs, what):
    """On a disagreement between the API model and the implementation: is the text emitted for the implementation's
    result different from the text of what the call composes (the model's result)?  That call is the failing input."""
    if not diffs:
        return
    sub = diffs[:60]
    rend = corr.model_answers([f"(apirender {tail(s_)})" for s_, _ in sub])
    for (s_, a), m in zip(sub, rend):
        r = s_.get("render")
        if r is None or m in ("NONE", "DECODEFAIL"):
            continue
        o = corr.impl_obs(r)
        if o != m:
            ctx.violation(what, {"prog": s_["prog"][-3000:], "call": f"{s_['rtype']} {s_['method']}",
                                 "emitted": corr.decode_obs(o), "composed (model of the call)": corr.decode_obs(m)})
            return


# ------------------------------------------------------------------------------------ C02

@check("C02")
def c02(ctx):
    props.check_props_file(ctx, "Props/C02.v")
    # the operator methods themselves (which tree a call composes) against the constructor model
    live, tail, diffs = api_correspondence(ctx, 3000 if ctx.quick() else 30000)
    api_composition_search(ctx, tail, diffs, "an operator or predicate method composes another tree than the one whose text is emitted")
    stride = 12 if ctx.quick() else 1
    n = 2500 if ctx.quick() else 60000
    cases = special_mode_cases(ctx, "c02", ["-n", str(n), "-depth", str(3 if ctx.quick() else 5), "-stride", str(stride)])
    ctx.cov["cases_by_generator"] = dict(Counter(c["gen"] for c in cases))
    correspondence(ctx, cases)
    # every distinct text the implementation emits for the composed value: the four option combinations and the
    # two occurrences inside SELECT <e> FROM t WHERE <e>
    reqs, owner = [], []
    emb_bad = 0
    for ci, c in enumerate(cases):
        texts = []
        for r in c["renders"][:4]:
            if r.get("panic"):
                ctx.violation("rendering an operator expression panicked", {"prog": c["prog"], "panic": r["panic"]})
                continue
            t = bytes.fromhex(r["sql"])
            if t not in [x for x, _ in texts]:
                texts.append((t, f"stand-alone v={r['v']} p={r['p']}"))
        if c.get("emb_panic"):
            ctx.violation("rendering the embedded expression panicked", {"prog": c["prog"], "panic": c["emb_panic"]})
        else:
            emb = bytes.fromhex(c["embedded"])
            i = emb.find(b" FROM t WHERE ")
            if not emb.startswith(b"SELECT ") or i < 0:
                emb_bad += 1
                ctx.violation("the statement embedding the expression is not SELECT <e> FROM t WHERE <e>",
                              {"prog": c["prog"], "embedded": emb.decode("utf8", "replace")})
            else:
                for t, where in ((emb[7:i], "select list"), (emb[i + 14:], "WHERE")):
                    if t not in [x for x, _ in texts]:
                        texts.append((t, "embedded in " + where))
        for t, where in texts:
            reqs.append(f"(c02 {c['dump']} s{t.hex()})")
            owner.append((ci, t, where))
    answers = corr.model_answers(reqs)
    listed = {k["id"]: k for k in known_for("C02")}
    verdicts = Counter()
    site_hist = Counter()
    known_hit = {}
    ev = 0
    nontriv = set()
    decodefail = []
    # site classes whose local condition fails although the tree reads back as composed (the checker is a strict
    # sub-grammar): demonstrated harmless, alone, in this very run
    harmless = set()
    for (ci, t, where), a in zip(owner, answers):
        parts = a.split(" ")
        if parts[:2] == ["C02", "ok"] and len(parts) > 3:
            ok_sites = [x for x in parts[3].split(",") if x]
            if len(ok_sites) == 1:
                harmless.add(ok_sites[0])
    ctx.cov["harmless_site_classes"] = sorted(harmless)
    for (ci, t, where), a in zip(owner, answers):
        c = cases[ci]
        parts = a.split(" ")
        if parts[0] != "C02":
            decodefail.append({"prog": c["prog"], "answer": a[:200]})
            continue
        ev += 1
        kind = parts[1]
        verdicts[kind + ("" if kind == "skip" else (":covered" if parts[2] == "T" else ":uncovered"))] += 1
        if kind == "ok":
            if b"(" in t or b" " in t:
                nontriv.add(c["dump"])
            continue
        if kind == "skip":
            continue
        composed = bytes.fromhex(parts[3][1:]).decode("utf8", "replace")
        parsed = bytes.fromhex(parts[4][1:]).decode("utf8", "replace") if kind == "mismatch" else None
        sites = [x for x in (parts[5] if len(parts) > 5 else "").split(",") if x]
        rep = {"prog": c["prog"], "where": where, "emitted": t.decode("utf8", "replace"), "composed": composed,
               "read_back_as": parsed if parsed is not None else "(not an expression: rejected by the grammar)",
               "failing_sites": sites, "dump": c["dump"][:3000]}
        for s_ in sites:
            site_hist[s_] += 1
        unlisted = [s_ for s_ in sites if "D7-" + s_ not in listed and s_ not in harmless]
        if sites and not unlisted and not any("D7-" + s_ in listed for s_ in sites):
            unlisted = sites        # only harmless sites fail, yet the text reads back differently
        if parts[2] == "T":
            ctx.violation("a tree the checker accepts (C02_parse_back applies) reads back differently: model / "
                          "implementation / reader disagree", rep)
        elif not sites:
            ctx.violation("the emitted text does not denote the composed expression and no local precedence "
                          "condition of the model fails", rep)
        elif unlisted:
            rep["unlisted_sites"] = unlisted
            ctx.violation("the emitted text does not denote the composed expression (operator/operand combination "
                          "not among the recorded findings): " + ", ".join(unlisted), rep)
        else:
            for s_ in sites:
                if "D7-" + s_ in listed:
                    known_hit.setdefault("D7-" + s_, rep)
    ctx.obligation("every c02 request is answered by the model", not decodefail, json.dumps(decodefail[:3]))
    skipped = verdicts.get("skip", 0)
    ctx.obligation("at most 1% of the texts are outside the reader's fragment", skipped * 100 <= max(1, ev), str(skipped))
    for kid, rep in sorted(known_hit.items()):
        ctx.known.append(f"{kid} e.g. {rep['prog']} is emitted as {rep['emitted']!r}, which reads back as {rep['read_back_as']}")
    ctx.cov["evaluations"] = ev
    ctx.cov["distinct_nontrivial"] = len(nontriv)
    ctx.cov["verdicts"] = dict(verdicts)
    ctx.cov["failing_site_classes"] = dict(site_hist)
    ctx.cov["rule"] = ("spines through every (parent kind, operand position, direct/re-wrapped, child kind) up to depth 3 "
                       f"(depth 3: every {stride}th) plus random full trees; every distinct text emitted for a value "
                       "(4 option combinations, select list, WHERE) is lexed and read with PostgreSQL's precedence table "
                       "and compared with the composed tree modulo re-association of + * AND OR chains; "
                       "non-trivial = distinct composed values with at least one operator that read back equal")
    ctx.cov["samples"] = samples(cases[10:])


# ------------------------------------------------------------------------------------ C20

@check("C20")
def c20(ctx):
    props.check_props_file(ctx, "Props/C20.v")
    n = 6000 if ctx.quick() else 60000
    cases = harness_cases(ctx, n, depth=7 if ctx.quick() else 8, hostile=0.1)
    distribution(ctx, cases)
    correspondence(ctx, cases)
    ev = 0
    for c in cases:
        for r in c["renders"]:
            ev += 1
            if r.get("panic"):
                ctx.violation("rendering panicked",
                              {"prog": c["prog"], "opts": {"v": r["v"], "p": r["p"], "named": r["named"]},
                               "panic": r["panic"]})
    # every value the API hands out satisfies the well-formedness predicate of the theorem
    answers = corr.model_answers([f"(wfe {c['dump']})" for c in cases])
    bad = [c for c, a in zip(cases, answers) if a != "T"]
    ctx.obligation("every generated API value satisfies wfe (hypothesis of C20_no_panic)", not bad,
                   json.dumps([{"prog": c["prog"]} for c in bad[:3]]))
    # the builder API: model vs implementation call by call, and the conclusion of C20_reachable_no_panic on the
    # implementation: no call whose receiver and arguments meet the theorem's hypotheses yields a value that panics
    live, tail, diffs = api_correspondence(ctx, 6000 if ctx.quick() else 60000)
    hyp = corr.model_answers([f"(apihyp {tail(s)})" for s in live])
    n_hyp = n_nohyp_panic = 0
    for s_, h in zip(live, hyp):
        rp = (s_.get("render") or {}).get("panic")
        ev += 1
        if h == "T":
            n_hyp += 1
            # (a panic inside the builder call itself, e.g. Select().As("x") on an empty select list, constructs no
            # value and is outside the property: the model answers None there and the counts are in the coverage)
            if rp:
                ctx.violation("a builder call on a well-formed receiver with well-formed arguments yields a value whose rendering panics",
                              {"prog": s_["prog"][-3000:], "type": s_["rtype"], "method": s_["method"], "panic": rp})
        elif rp:
            n_nohyp_panic += 1
    ctx.cov["api_steps_meeting_hypotheses"] = n_hyp
    ctx.cov["api_steps_with_nil_input_that_panic"] = n_nohyp_panic
    ctx.cov["evaluations"] = ev
    ctx.cov["distinct_nontrivial"] = len({c["dump"] for c in cases})
    ctx.cov["wfe_checked_values"] = len(cases)
    ctx.cov["rule"] = ("type-directed composition of every exported constructor and method (reflection), non-nil arguments, "
                       "incl. incomplete statements, zero-length variadics, extreme literals, 10% hostile names; "
                       "recover() around ToSQL in all four option combinations and with missing / nil maps; "
                       "distinct = distinct value dumps")
    ctx.cov["samples"] = samples(cases)
    ctx.assumptions.append("partial: stack exhaustion and allocation failure of the Go runtime are not modelled; "
                           "reachable => wfe is proved for the statement builders (Model/Api.v: entry points and every method "
                           "of the SELECT / INSERT / UPDATE / DELETE / WITH builder families) and for the expression constructors and "
                           "ExpBase methods of Model/Ctor.v (C20_built_no_panic); for package fn, Float and the JSON object builder "
                           "it is checked on generated values only")


def baseline_off():
    """The repository's own suite with the verif guard off (workspace mode, no -mod flag)."""
    env = dict(os.environ, GOPROXY="off", GOSUMDB="off", GOTOOLCHAIN="local")
    env.pop("GOFLAGS", None)
    rc, out, dt = build.sh(["go", "test", "-json", "-vet=off", "-count=1", "-timeout", "25m", "./..."],
                           cwd=build.REPO, env=env, timeout=1800)
    print(out)
    return rc


def replay(argv):
    if not argv:
        print("usage: check replay <file>")
        return 2
    data = json.load(open(argv[0]))
    print(json.dumps(data, indent=1)[:6000])
    prop = data.get("property")
    if prop in CHECKS:
        os.environ["VERIF_SEED"] = str(data.get("seed", 1))
        return props.run(prop, ["--tier", data.get("tier", "quick"), "--seed", str(data.get("seed", 1))])
    return 0
