"""The per-property checks.  Each takes a Ctx, records obligations, coverage, known findings and
violations; props.finish() turns that into the evidence file, the output lines and the exit code."""
import json, os, re
from collections import Counter
from . import build, corr, props

NEEDS_RACE = set()
CHECKS = {}


def check(name):
    def deco(f):
        CHECKS[name] = f
        return f
    return deco


# ------------------------------------------------------------------------------------ shared steps

def harness_cases(ctx, n, depth=5, hostile=0.03, extra=None):
    args = ["-seed", str(ctx.seed), "-n", str(n), "-depth", str(depth), "-hostile", str(hostile)] + (extra or [])
    cases, stats, rc, err = corr.run_harness(args)
    if rc != 0:
        ctx.obligation("harness run", False, err[-2000:])
    ctx.cov["generator_stats"] = {k: v for k, v in sorted(stats.items()) if not k.startswith("call:")}
    calls = {k[5:]: v for k, v in stats.items() if k.startswith("call:")}
    ctx.cov["api_calls_distinct"] = len(calls)
    ctx.cov["api_calls_top"] = dict(Counter(calls).most_common(12))
    return cases


def correspondence(ctx, cases, label="render"):
    """Implementation vs extracted model on every rendering; a disagreement breaks the tie."""
    n, mism, dfail = corr.compare_renders(cases)
    ctx.cov["traces_validated_against_impl"] = ctx.cov.get("traces_validated_against_impl", 0) + n - len(mism) - len(dfail)
    ctx.cov["correspondence_mismatches"] = len(mism)
    ctx.cov["unmodelled_values"] = len(dfail)
    if dfail:
        ci, ri, a = dfail[0]
        ctx.obligation(f"correspondence {label}: every dumped value decodes into the model", False,
                       json.dumps({"prog": cases[ci]["prog"], "dump": cases[ci]["dump"][:2000], "answer": a}))
    else:
        ctx.obligation(f"correspondence {label}: every dumped value decodes into the model", True)
    if mism:
        ctx.obligation(f"correspondence {label}: model and implementation agree byte for byte", False,
                       json.dumps(mism[:3])[:4000])
    else:
        ctx.obligation(f"correspondence {label}: model and implementation agree byte for byte", True)
    return mism


def stability(ctx, cases):
    for c in cases:
        for r in c["renders"]:
            if r.get("unstable"):
                ctx.violation("repeated rendering of one value differs",
                              {"prog": c["prog"], "opts": {"v": r["v"], "p": r["p"], "named": r["named"]},
                               "first": corr.decode_obs(corr.impl_obs(r)), "other": r["unstable"][:2000]})


def samples(cases, k=3):
    out = []
    for c in cases[:k]:
        r = c["renders"][0]
        out.append({"prog": c["prog"][:400], "sql": bytes.fromhex(r["sql"]).decode("utf8", "replace")[:300],
                    "args": r["args"]})
    return out


def distribution(ctx, cases):
    types = Counter(c["type"].split(".")[-1] for c in cases)
    sizes = Counter(min(len(c["dump"]) // 500, 20) for c in cases)
    errs = Counter()
    for c in cases:
        for r in c["renders"]:
            if r.get("panic"):
                errs["panic"] += 1
            elif r.get("missing"):
                errs["missing-named"] += 1
            elif r["err"] is None:
                errs["ok"] += 1
            else:
                for e in r.get("err_is") or ["other-error"]:
                    errs[e] += 1
    ctx.cov["input_distribution"] = {"top_level_type": dict(types.most_common()),
                                     "dump_size_div_500": {str(k): v for k, v in sorted(sizes.items())},
                                     "outcomes": dict(errs)}


def lex_many(texts, scs=True):
    """Token lists (or None on a lexical error) from the extracted PostgreSQL lexer."""
    reqs = [f"(lex {corr.tf(scs)} s{t.hex()})" for t in texts]
    out = []
    for a in corr.model_answers(reqs):
        if a.startswith("TOK"):
            out.append([t for t in a.split(" ")[1:] if t])
        else:
            out.append(None)
    return out


def marker(i):
    return b"\x01a%d\x02" % i


def inline_requests(cases):
    reqs, idx = [], []
    for ci, c in enumerate(cases):
        for ri, r in enumerate(c["renders"]):
            if r.get("panic") or r.get("missing"):
                continue
            reqs.append(f"(inline {corr.tf(r['v'])} {corr.tf(r['p'])} {corr.named_sexp(r['named'])} {c['dump']})")
            idx.append((ci, ri))
    return reqs, idx


def eval_substitution(ctx, cases):
    """C03/C04 directly on the implementation's output: the parameter tokens of the text (PostgreSQL
    lexer) are exactly $1..$n in order of first occurrence, and replacing $k by args[k-1] yields the
    token sequence of the composed statement with every value in place (stateless rendering)."""
    reqs, idx = inline_requests(cases)
    answers = corr.model_answers(reqs)
    items = []
    for (ci, ri), a in zip(idx, answers):
        c, r = cases[ci], cases[ci]["renders"][ri]
        if not a.startswith("IL s"):
            continue
        il = bytes.fromhex(a.split(" ")[1][1:])
        r["used_names"] = sorted({bytes.fromhex(x[1:]).decode("utf8", "surrogateescape")
                                  for x in a.split(" ")[2].split(",") if x.startswith("s")})
        marked = re.sub(rb"\x01a(\d+)\x02", lambda m: b"$%d" % (1000000 + int(m.group(1))), il)
        marked = re.sub(rb"\x01\?\x02", b"$999999", marked)
        r["_nmark"] = il.count(b"\x01")
        items.append((c, r, marked, bytes.fromhex(r["sql"])))
    toks_il = lex_many([m for _, _, m, _ in items])
    toks_sql = lex_many([q for _, _, _, q in items])
    evaluated = nontrivial = excluded = 0
    seen = set()
    for (c, r, marked, sql), til, tsql in zip(items, toks_il, toks_sql):
        if til is None or any(t[0] == "P" and int(bytes.fromhex(t[1:])) < 999999 for t in til) or \
                sum(1 for t in til if t[0] == "P") != r["_nmark"]:
            excluded += 1           # caller-supplied raw text does not lex or contains a parameter token itself
            continue
        evaluated += 1
        rep = {"prog": c["prog"], "opts": {"v": r["v"], "p": r["p"], "named": r["named"]},
               "sql": sql.decode("utf8", "replace"), "args": r["args"]}
        if tsql is None:
            ctx.violation("the emitted text does not lex although the composed statement does", rep)
            continue
        ks = [int(bytes.fromhex(t[1:])) for t in tsql if t[0] == "P"]
        firsts = []
        for k in ks:
            if k not in firsts:
                firsts.append(k)
        nargs = len(r["args"])
        if firsts != list(range(1, nargs + 1)):
            ctx.violation(f"placeholders {firsts} are not $1..${nargs} in order of first occurrence", rep)
            continue
        sub = [("ARG", r["args"][int(bytes.fromhex(t[1:])) - 1]) if t[0] == "P" else t for t in tsql]
        exp = [("ARG", int(bytes.fromhex(t[1:])) - 1000000) if t[0] == "P" else t for t in til]
        if sub != exp:
            rep["composed"] = marked.decode("utf8", "replace")
            ctx.violation("substituting $k by args[k-1] does not give back the composed statement", rep)
            continue
        if len(ks) >= 2 and (c["dump"], r["v"], r["p"]) not in seen:
            seen.add((c["dump"], r["v"], r["p"]))
            nontrivial += 1
    ctx.cov["evaluations"] = ctx.cov.get("evaluations", 0) + evaluated
    ctx.cov["distinct_nontrivial"] = ctx.cov.get("distinct_nontrivial", 0) + nontrivial
    ctx.cov["excluded_raw_text_breaks_lexing"] = excluded
    return evaluated


# ------------------------------------------------------------------------------------ C03

@check("C03")
def c03(ctx):
    props.check_props_file(ctx, "Props/C03.v")
    n = 3000 if ctx.quick() else 120000
    cases = harness_cases(ctx, n, depth=6 if ctx.quick() else 8)
    distribution(ctx, cases)
    correspondence(ctx, cases)
    eval_substitution(ctx, cases)
    stability(ctx, cases)
    ctx.cov["rule"] = ("type-directed API programs (every exported function/method, reflection); each value rendered "
                       "under 4 option combinations and up to 3 named-argument maps; non-trivial = distinct value x "
                       "options whose text has >= 2 placeholders; evaluated = placeholders enumerate 1..n and "
                       "substitution equals the stateless rendering")
    ctx.cov["samples"] = samples(cases)


# ------------------------------------------------------------------------------------ C04

@check("C04")
def c04(ctx):
    props.check_props_file(ctx, "Props/C04.v")
    n = 3000 if ctx.quick() else 120000
    cases = harness_cases(ctx, n, depth=6 if ctx.quick() else 8, extra=["-binds", "0.5", "-repeat", "5"])
    distribution(ctx, cases)
    correspondence(ctx, cases)
    eval_substitution(ctx, cases)
    stability(ctx, cases)
    # missing / extra / nil maps
    n_missing = n_extra = with_binds = 0
    for c in cases:
        if not c["binds"]:
            continue
        with_binds += 1
        base = c["renders"][0]
        for r in c["renders"][4:]:
            named = r["named"]
            used = base.get("used_names")
            if used is None:
                continue
            missing = any(u not in (named or {}) for u in used)
            rep = {"prog": c["prog"], "named": named, "used_names": used,
                   "result": corr.decode_obs(corr.impl_obs(r))}
            if r.get("panic"):
                continue
            if missing:
                n_missing += 1
                if not r.get("missing") or r["sql"] != "":
                    ctx.violation("a used bind name has no value but rendering did not fail with empty SQL", rep)
            else:
                n_extra += 1
                if (r["sql"], r["args"], r["err"]) != (base["sql"], base["args"], base["err"]):
                    ctx.violation("supplying extra, unused names changed the result", rep)
    ctx.cov["cases_with_binds"] = with_binds
    ctx.cov["missing_map_renderings"] = n_missing
    ctx.cov["extra_map_renderings"] = n_extra
    ctx.cov["rule"] = ("type-directed API programs with bind names from a pool incl. empty and odd strings; maps: "
                       "complete, missing one name, nil, with extras; every rendering repeated 5 times (fresh Go map "
                       "order); non-trivial = distinct value x options with >= 2 placeholders")
    ctx.cov["samples"] = samples([c for c in cases if c["binds"]] or cases)


# ------------------------------------------------------------------------------------ C14

VALIDATION_PREFIXES = ("identifier: invalid", "type: invalid", "case: no conditions given")


def err_lines(r):
    if r["err"] is None:
        return []
    return bytes.fromhex(r["err"]).decode("utf8", "replace").split("\n")


def structural_lines(r):
    # an invalid name may itself contain a newline; its continuation lines belong to the validation error
    out, skipping = [], False
    for line in err_lines(r):
        if line.startswith(VALIDATION_PREFIXES):
            skipping = True
            continue
        if line.startswith(("from item:", "insert:", "func:")):
            skipping = False
            out.append(line)
        elif not skipping:
            out.append(line)
    return out


@check("C14")
def c14(ctx):
    props.check_props_file(ctx, "Props/C14.v")
    n = 3000 if ctx.quick() else 120000
    cases = harness_cases(ctx, n, depth=6 if ctx.quick() else 8, hostile=0.05)
    distribution(ctx, cases)
    correspondence(ctx, cases)
    ev = nontriv = 0
    seen = set()
    for c in cases:
        byopt = {(r["v"], r["p"]): r for r in c["renders"][:4]}
        for p in (False, True):
            on, off = byopt[(True, p)], byopt[(False, p)]
            if on.get("panic") or off.get("panic") or on.get("missing") or off.get("missing"):
                continue
            ev += 1
            rep = {"prog": c["prog"], "pretty": p, "validating": corr.decode_obs(corr.impl_obs(on)),
                   "not_validating": corr.decode_obs(corr.impl_obs(off))}
            if on["err"] is None:
                if (on["sql"], on["args"]) != (off["sql"], off["args"]) or off["err"] is not None:
                    ctx.violation("a query that is valid with validation on renders differently with validation off", rep)
                elif c["dump"] not in seen and ("IdentExp" in c["dump"] or "expType" in c["dump"]):
                    seen.add(c["dump"])
                    nontriv += 1
            if structural_lines(on) != structural_lines(off):
                ctx.violation("structural conflicts are not reported identically in both modes", rep)
    ctx.cov["evaluations"] = ev
    ctx.cov["distinct_nontrivial"] = nontriv
    ctx.cov["rule"] = ("type-directed API programs, 5% hostile names; each value rendered validation on/off x pretty on/off; "
                       "non-trivial = distinct value containing at least one name or cast type whose validating "
                       "rendering has no error")
    ctx.cov["samples"] = samples(cases)


# ------------------------------------------------------------------------------------ C15

@check("C15")
def c15(ctx):
    props.check_props_file(ctx, "Props/C15.v")
    n = 3000 if ctx.quick() else 120000
    cases = harness_cases(ctx, n, depth=6 if ctx.quick() else 8,
                          extra=["-boost", "qrb.InsertInto=25,WithBuilder.InsertInto=25"])
    distribution(ctx, cases)
    correspondence(ctx, cases)
    ev = nontriv = unlexable = 0
    seen = set()
    pairs = []
    for c in cases:
        byopt = {(r["v"], r["p"]): r for r in c["renders"][:4]}
        for v in (False, True):
            pl, pp = byopt[(v, False)], byopt[(v, True)]
            if pl.get("panic") or pp.get("panic") or pl.get("missing") or pp.get("missing"):
                continue
            pairs.append((c, v, pl, pp))
    toks = {}
    for scs in (True, False):
        toks[scs] = (lex_many([bytes.fromhex(pl["sql"]) for _, _, pl, _ in pairs], scs),
                     lex_many([bytes.fromhex(pp["sql"]) for _, _, _, pp in pairs], scs))
    for i, (c, v, pl, pp) in enumerate(pairs):
        ev += 1
        rep = {"prog": c["prog"], "validating": v, "plain": corr.decode_obs(corr.impl_obs(pl)),
               "pretty": corr.decode_obs(corr.impl_obs(pp))}
        if pl["args"] != pp["args"] or pl["err"] != pp["err"]:
            ctx.violation("pretty printing changes the argument list or the error", rep)
            continue
        bad = False
        for scs in (True, False):
            ta, tb = toks[scs][0][i], toks[scs][1][i]
            if ta is None and tb is None:
                unlexable += 1          # caller-supplied raw text (validation off) that is not SQL at all
            elif ta != tb:
                rep["standard_conforming_strings"] = scs
                ctx.violation("pretty and plain renderings have different PostgreSQL token sequences", rep)
                bad = True
                break
        if not bad and pl["sql"] != pp["sql"] and (c["dump"], v) not in seen:
            seen.add((c["dump"], v))
            nontriv += 1
    ctx.cov["both_renderings_unlexable"] = unlexable
    ctx.cov["evaluations"] = ev
    ctx.cov["distinct_nontrivial"] = nontriv
    ctx.cov["rule"] = ("type-directed API programs with INSERT boosted; plain vs pretty rendering for validation on and "
                       "off; non-trivial = distinct value x validation whose two texts actually differ")
    ctx.cov["samples"] = samples([c for c in cases if c["renders"][0]["sql"] != c["renders"][2]["sql"]] or cases)


# ------------------------------------------------------------------------------------ C20

@check("C20")
def c20(ctx):
    props.check_props_file(ctx, "Props/C20.v")
    n = 6000 if ctx.quick() else 300000
    cases = harness_cases(ctx, n, depth=7 if ctx.quick() else 9, hostile=0.1)
    distribution(ctx, cases)
    correspondence(ctx, cases)
    ev = 0
    for c in cases:
        for r in c["renders"]:
            ev += 1
            if r.get("panic"):
                ctx.violation("rendering panicked",
                              {"prog": c["prog"], "opts": {"v": r["v"], "p": r["p"], "named": r["named"]},
                               "panic": r["panic"]})
    # every value the API hands out satisfies the well-formedness predicate of the theorem
    answers = corr.model_answers([f"(wfe {c['dump']})" for c in cases])
    bad = [c for c, a in zip(cases, answers) if a != "T"]
    ctx.obligation("every generated API value satisfies wfe (hypothesis of C20_no_panic)", not bad,
                   json.dumps([{"prog": c["prog"]} for c in bad[:3]]))
    ctx.cov["evaluations"] = ev
    ctx.cov["distinct_nontrivial"] = len({c["dump"] for c in cases})
    ctx.cov["wfe_checked_values"] = len(cases)
    ctx.cov["rule"] = ("type-directed composition of every exported constructor and method (reflection), non-nil arguments, "
                       "incl. incomplete statements, zero-length variadics, extreme literals, 10% hostile names; "
                       "recover() around ToSQL in all four option combinations and with missing / nil maps; "
                       "distinct = distinct value dumps")
    ctx.cov["samples"] = samples(cases)
    ctx.assumptions.append("partial: stack exhaustion and allocation failure of the Go runtime are not modelled; "
                           "reachable => wfe is checked on generated values, not yet proved over API histories")


def baseline_off():
    """The repository's own suite with the verif guard off (workspace mode, no -mod flag)."""
    env = dict(os.environ, GOPROXY="off", GOSUMDB="off", GOTOOLCHAIN="local")
    env.pop("GOFLAGS", None)
    rc, out, dt = build.sh(["go", "test", "-json", "-vet=off", "-count=1", "-timeout", "25m", "./..."],
                           cwd=build.REPO, env=env, timeout=1800)
    print(out)
    return rc


def replay(argv):
    if not argv:
        print("usage: check replay <file>")
        return 2
    data = json.load(open(argv[0]))
    print(json.dumps(data, indent=1)[:6000])
    prop = data.get("property")
    if prop in CHECKS:
        os.environ["VERIF_SEED"] = str(data.get("seed", 1))
        return props.run(prop, ["--tier", data.get("tier", "quick"), "--seed", str(data.get("seed", 1))])
    return 0
