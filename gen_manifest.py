#!/usr/bin/env python3
"""Writes MANIFEST.json from the table below (kept in one place so that it stays valid)."""
import json, os

ROOT = os.path.dirname(os.path.abspath(__file__))

CLAIMED = {
    "C01": dict(
        technique="Coq proof (frame theorem: a statement writes exactly its composed parts, once each, in slot order) + extracted clause-level statement reader run on the implementation's text against intent-level and record-level clause trees",
        text="C01_frame: for every SELECT (CTEs, set-operation chain, all clauses), INSERT, UPDATE and DELETE value of any size and "
             "nesting depth, the leaves the model writes are exactly the composed parts of the builder record (expressions, "
             "sub-statements, names, aliases), each once, in the grammatical slot order stmt_parts, separated only by keywords, "
             "punctuation and white space; C01_leaves: flattening preserves what is written under every option combination. "
             "C01_findings: the recorded deviations (D4 one-element ROLLUP set, D5 ORDER BY/LIMIT of a set-operation branch dropped, "
             "D6 CROSS JOIN with ON / LATERAL before a relation / ONLY before a sub-select / refined function aliases) are "
             "demonstrated in the kernel. Harness: (A) abstract statements over all slots with repeated calls for conditions, "
             "aliases and single-valued options, composed through the API, their text read by the extracted statement reader "
             "(Pg/Stmt.v) and compared with the intended clause tree; (B) reflection-generated and grammar-shaped API programs, "
             "clause tree from the builder records vs reading of the text, every nested statement included; byte-exact model "
             "correspondence on all of them; all four option combinations. C01_api_*: laws of the functional model of the "
             "builder methods (Model/Api.v) - WHERE/HAVING, UPDATE SET items, INSERT VALUES rows, DELETE conditions accumulate in call order and change nothing else, last call of "
             "LIMIT/OFFSET wins, independent options commute, an alias goes to the FROM item added last; (C) that model is "
             "compared call by call (all fields) with the implementation on reflection-driven histories from the entry points.",
        note="Partial: that the separators are the grammar's keywords for the slot and that part texts do not disturb the clause "
             "structure is evaluated by the reader on every case, not proved; the function arguments of ApplyIf / "
             "ApplySelectJson enter the API model as the value they return; the reader is a hand-written formalisation of gram.y at clause level. D4/D5/D6 and the "
             "D7 sites in condition lists are recorded findings, not repaired.",
        ref="DESIGN.md §6 C01"),
    "C02": dict(
        technique="Coq proof (sound precedence checker against a strict derivation relation of PostgreSQL's operator table; rendering = token list) + extracted lexer/precedence reader run on the implementation's text",
        text="For the operator fragment (operators, predicates, casts, unary minus, NOT, AND/OR, LIKE family with ESCAPE, IN/NOT IN, "
             "IS [NOT] NULL over arbitrary operands, every operand direct or wrapped in ExpBase, any depth): C02_text - the model's "
             "writer tree for the composed value is leaf by leaf the token list xtoks; C02_parse_back - whenever the checker accepts "
             "a tree, that token list derives exactly the composed tree in the strict sub-grammar of PostgreSQL's %left/%nonassoc "
             "table (Pg/Expr.v); C02_reassociation - a chain of one and the same operator out of + and *, bracketed in any way, is written "
             "as the flat chain, which derives a tree with the same operands in the same order (the tolerated difference); "
             "C02_gap_witnesses - the shapes the property text names are rejected by the checker and read back differently "
             "(findings D7, 111 operator/operand site classes, each demonstrated as the only failing site of a misread tree). Harness: every "
             "parent kind x operand position x direct/re-wrapped x child kind over all operator methods, spines to depth 3, random "
             "full trees; byte-exact model correspondence; every distinct emitted text (4 option combinations, select list, WHERE) "
             "is lexed and read back with the extracted precedence reader and compared with the composed tree modulo re-association "
             "of + * AND OR chains.",
        note="Partial: the theorems are at token level (that an operand's bytes lex to one c_expr is evaluated per case, not proved); "
             "the precedence table and reader are a formalisation of gram.y written by hand. D7 is a recorded finding, not repaired.",
        ref="DESIGN.md §6 C02"),
    "C03": dict(
        technique="Coq proof (simulation invariant over the writer language; constructor model: one slot per value handed to Args) + extracted-model correspondence of renderings and of constructor calls",
        text="Theorems C03_placeholders_enumerate / C03_substitution_restores_composition hold for every value, "
             "option combination and supplied map (induction over an arbitrary writer tree, abstract value type "
             "without equality). The model is a hand-written transliteration of every WriteSQL method; it is tied "
             "to /repo on every run by rendering thousands of reflection-generated API programs on the real "
             "library and on the extracted model and comparing sql/args/err byte for byte, and the property is "
             "evaluated directly on the implementation's output. C03_args_one_slot_per_value: Args(v1..vn) as modelled in Model/Ctor.v "
             "binds exactly v1..vn in order, equal values included; the constructor model is compared call by call with the "
             "implementation (what a constructor records is invisible to a check that starts from the constructed value).",
        note="Trusted: Coq kernel, extraction, the reflective dump/decoder, Go's strconv/strings. The proof is about "
             "the model; the tie to the code is a differential test (sampled).",
        ref="DESIGN.md §6 C03"),
    "C04": dict(
        technique="Coq proof (bind-table invariant, fill loop under every permutation) + extracted-model correspondence",
        text="C04_share_and_distinct, C04_value, C04_missing (for every iteration order of the Go map), C04_order, "
             "C04_extras proved for every value; tie as for C03 with complete / missing / nil / extra maps, each "
             "rendering repeated so that Go's map order varies.",
        note="As C03. Which of several missing names the error message mentions depends on map order; only the error "
             "class is compared.",
        ref="DESIGN.md §6 C04"),
    "C05": dict(
        technique="Coq proof (freshness checker sound w.r.t. a heap semantics of an effect IR) applied to every function lowered from the regenerated Go AST + fork-history harness",
        text="C05_safe_sound: a function body accepted by the freshness checker, run in any heap/environment, with loops running "
             "any number of times and append taking either the in-place or the reallocating branch, leaves every object that "
             "existed at entry unchanged (except the render-local SQLBuilder's). C05_current_tree: all 418 functions and "
             "value-receiver methods of the root, builder and fn packages - re-read from /repo on every run and lowered by "
             "Meta/Lower.v - are accepted; cloneSlice has exactly the copying body; pointer receivers exist only on the render "
             "handle, the SQL builder, the JSON batch builder (Start clones, End copies) and the slice map's in-place setter. "
             "Harness: history trees in which any live value is continued repeatedly after any number of earlier continuations "
             "(forks), every live value re-rendered after every call.",
        note="Trusted: the lowering from the Go AST to the IR (the reading of Go's slice/append/value-copy semantics; "
             "conservative: unknown constructs are rejected) and that rendering depends only on memory reachable from the "
             "value. *QueryBuilder is the render handle, not a builder value. Defects D1/D2 were repaired (fix: commits).",
        ref="DESIGN.md §6 C05"),
    "C10": dict(
        technique="Coq proof (model is a function; map-order independence of the fill loop) + generated-facts obligations (no global writes, SQLBuilder local) + repetition harness",
        text="C10_map_order: for every value the named-argument fill loop gives the same result under every iteration order of "
             "the Go map; C10_no_hidden_state: on the current tree no function writes or takes the address of a package-level "
             "variable, the SQLBuilder is allocated at the start of writeToSQLString and never stored, and no value function "
             "writes an object that existed before it was called - so nothing survives a rendering. C10_map_iteration: every range "
             "over a Go map in the library (re-read from /repo on every run) is either collect-then-sort.Strings (SetMap) or the "
             "bind fill loop. Harness: every value rendered 20/200 times interleaved with renderings of other values, from one "
             "and from 16 goroutines; SetMap maps with up to 64 keys plus key families that only a byte order separates "
             "(letter case, blanks, Unicode forms) are REBUILT from the same contents on every repetition.",
        note="Partial: goroutine schedules are exercised, not enumerated. Which of several missing names an error mentions depends "
             "on map order (error class compared).",
        ref="DESIGN.md §6 C10"),
    "C11": dict(
        technique="Coq proof (ownership discipline => no conflicting accesses under any interleaving) with premises from the effect analysis + race-detector harness",
        text="C11_no_conflicting_accesses: if every operation writes only objects it allocated itself and otherwise touches only "
             "objects that existed before all operations started, then in any interleaving two accesses of different "
             "operations to one object are both reads (no data race, no operation observes another's writes). "
             "C11_premises_current_tree: the premises hold for every value function (C05), the SQLBuilder is render-local, no "
             "package-level variable is written. Harness built with -race: 16 goroutines derive from and render shared values "
             "following plans computed sequentially; results compared with the sequential ones.",
        note="Partial: the Go memory model and the scheduler are not modelled; the race detector sees the schedules that "
             "happen; regexp.Regexp's documented safety for concurrent use is trusted.",
        ref="DESIGN.md §6 C11"),
    "C06": dict(
        technique="Coq proof about the PostgreSQL lexer (streaming transducer) and pqQuoteLiteral / Itoa + exhaustive literal-context harness",
        text="C06_string: for every byte string without NUL, both standard_conforming_strings settings, every lexer state not "
             "inside a quoted construct and every following text whose first non-blank character is not a quote, the quoted "
             "literal lexes as exactly one string constant with the Go string as value (no content can end the literal, start "
             "a comment or add tokens); C06_int: Itoa output is [-] one numeric constant that reads back as exactly z; bools "
             "are the words true/false. Tie: the model of pqQuoteLiteral/compile is compared byte for byte with the "
             "implementation on every case; all strings up to length 3 (quick) / 5 (thorough) over the critical alphabet in 27 "
             "literal contexts plus random strings, ints, floats are lexed with the extracted lexer and compared with a "
             "reference rendering.",
        note="Partial: floats rely on strconv.FormatFloat as an oracle (read back bit-exactly with Python float()); the side "
             "condition on the literal's left/right context is evaluated on every generated statement, not proved for all "
             "statements. Known finding D9 (NUL byte). Trusted: lexer formalisation coq/Pg/Lexer.v.",
        ref="DESIGN.md §6 C06"),
    "C16": dict(
        technique="Coq refinement proof (slice map -> insertion-ordered map) + exhaustive/random history harness",
        text="Set/Delete of the slice map refine an insertion-ordered map (key order, latest value, other keys untouched, keys "
             "unique), for every history incl. batch form and ApplyIf: C16_keys_unique, C16_flavour_preserved, "
             "C16_batch_equiv, C16_select_json, C16_render; C16_api_call_is_map_step / C16_api_history: a Prop / PropIf / Unset call of the "
             "constructor model (Model/Ctor.v, compared call by call with the implementation) is one step of that specification. Tie: every history (exhaustive to length 3/5 over three keys, random "
             "to length 40, both flavours) is run one by one, in batch form, through ApplyIf and as a select's JSON selection on "
             "the implementation; SQL compared with the extracted model and entries (read back with the PostgreSQL lexer) with "
             "an independent ordered-map specification.",
        note="The model of Start/Prop/End is functional; that End() does not alias the batch builder's array is C05's effect "
             "analysis and is exercised here by continuing the batch builder after End(). Defects D1, D2 were repaired (fix: commits).",
        ref="DESIGN.md §6 C16"),
    "C07": dict(
        technique="Coq proof of regular-language inclusion by a checked certificate: pattern derivatives x lexer finite control x shape observer",
        text="C07_safe: every string accepted by the identifier pattern (re-read from /repo on every run and translated to a "
             "regex AST over ASCII + Unicode minterms) - of any length - is lexed by the PostgreSQL lexer into exactly a dotted "
             "path of identifier / quoted / U& tokens optionally ending in * (optional UESCAPE 'c' directly after a U& token), or "
             "lies in one of three listed known-finding classes. Chain: matcher = language semantics (matches_iff_lang), "
             "widening of {0,62} to * only enlarges the language, erasing the lexer's accumulators commutes with stepping "
             "(erase_step: control never inspects accumulated text), product exploration gives a closed state set whose "
             "certificate cert_ok is re-checked by vm_compute per run (223 states), cert_sound + pattern_safe lift it to all "
             "strings. Tie: Go's regexp (verif hook) vs the model's matcher on every ASCII char and every boundary code point "
             "of the Unicode classes in 17 position classes plus grammar-shaped and mutated candidates; every accepted string "
             "is rendered and the emitted text lexed.",
        note="C07_safe_bytes lifts the certificate's statement (one byte 0x80 per non-ASCII rune) to the real UTF-8 bytes, valid or "
             "not (Meta/MultiByte.v: all bytes >= 0x80 act alike on the lexer's control and further ones are absorbed; the decoder "
             "cuts blocks of 1 to 4 such bytes). standard_conforming_strings = on. Known findings D8 (two classes), D9. Trusted: "
             "translator (regexp/syntax parse -> AST, minterm table), lexer formalisation.",
        ref="DESIGN.md §6 C07"),
    "C08": dict(
        technique="Coq proof of regular-language inclusion by a checked certificate (same machinery as C07, type shape observer)",
        text="C08_safe: every string accepted by the cast-type pattern lexes into an identifier path, optional ( digits ), "
             "optional UESCAPE 'c' after a U& token and optional [ digits? ] groups - no operator, literal, comment, further "
             "cast or separator - or lies in a listed known-finding class; certificate with 280 product states re-checked per "
             "run. Tie as C07 with x.Cast(s).",
        note="As C07.",
        ref="DESIGN.md §6 C08"),
    "C09": dict(
        technique="Coq proof (exact error list and validated output of a validating run, for every writer tree / value) + independent traversal of dumped values",
        text="C09_exact / C09_reports / C09_only_if / C09_not_emitted: for every value, the validating rendering's error list is "
             "exactly the list of invalid names and types the rendering visits (each reported with its string), rendering "
             "succeeds without error only if all are valid, and every name/type chunk of the output is valid; the two sentinels "
             "are added nowhere else (compile_plain_errs, induction over all values). C09_every_written_name_is_checked (value "
             "level, Model/Reach.v): every sub-expression in any slot of a statement or expression is written (children_written, all "
             "constructors), hence an invalid name or cast type reachable at any depth is reported; the ORDER BY / LIMIT of a "
             "set-operation branch is provably not written (D5). Tie: byte-exact correspondence incl. error "
             "text; offenders collected by an independent traversal of the reflective dump of each generated value (22% hostile "
             "names/types at every position class, 0..7 simultaneous offenders) are compared with the reported errors.",
        note="The slot lists (wchildren / stmt_parts) are specifications read off the synopsis; that they list every field of the Go "
             "structs is cross-checked by the independent traversal of the reflective dump. Known finding D5 (branch tail before a set operation). Defect D10 was "
             "repaired (fix: commit). Scope: all named arguments supplied (a missing bind is C04's error and pre-empts the others).",
        ref="DESIGN.md §6 C09"),
    "C12": dict(
        technique="Coq interpreter for the adapter bodies over the regenerated Go AST (all inputs of the fragment) + stub-executor harness",
        text="The six Query/QueryRow/Exec bodies of qrbpgx and qrbsql are re-read from /repo on every run (coq/Gen/Ast.v) and "
             "executed by the interpreter of Meta/Adapter.v for both outcomes of rendering: C12_fail_closed_of_check / "
             "C12_current_tree - when ToSQL reports an error the executor observes no call and the method returns the zero "
             "result with that error; census: no other function of the adapter packages calls the executor. Tie to behaviour: "
             "failing queries of every error kind x 2 adapters x 3 methods x 2 construction paths x named/none x validation "
             "on/off against recording stub executors; whether rendering reports an error is decided by the extracted model "
             "(byte-exact correspondence of ToSQL on the same cases), not by the library's own ToSQL.",
        note="The interpreter covers the Go fragment the adapters are written in (tuple assignment from ToSQL, if err != nil, "
             "return, one executor call); a body outside the fragment makes the obligation fail (reported, with a search for a "
             "failing input by the stub harness). Trusted: translator (pure AST dump), reading of the fragment's semantics.",
        ref="DESIGN.md §6 C12"),
    "C13": dict(
        technique="Coq interpreter for the adapter bodies over the regenerated Go AST + stub-executor harness",
        text="C13_forward_once_of_check / C13_current_tree: when rendering succeeds each method performs exactly one executor "
             "call of the corresponding method with the caller's context, the SQL and the argument slice of ToSQL spread as "
             "variadic arguments, and returns its results; WithNamedArgs / WithoutValidation forward to the embedded query "
             "builder and both construction paths store qrb.Build(w) and the executor. Harness: recorded call compared with a "
             "fresh ToSQL (context identity, sql, args by DeepEqual, result and error pass-through) over the full configuration cube.",
        note="As C12.",
        ref="DESIGN.md §6 C13"),
    "C17": dict(
        technique="Coq proof (handle invariant) + SetSelf census over the regenerated Go AST + exhaustive refinement x inherited-method harness",
        text="C17_setself_establishes: x.Exp = x as last statement makes the handle a copy of the value; C17_operand: with a current "
             "handle the operand inside the larger expression is exactly the refined value (its text is the standalone rendering, "
             "unparenthesised); C17_current_tree: all 51 functions that return a struct embedding ExpBase (constructors, every "
             "refinement method, wrappers in fn and the root package) end with x.Exp = x for the returned value or delegate to "
             "one that does - re-read from /repo on every run. Harness: every refinement sequence up to length 3/4 x every "
             "method of ExpBase (reflection): text through the inherited method = text through ExpBase{Exp: refined}, starts "
             "with the standalone rendering, and the handle is a field-wise copy of the value.",
        note="Trusted: translator (pure AST dump); the reading of Go's value-copy semantics of x.Exp = x in Model/Handle.v.",
        ref="DESIGN.md §6 C17"),
    "C18": dict(
        technique="Coq checker for every wrapper over the regenerated Go AST + behavioural enumeration of all wrappers",
        text="C18_wrapper_of_check / C18_current_tree: each of the 72 generic wrappers of package fn plus COALESCE/NULLIF/GREATEST/"
             "LEAST emits the symbol its Go name (and, where present, its comment) denotes, passes all parameters in declared "
             "order with optional ones only when supplied, through the constructor of its result type; the 23 operator methods "
             "use a constant whose value is the operator the name/comment denotes (census: no other), the LIKE/IN/IS NULL "
             "family uses the right keyword on the receiver's handle, the root package re-exports pass through. Regenerated "
             "from /repo on every run, so added wrappers are included. Harness: every wrapper (registry regenerated from source) "
             "for every arity with distinguishable arguments, compared with the generic constructor; every operator / predicate "
             "method (and its optional Escape argument) rendered and compared with the naming table; the catalogue calls of the "
             "api mode compared with the operator tables of Model/Ctor.v.",
        note="The name->symbol rule is normalisation (case, underscores); the operator table is a small hand table in "
             "Meta/Wrappers.v (what the names denote). Defect D3 was repaired (fix: commit).",
        ref="DESIGN.md §6 C18"),
    "C19": dict(
        technique="Coq interpreter for the conditional combinators over the regenerated Go AST (whole input space) + law evaluated on the implementation",
        text="The five ApplyIf/PropIf bodies are re-read from /repo on every run and executed for all four combinations of "
             "condition and nil-ness of the function: false -> the receiver, no call; true -> exactly the direct application / "
             "set (C19_law_of_check, C19_current_tree; census: there is no sixth combinator); And/Or = junction of nonNil "
             "(operands) with nonNil the order-preserving nil filter (template check + C19_nil_skipped / C19_order_kept). "
             "Harness: both sides of the law rendered for generated receivers and callback functions with a call counter, nil "
             "functions, nil operands at random positions. C19_api_applyif_select / _update: the same law in the functional API model "
             "(Model/Api.v), compared call by call with the implementation (api mode).",
        note="Trusted: translator (pure AST dump) and the reading of the small Go fragment in Meta/Cond.v.",
        ref="DESIGN.md §6 C19"),
    "C14": dict(
        technique="Coq proof (run with validation on = run with validation off when no validation error is added) + correspondence",
        text="C14_neutral / C14_neutral_to_sql: for every value and both pretty settings, a validating rendering without "
             "validation error is the very same run without validation (same chunks, arguments, bind table, errors); "
             "C14_structural: the structural sentinels are reported identically in both modes. Proved by induction over "
             "writer trees plus compile_errv_ok (induction over all values). Tie: byte-exact correspondence of model and "
             "implementation on generated programs in all four option combinations; the metamorphic relation is also "
             "evaluated directly on the implementation's output.",
        note="Trusted as for C03. ErrNoConditionsGiven is a validation branch (only checked when validating), as the "
             "property's anchors say.",
        ref="DESIGN.md §6 C14"),
    "C15": dict(
        technique="Coq proof (pretty/plain runs related chunk by chunk; differing chunks are blanks) + correspondence + PostgreSQL-lexer token comparison",
        text="C15_ws_only: for every value the pretty and the plain run have equal arguments, bind table and errors and "
             "their chunk lists agree position by position except for pretty-dependent white-space chunks, which are "
             "blanks/newlines in both modes (C15_blank); literals are single chunks, hence untouched. Tie: byte-exact "
             "correspondence in both modes; the implementation's two texts are lexed with the extracted PostgreSQL lexer "
             "(both standard_conforming_strings settings) and the token sequences compared.",
        note="Trusted as for C03 plus the lexer formalisation coq/Pg/Lexer.v. The token-level statement is evaluated on "
             "implementation output; the theorem is at chunk level.",
        ref="DESIGN.md §6 C15"),
    "C20": dict(
        technique="Coq proof (well-formed values have no panic site; run is total; every value reachable through the modelled builder API is well-formed) + call-by-call correspondence of the API model + type-directed generation with recover()",
        text="C20_no_panic: every value satisfying wfe (no nil interface where the renderer calls a method, a plain grouping "
             "element has a set, an INSERT query is a select) renders normally under every option combination and "
             "supplied map; termination is structural (compile and run are structurally recursive Coq functions over "
             "finite values). Tie: reflection-driven composition of every exported constructor/method incl. incomplete "
             "statements; recover() around ToSQL; every generated value is checked to satisfy wfe and to render "
             "identically in the model. C20_builder_call_preserves_wf / C20_reachable_no_panic: every statement reachable "
             "from Select / SelectJson / InsertInto / Update / DeleteFrom / With / WithRecursive by any number of modelled builder calls with well-formed "
             "arguments is well-formed, hence renders without panic; the API model (Model/Api.v) is compared call by call "
             "with the implementation, and no recorded call meeting the hypotheses yields a value whose rendering panics. "
             "C20_constructor_preserves_wf / C20_method_preserves_wf / C20_built_no_panic: the same for the expression constructors "
             "and the ExpBase methods (Model/Ctor.v) and for any nesting of modelled calls whose expression arguments are built likewise.",
        note="Partial: C20_built_no_panic covers the modelled API (Model/Api.v, Model/Ctor.v); package fn (thin wrappers, C18), the batch form "
             "(Start..End) of the JSON object builder are outside `built` (JsonBuildObject / Prop / PropIf / Unset are inside) - for them reachable => wfe is "
             "checked on generated values only; Go runtime stack exhaustion / allocation failure not modelled.",
        ref="DESIGN.md §6 C20"),
}

PENDING = {}
for i in range(1, 21):
    pid = f"C{i:02d}"
    if pid not in CLAIMED:
        PENDING[pid] = "check not yet built in this revision (work in progress, see DESIGN.md §10)"

manifest = {
    "version": 1,
    "setup_cmd": "./check setup",
    "hooks": {
        "guard": "verif",
        "enable": "go build -tags verif (the harness under /verif/go is built with the tag against /repo)",
        "baseline_off_cmd": "./check baseline-off",
        "source_commits": ["b40f3cc verif hooks: accessors for the two validation patterns (build tag verif)"],
        "add_only": True,
    },
    "engines": [
        {"name": "coq-model", "path": "coq/", "serves_properties": sorted(CLAIMED),
         "kind_free_text": "Coq 8.16.1 development: model of qrb, PostgreSQL oracle, theorems; regenerated facts in coq/Gen"},
        {"name": "harness", "path": "go/", "serves_properties": sorted(CLAIMED),
         "kind_free_text": "Go translator (qrb2coq) and correspondence harness (type-directed generator, reflective dump)"},
    ],
    "checks": [],
    "not_applicable": [{"property_id": k, "reason": v} for k, v in sorted(PENDING.items())],
    "notes": "All checks: ./check <id> --tier quick|thorough; VERIF_SEED / VERIF_TIER honoured.",
}
for pid in sorted(CLAIMED):
    c = CLAIMED[pid]
    manifest["checks"].append({
        "property_id": pid,
        "quick_cmd": f"./check {pid} --tier quick",
        "thorough_cmd": f"./check {pid} --tier thorough",
        "evidence_file": f"evidence/{pid}.json",
        "replay_cmd_template": "./check replay {path}",
        "engine": "coq-model",
        "level_claimed": {"category": "proof", "text": c["text"], "design_ref": c["ref"]},
        "level_note": c["note"],
        "technique": c["technique"],
    })
with open(os.path.join(ROOT, "MANIFEST.json"), "w") as f:
    json.dump(manifest, f, indent=1)
    f.write("\n")
print("MANIFEST.json written:", len(manifest["checks"]), "checks,", len(manifest["not_applicable"]), "not applicable")
