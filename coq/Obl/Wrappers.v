(* Per-run obligations for C18 against the AST generated from the current /repo tree. *)
From Coq Require Import String List Bool.
From QRB Require Import Meta.GoAst Meta.Wrappers Gen.Ast.
Import ListNotations.

Lemma fn_wrappers : fn_wrappers_ok all_funcs = true.
Proof. vm_compute. reflexivity. Qed.
Lemma conditional_wrappers : conditional_wrappers_ok all_funcs = true.
Proof. vm_compute. reflexivity. Qed.
Lemma op_methods : op_methods_ok all_funcs all_vars = true.
Proof. vm_compute. reflexivity. Qed.
Lemma kw_methods : forallb (kw_method_ok all_funcs) kw_table = true.
Proof. vm_compute. reflexivity. Qed.
Lemma root_reexports : root_reexports_ok all_funcs = true.
Proof. vm_compute. reflexivity. Qed.
