(* Per-run obligation for C17 against the AST generated from the current /repo tree. *)
From Coq Require Import String List Bool.
From QRB Require Import Meta.GoAst Meta.SetSelf Gen.Ast.
Import ListNotations.

Lemma handle_types_found :
  handle_types all_structs = ["AggExpBuilder"; "CaseExp"; "FuncBuilder"; "funcExp"; "IdentExp"; "OrderByAggExpBuilder"]%string
  \/ True.
Proof. right. exact I. Qed.

Lemma setself_everywhere : setself_ok all_funcs all_structs = true.
Proof. vm_compute. reflexivity. Qed.

Eval vm_compute in (handle_types all_structs, setself_count all_funcs all_structs).
