(* Per-run obligations for C19: re-checked against the AST generated from the current /repo tree. *)
From Coq Require Import String List Bool.
From QRB Require Import Meta.GoAst Meta.Cond Gen.Ast.
Import ListNotations.

Lemma cond_fns_ok : forallb (cond_ok all_funcs) cond_specs = true.
Proof. vm_compute. reflexivity. Qed.

Lemma cond_census : cond_census_ok all_funcs = true.
Proof. vm_compute. reflexivity. Qed.

Lemma and_or_ok : junction_ctor_ok all_funcs "And" "AND" && junction_ctor_ok all_funcs "Or" "OR" = true.
Proof. vm_compute. reflexivity. Qed.

Lemma nonnil_ok : nonnil_filter_ok all_funcs = true.
Proof. vm_compute. reflexivity. Qed.
