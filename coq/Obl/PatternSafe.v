(* Per-run obligations for C07 / C08: the certificates for the two validation patterns read from the
   current source, computed by exploration and checked by [cert_ok] (vm_compute). *)
From Coq Require Import String List Ascii NArith Bool.
From QRB Require Import Pg.Lexer Meta.LexCtrl Meta.Regex Meta.RegexLang Meta.Product Meta.Safe Gen.Regex.
Import ListNotations.

Definition alphabet : list sym := Eval vm_compute in alphabet_of minterm_table.

Lemma ident_simple : simple_rep ident_re = true.
Proof. vm_compute. reflexivity. Qed.
Lemma type_simple : simple_rep type_re = true.
Proof. vm_compute. reflexivity. Qed.

Definition ident_R : list pstate :=
  Eval vm_compute in fst (explore false true 4000 alphabet [pinit (widen ident_re)] [pinit (widen ident_re)]).
Definition type_R : list pstate :=
  Eval vm_compute in fst (explore true true 4000 alphabet [pinit (widen type_re)] [pinit (widen type_re)]).

Lemma ident_cert : cert_ok false true alphabet ident_R = true.
Proof. vm_compute. reflexivity. Qed.
Lemma type_cert : cert_ok true true alphabet type_R = true.
Proof. vm_compute. reflexivity. Qed.

Lemma ident_init : In (pinit (widen ident_re)) ident_R.
Proof. left. vm_compute. reflexivity. Qed.
Lemma type_init : In (pinit (widen type_re)) type_R.
Proof. left. vm_compute. reflexivity. Qed.

Lemma alphabet_eq : alphabet = alphabet_of minterm_table.
Proof. vm_compute. reflexivity. Qed.
