(* Per-run obligations for C12 / C13 against the AST generated from the current /repo tree. *)
From Coq Require Import String List Bool.
From QRB Require Import Meta.GoAst Meta.Adapter Gen.Ast.

Lemma adapters_exec : adapter_execs_ok all_funcs = true.
Proof. vm_compute. reflexivity. Qed.

Lemma adapters_wiring : adapters_wiring_ok all_funcs = true.
Proof. vm_compute. reflexivity. Qed.

Lemma adapters_census : executor_census_ok all_funcs = true.
Proof. vm_compute. reflexivity. Qed.
