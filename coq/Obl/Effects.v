(* Per-run obligations for C05 / C10 / C11 against the AST generated from the current /repo tree. *)
From Coq Require Import String List Bool.
From QRB Require Import Meta.GoAst Meta.EffectIR Meta.Lower Meta.MapOrder Gen.Ast.
Import ListNotations.

(* every function and every method with a value receiver of the root, builder and fn packages is
   accepted by the freshness checker *)
Lemma value_fns_safe : all_value_fns_safe all_funcs = true.
Proof. vm_compute. reflexivity. Qed.

Lemma clone_slice_template : clone_slice_ok all_funcs = true.
Proof. vm_compute. reflexivity. Qed.

Lemma ptr_census : ptr_census_ok all_funcs = true.
Proof. vm_compute. reflexivity. Qed.

Lemma globals_never_written : no_global_writes all_funcs = true.
Proof. vm_compute. reflexivity. Qed.

Lemma sql_builder_local : sb_local_ok all_funcs = true.
Proof. vm_compute. reflexivity. Qed.

Eval vm_compute in (length (filter value_fn all_funcs)).

Lemma batch_builder_copies : batch_end_copies all_funcs = true.
Proof. vm_compute. reflexivity. Qed.

(* every range over a Go map is collect-and-sort.Strings or the bind fill loop *)
Lemma map_iteration_ordered : map_order_ok all_funcs = true.
Proof. vm_compute. reflexivity. Qed.
Eval vm_compute in (map_ranges all_funcs).
