(* C18: every convenience wrapper, read from the current source, emits the symbol its name denotes and
   passes its parameters in declared order (optional ones only when supplied) to the generic
   constructor matching its result type. *)
From Coq Require Import String List Bool Ascii NArith.
From QRB Require Import Meta.GoAst Meta.Cond Meta.SetSelf.
Import ListNotations.
Local Open Scope string_scope.

(* lower-case, underscores and blanks removed: JsonbPathExistsTZ ~ jsonb_path_exists_tz, NullIf ~ NULLIF *)
Definition norm_char (c : ascii) : option ascii :=
  let n := N_of_ascii c in
  if ((65 <=? n) && (n <=? 90))%N then Some (ascii_of_N (n + 32))
  else if (n =? 95)%N || (n =? 32)%N then None
  else Some c.
Fixpoint norm (s : string) : string :=
  match s with
  | EmptyString => EmptyString
  | String c r => match norm_char c with Some d => String d (norm r) | None => norm r end
  end.

Fixpoint str_prefix (p s : string) : bool :=
  match p, s with
  | EmptyString, _ => true
  | String a p', String b s' => Ascii.eqb a b && str_prefix p' s'
  | _, _ => false
  end.
Fixpoint str_contains (p s : string) : bool :=
  str_prefix p s || match s with EmptyString => false | String _ r => str_contains p r end.

(* the argument list a wrapper builds, symbolically over its own parameters *)
Inductive argpiece :=
| AParam (n : string)            (* a fixed parameter *)
| ASpread (n : string)           (* all elements of the variadic parameter *)
| AFirstIfGiven (n : string).    (* n[0], under  if len(n) > 0 *)

Definition argpiece_eqb (a b : argpiece) : bool :=
  match a, b with
  | AParam x, AParam y | ASpread x, ASpread y | AFirstIfGiven x, AFirstIfGiven y => String.eqb x y
  | _, _ => false
  end.

Section Args.
  Variable variadic : option string.
  Variable local : string.                   (* the local slice under construction ("args"), "" if none *)
  Variable local_val : list argpiece.

  Definition is_variadic (n : string) : bool := match variadic with Some v => String.eqb v n | None => false end.

  Fixpoint eval_arglist (e : gexpr) : option (list argpiece) :=
    match e with
    | GIdent "nil" _ _ => Some []
    | GIdent n _ _ => if is_variadic n then Some [ASpread n]
                      else if String.eqb n local && negb (String.eqb local "") then Some local_val else None
    | GComposite _ elts _ =>
        fold_right (fun x acc => match x, acc with GIdent n _ _, Some r => Some (AParam n :: r) | _, _ => None end)
                   (Some []) elts
    | GCall (GIdent "append" _ _) [a; GIdent v _ _] true _ =>
        if is_variadic v then option_map (fun l => l ++ [ASpread v])%list (eval_arglist a) else None
    | _ => None
    end.
End Args.

(* statements before the return: args := []Exp{...}; arity guards (panic) are skipped;
   if len(v) > 0 { args = append(args, v[0]) } or { args = append(args, v...) } *)
Fixpoint eval_prelude (variadic : option string) (body : list gstmt) (local : string) (val : list argpiece)
  : option (string * list argpiece * gstmt) :=
  match body with
  | [GReturn [r]] => Some (local, val, GReturn [r])
  | GAssign [GIdent a _ _] ":=" [e] :: rest =>
      match eval_arglist variadic "" [] e with
      | Some l => eval_prelude variadic rest a l
      | None => None
      end
  | GIf [] (GBin ">" (GCall (GIdent "len" _ _) [GIdent v _ _] false _) (GLit "INT" k))
        [GExprStmt (GCall (GIdent "panic" _ _) _ _ _)] [] :: rest =>
      if negb (String.eqb k "0") then eval_prelude variadic rest local val else None
  | GIf [] (GBin ">" (GCall (GIdent "len" _ _) [GIdent v _ _] false _) (GLit "INT" "0"))
        [GAssign [GIdent a _ _] "=" [GCall (GIdent "append" _ _) [GIdent a2 _ _; x] ell _]] [] :: rest =>
      if String.eqb a local && String.eqb a2 local then
        match x, ell with
        | GIndex (GIdent v2 _ _) (GLit "INT" "0") _, false =>
            if String.eqb v v2 then eval_prelude variadic rest local (val ++ [AFirstIfGiven v])%list else None
        | GIdent v2 _ _, true =>
            if String.eqb v v2 then eval_prelude variadic rest local (val ++ [ASpread v])%list else None
        | _, _ => None
        end
      else None
  | _ => None
  end.

Record winfo := mkWInfo { wi_ctor : string; wi_symbol : string; wi_args : list argpiece }.

(* return <pkg.>Ctor("symbol", <arglist>)   or   return <pkg.>Func("symbol", fixed..., variadic...) *)
Definition wrapper_info (f : gfunc) : option winfo :=
  let variadic := match rev (fn_params f) with p :: _ => if pa_variadic p then Some (pa_name p) else None | [] => None end in
  match eval_prelude variadic (fn_body f) "" [] with
  | Some (local, val, GReturn [GCall callee (GLit "STRING" sym :: args) ell _]) =>
      let ctor := match callee with GSel _ c _ => c | GIdent c _ _ => c | _ => "" end in
      if String.eqb ctor "Func" then
        (* variadic constructor: fixed args then the spread variadic parameter *)
        let pieces := map (fun a => match a with
                                    | GIdent n _ _ => if ell && is_variadic variadic n then Some (ASpread n) else Some (AParam n)
                                    | _ => None end) args in
        if forallb (fun p => match p with Some _ => true | None => false end) pieces
        then Some (mkWInfo ctor sym (flat_map (fun p => match p with Some x => [x] | None => [] end) pieces))
        else None
      else
        match args with
        | [a] => option_map (mkWInfo ctor sym) (eval_arglist variadic local val a)
        | _ => None
        end
  | _ => None
  end.

Definition expected_args (f : gfunc) : list argpiece :=
  map (fun p => if pa_variadic p then ASpread (pa_name p) else AParam (pa_name p)) (fn_params f).

(* optional parameters may be given as x[0] under a length guard instead of a spread *)
Definition args_match (got want : list argpiece) : bool :=
  Nat.eqb (length got) (length want) &&
  forallb (fun p => match fst p, snd p with
                    | AFirstIfGiven a, ASpread b => String.eqb a b
                    | x, y => argpiece_eqb x y
                    end) (combine got want).

Definition ctor_result (ctor : string) : string :=
  if String.eqb ctor "Agg" then "AggExpBuilder"
  else if String.eqb ctor "FuncExp" then "ExpBase"
  else if String.eqb ctor "Func" then "FuncBuilder"
  else "?".

Definition doc_mentions (doc sym : string) : bool :=
  (* when the comment names a symbol at all ("builds the X ..."), the emitted one must occur in it *)
  negb (str_contains "builds the " doc) || str_contains (norm sym) (norm doc).

Definition wrapper_ok (f : gfunc) : bool :=
  match wrapper_info f with
  | Some w =>
      String.eqb (norm (fn_name f)) (norm (wi_symbol w)) &&
      args_match (wi_args w) (expected_args f) &&
      match fn_results f with [r] => String.eqb (strip_pkg (pa_type r)) (ctor_result (wi_ctor w)) | _ => false end &&
      doc_mentions (fn_doc f) (wi_symbol w)
  | None => false
  end.

(* wrappers that are not of the generic shape, checked individually *)
Definition special_wrappers : list string :=
  ["JsonBuildObject"; "JsonbBuildObject"; "Extract"].

Definition json_ctor_ok (fs : list gfunc) (name : string) (flag : string) : bool :=
  match find_func fs "fn" "" name with
  | Some f => match fn_body f with
              | [GReturn [GCall (GSel (GIdent "builder" _ _) "JsonBuildObject" _) [GIdent b _ _] false _]] => String.eqb b flag
              | _ => false
              end
  | None => false
  end.

(* the fn package: every exported function is a generic wrapper or one of the special ones *)
Definition fn_wrappers_ok (fs : list gfunc) : bool :=
  forallb (fun f => negb (String.eqb (fn_pkg f) "fn" && fn_exported f && String.eqb (fn_recv f) "") ||
                    mem_str (fn_name f) special_wrappers || wrapper_ok f) fs &&
  json_ctor_ok fs "JsonBuildObject" "false" && json_ctor_ok fs "JsonbBuildObject" "true".

(* COALESCE / NULLIF / GREATEST / LEAST in package builder *)
Definition conditional_wrappers_ok (fs : list gfunc) : bool :=
  forallb (fun n => match find_func fs "builder" "" n with Some f => wrapper_ok f | None => false end)
          ["Coalesce"; "NullIf"; "Greatest"; "Least"].

(* operator methods: return b.Op(<const>, rgt) with the constant's value being the operator the name denotes *)
Definition op_table : list (string * string) :=
  [("Eq", "="); ("Neq", "<>"); ("Lt", "<"); ("Lte", "<="); ("Gt", ">"); ("Gte", ">="); ("Concat", "||");
   ("RegexpMatch", "~"); ("RegexpIMatch", "~*"); ("RegexpNotMatch", "!~"); ("RegexpINotMatch", "!~*");
   ("Plus", "+"); ("Minus", "-"); ("Mult", "*"); ("Divide", "/"); ("Mod", "%"); ("Pow", "^");
   ("JsonExtract", "->"); ("JsonExtractText", "->>"); ("JsonExtractPath", "#>"); ("JsonExtractPathText", "#>>");
   ("Contains", "@>"); ("ContainedBy", "<@")].

Definition const_value (vs : list gvar) (n : string) : option string :=
  match find (fun v => String.eqb (gv_pkg v) "builder" && String.eqb (gv_name v) n && gv_is_const v) vs with
  | Some v => Some (gv_value v)
  | None => None
  end.

Definition op_method_ok (fs : list gfunc) (vs : list gvar) (entry : string * string) : bool :=
  match find_func fs "builder" "ExpBase" (fst entry) with
  | Some f =>
      match fn_params f, fn_body f with
      | [p], [GReturn [GCall (GSel (GIdent r _ _) "Op" _) [GIdent c _ _; GIdent a _ _] false _]] =>
          String.eqb r (fn_recv_name f) && String.eqb a (pa_name p) &&
          match const_value vs c with Some v => String.eqb v (snd entry) | None => false end &&
          (* "X builds the S operator": S is the emitted symbol *)
          (negb (str_contains "builds the " (fn_doc f)) ||
           str_contains ("builds the " ++ snd entry ++ " ") (fn_doc f))
      | _, _ => false
      end
  | None => false
  end.

(* every exported method of ExpBase that calls Op with a constant is in the table *)
Definition op_census_ok (fs : list gfunc) : bool :=
  forallb (fun f =>
             negb (String.eqb (fn_pkg f) "builder" && String.eqb (fn_recv f) "ExpBase" && fn_exported f &&
                   match fn_body f with [GReturn [GCall (GSel _ "Op" _) _ _ _]] => true | _ => false end)
             || existsb (fun e => String.eqb (fst e) (fn_name f)) op_table) fs.

Definition op_methods_ok (fs : list gfunc) (vs : list gvar) : bool :=
  forallb (op_method_ok fs vs) op_table && op_census_ok fs.

(* predicates built from composite literals with a constant keyword *)
Definition kw_table : list (string * string * string) :=   (* method, field, constant *)
  [("Like", "op", "LIKE"); ("ILike", "op", "ILIKE"); ("NotLike", "op", "NOT LIKE"); ("NotILike", "op", "NOT ILIKE");
   ("SimilarTo", "op", "SIMILAR TO"); ("NotSimilarTo", "op", "NOT SIMILAR TO");
   ("In", "op", "IN"); ("NotIn", "op", "NOT IN"); ("IsNull", "suffix", "IS NULL"); ("IsNotNull", "suffix", "IS NOT NULL")].

Definition kw_method_ok (fs : list gfunc) (e : string * string * string) : bool :=
  let '(m, field, kw) := e in
  match find_func fs "builder" "ExpBase" m with
  | Some f =>
      match fn_body f with
      | [GReturn [GComposite _ elts _]] =>
          existsb (fun x => match x with
                            | GKV (GIdent k _ _) (GLit "STRING" v) => String.eqb k field && String.eqb v kw
                            | _ => false end) elts &&
          (* the left operand is the receiver's handle *)
          existsb (fun x => match x with
                            | GKV (GIdent k _ _) (GSel (GIdent r _ _) "Exp" _) =>
                                (String.eqb k "lft" || String.eqb k "exp") && String.eqb r (fn_recv_name f)
                            | _ => false end) elts
      | _ => false
      end
  | None => false
  end.

(* the root package re-exports: return builder.<same name>(params in order) *)
Definition reexport_ok (f : gfunc) : bool :=
  match fn_body f with
  | [GReturn [GCall (GSel (GIdent "builder" _ _) n _) args ell _]] =>
      String.eqb n (fn_name f) &&
      match arg_names args with
      | Some l => (fix eq (x y : list string) := match x, y with
                                                  | [], [] => true
                                                  | a :: x', b :: y' => String.eqb a b && eq x' y'
                                                  | _, _ => false end) l (map pa_name (fn_params f))
      | None => false
      end &&
      Bool.eqb ell (existsb pa_variadic (fn_params f))
  | _ => false
  end.

Definition root_special : list string := ["Select"; "SelectJson"; "RowsFrom"; "Exps"].

Definition root_reexports_ok (fs : list gfunc) : bool :=
  forallb (fun f => negb (String.eqb (fn_pkg f) "qrb" && fn_exported f && String.eqb (fn_recv f) "") ||
                    mem_str (fn_name f) root_special || reexport_ok f) fs.

Definition wrappers_all_ok (fs : list gfunc) (vs : list gvar) : bool :=
  fn_wrappers_ok fs && conditional_wrappers_ok fs && op_methods_ok fs vs && forallb (kw_method_ok fs) kw_table &&
  root_reexports_ok fs.
