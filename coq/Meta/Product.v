(* C07 / C08: the product of (derivatives of a validation pattern) x (finite control of the lexer)
   x (observer of the token shape), explored to a closed set of states; a certificate checker and its
   soundness theorem: every string accepted by the pattern is lexed into the required shape, or falls
   into one of the explicitly listed known-finding classes. *)
From Coq Require Import String List Ascii NArith Bool Arith Lia.
From QRB Require Import Base.Bytes Pg.Lexer Meta.LexCtrl Meta.Regex Meta.RegexLang.
Import ListNotations.

(* ---------------------------------------------------------------- decidable equalities *)
Definition opt_nat_eqb (a b : option nat) : bool :=
  match a, b with Some x, Some y => Nat.eqb x y | None, None => true | _, _ => false end.
Definition wkind_eqb (a b : wkind) : bool :=
  match a, b with WkE, WkE | WkB, WkB | WkN, WkN | WkU, WkU | WkOther, WkOther => true | _, _ => false end.
Definition opl_eqb (a b : opl) : bool :=
  match a, b with OlDash, OlDash | OlSlash, OlSlash | OlOther, OlOther => true | _, _ => false end.

Definition lstate_eqb (a b : lstate) : bool :=
  match a, b with
  | LInit, LInit | LDot, LDot | LDollar, LDollar | LColon, LColon | LErr, LErr => true
  | LWord k o u s, LWord k' o' u' s' => wkind_eqb k k' && Bool.eqb o o' && opt_nat_eqb u u' && String.eqb s s'
  | LUAmp c, LUAmp c' => Ascii.eqb c c'
  | LQIdent n s, LQIdent n' s' | LQIdentQ n s, LQIdentQ n' s' | LUIdent n s, LUIdent n' s'
  | LUIdentQ n s, LUIdentQ n' s' => Bool.eqb n n' && String.eqb s s'
  | LStr e s, LStr e' s' | LStrQ e s, LStrQ e' s' => Bool.eqb e e' && String.eqb s s'
  | LStrWs e s n, LStrWs e' s' n' => Bool.eqb e e' && String.eqb s s' && Bool.eqb n n'
  | LStrEsc s, LStrEsc s' | LInt s, LInt s' | LIntDot s, LIntDot s' | LFrac s, LFrac s' | LNumE s, LNumE s'
  | LNumESign s, LNumESign s' | LExp s, LExp s' | LParam s, LParam s' => String.eqb s s'
  | LOp st l s, LOp st' l' s' => Bool.eqb st st' && opl_eqb l l' && String.eqb s s'
  | _, _ => false
  end.

Lemma lstate_eqb_eq a b : lstate_eqb a b = true -> a = b.
Proof.
  destruct a, b; cbn; try discriminate; try reflexivity; intro H;
    repeat (apply andb_true_iff in H; let H' := fresh in destruct H as [H H']);
    repeat match goal with
           | K : String.eqb _ _ = true |- _ => apply String.eqb_eq in K; subst
           | K : Bool.eqb _ _ = true |- _ => apply Bool.eqb_prop in K; subst
           | K : Ascii.eqb _ _ = true |- _ => apply Ascii.eqb_eq in K; subst
           | K : wkind_eqb ?x ?y = true |- _ => destruct x, y; try discriminate; clear K
           | K : opl_eqb ?x ?y = true |- _ => destruct x, y; try discriminate; clear K
           | K : opt_nat_eqb ?x ?y = true |- _ =>
               destruct x, y; cbn in K; try discriminate; [apply Nat.eqb_eq in K; subst|]
           end; reflexivity.
Qed.

(* ---------------------------------------------------------------- the shape observer *)
Inductive ostate :=
| O0                    (* start: a segment (or a final star) is expected *)
| OSeg (u : bool)       (* after a segment; u: it was a U&"..." identifier *)
| ODot                  (* after a dot *)
| OStarEnd              (* after the final star *)
| OUe                   (* after U&"..." UESCAPE: the escape character literal is expected *)
| ODone                 (* after U&"..." UESCAPE 'c' *)
| OUeBad                (* UESCAPE after something that is not a U&"..." identifier *)
| OKF                   (* known finding: UESCAPE 'c' without U&"..." *)
| OTy (st : nat)        (* type shape only: 1 after "(", 2 after "( digits", 3 after ")", 4 after "[", 5 after "[ digits", 6 after "]" *)
| OReject.

Definition ostate_eqb (a b : ostate) : bool :=
  match a, b with
  | O0, O0 | ODot, ODot | OStarEnd, OStarEnd | OUe, OUe | ODone, ODone | OUeBad, OUeBad | OKF, OKF
  | OReject, OReject => true
  | OSeg u, OSeg v => Bool.eqb u v
  | OTy n, OTy m => Nat.eqb n m
  | _, _ => false
  end.
Lemma ostate_eqb_eq a b : ostate_eqb a b = true -> a = b.
Proof.
  destruct a, b; cbn; try discriminate; try reflexivity; intro H.
  - apply Bool.eqb_prop in H. now subst.
  - apply Nat.eqb_eq in H. now subst.
Qed.

Section Observer.
  Variable types : bool.           (* false: identifier shape (C07); true: cast-type shape (C08) *)

  Definition is_dot (k : kind) : bool := match k with KSelf c => Ascii.eqb c "." | _ => false end.
  Definition is_self (k : kind) (d : ascii) : bool := match k with KSelf c => Ascii.eqb c d | _ => false end.

  Definition ostep (o : ostate) (k : kind) : ostate :=
    match o with
    | O0 | ODot =>
        match k with
        | KWord _ | KQIdent => OSeg false
        | KUIdent => OSeg true
        | KStar => if types then OReject else OStarEnd
        | _ => OReject
        end
    | OSeg u =>
        if is_dot k then ODot
        else match k with
             | KWord true => if u then OUe else OUeBad
             | _ =>
                 if types then
                   if is_self k "(" then OTy 1 else if is_self k "[" then OTy 4 else OReject
                 else OReject
             end
    | OStarEnd => match k with KWord true => OUeBad | _ => OReject end
    | OUe => match k with KStr => ODone | _ => OReject end
    | ODone => if types && is_self k "[" then OTy 4 else OReject
    | OUeBad => match k with KStr => OKF | _ => OReject end
    | OKF => if types && is_self k "[" then OKF else if types && is_self k "]" then OKF
             else match k with KNum => if types then OKF else OReject | _ => OReject end
    | OTy 1 => match k with KNum => OTy 2 | _ => OReject end
    | OTy 2 => if is_self k ")" then OTy 3 else OReject
    | OTy 3 => if is_self k "[" then OTy 4
               else match k with KWord true => OUeBad | _ => OReject end
    | OTy 4 => if is_self k "]" then OTy 6 else match k with KNum => OTy 5 | _ => OReject end
    | OTy 5 => if is_self k "]" then OTy 6 else OReject
    | OTy 6 => if is_self k "[" then OTy 4 else OReject
    | OTy _ => OReject
    | OReject => OReject
    end.

  Definition oaccept (o : ostate) : bool :=
    match o with
    | OSeg _ | ODone => true
    | OStarEnd => negb types
    | OTy 3 | OTy 6 => types
    | _ => false
    end.
End Observer.

(* ---------------------------------------------------------------- the product *)
Record pstate := mkP { p_re : re; p_lex : lstate; p_obs : ostate; p_uamp : bool; p_nul : bool }.

(* cheap components first; the (possibly large) pattern derivative is only compared when they agree *)
Definition pstate_eqb (a b : pstate) : bool :=
  if lstate_eqb (p_lex a) (p_lex b) && ostate_eqb (p_obs a) (p_obs b) &&
     Bool.eqb (p_uamp a) (p_uamp b) && Bool.eqb (p_nul a) (p_nul b)
  then re_eqb (p_re a) (p_re b) else false.
Lemma pstate_eqb_eq a b : pstate_eqb a b = true -> a = b.
Proof.
  destruct a, b. unfold pstate_eqb. cbn. intro H.
  match type of H with (if ?c then _ else _) = true => destruct c eqn:E; [|discriminate] end.
  apply re_eqb_eq in H.
  repeat (apply andb_true_iff in E; let H' := fresh in destruct E as [E H']).
  apply lstate_eqb_eq in E. apply ostate_eqb_eq in H2.
  apply Bool.eqb_prop in H1, H0. now subst.
Qed.

(* the byte a symbol stands for: a non-ASCII rune is lexed as one byte >= 0x80 *)
Definition high_byte : ascii := ascii_of_N 128.
Definition byte_of_sym (a : sym) : ascii := match a with SA c => ascii_of_N c | SM _ => high_byte end.

Section Product.
  Variable types : bool.
  Variable scs : bool.

  Definition is_uamp (st : lstate) : bool := match st with LUAmp _ => true | _ => false end.

  Definition pstep (p : pstate) (a : sym) : pstate :=
    let c := byte_of_sym a in
    let (st', ts) := lstep scs (erase (p_lex p)) c in
    mkP (deriv a (p_re p)) (erase st') (fold_left (ostep types) (map tkind ts) (p_obs p))
        (p_uamp p || (is_uamp (p_lex p) && negb (Ascii.eqb c """")))
        (p_nul p || match a with SA 0%N => true | _ => false end).

  Definition pfinal_ok (p : pstate) : bool :=
    p_uamp p || p_nul p ||
    match close (p_lex p) with
    | Some ts => let o := fold_left (ostep types) (map tkind ts) (p_obs p) in
                 oaccept types o || ostate_eqb o OKF
    | None => false
    end.

  Definition dead (p : pstate) : bool := re_eqb (p_re p) Nul.

  Definition pinit (r : re) : pstate := mkP r LInit O0 false false.

  Fixpoint prun (p : pstate) (l : list sym) : pstate :=
    match l with [] => p | a :: r => prun (pstep p a) r end.

  (* exploration (no proof needed): worklist closure, bounded by fuel *)
  Definition pmem (p : pstate) (l : list pstate) : bool := existsb (pstate_eqb p) l.

  Fixpoint explore (fuel : nat) (alphabet : list sym) (todo seen : list pstate) : list pstate * bool :=
    match fuel with
    | O => (seen, false)
    | S n =>
        match todo with
        | [] => (seen, true)
        | p :: rest =>
            let succ := map (pstep p) alphabet in
            let fresh := fold_left (fun acc q => if dead q || pmem q seen || pmem q acc then acc else acc ++ [q]) succ [] in
            explore n alphabet (rest ++ fresh) (seen ++ fresh)
        end
    end.

  (* the certificate check: R is closed under every symbol and every state in which the pattern
     accepts satisfies the final condition *)
  Definition cert_ok (alphabet : list sym) (R : list pstate) : bool :=
    forallb (fun p =>
               forallb (fun a => let q := pstep p a in dead q || pmem q R) alphabet &&
               (negb (nullable (p_re p)) || pfinal_ok p)) R.

  Lemma deriv_nul a : deriv a Nul = Nul.
  Proof. reflexivity. Qed.

  Lemma matches_nul l : matches Nul l = false.
  Proof. induction l as [|a l IH]; cbn; [reflexivity|exact IH]. Qed.

  Lemma prun_re p l : p_re (prun p l) = fold_left (fun r a => deriv a r) l (p_re p).
  Proof.
    revert p. induction l as [|a l IH]; intro p; cbn [prun fold_left]; [reflexivity|].
    rewrite IH. unfold pstep. destruct (lstep scs (erase (p_lex p)) (byte_of_sym a)). reflexivity.
  Qed.

  Lemma matches_fold r l : matches r l = nullable (fold_left (fun r a => deriv a r) l r).
  Proof. revert r. induction l as [|a l IH]; intro r; cbn; [reflexivity|apply IH]. Qed.

  Theorem cert_sound alphabet R :
    cert_ok alphabet R = true ->
    forall p, In p R -> forall l, Forall (fun a => In a alphabet) l ->
      matches (p_re p) l = true -> pfinal_ok (prun p l) = true.
  Proof.
    intros HC p Hp l. revert p Hp. induction l as [|a l IH]; intros p Hp Hl Hm.
    - cbn [prun]. unfold cert_ok in HC. rewrite forallb_forall in HC. specialize (HC p Hp).
      apply andb_true_iff in HC. destruct HC as [_ HC]. cbn in Hm. rewrite Hm in HC. exact HC.
    - cbn [prun]. inversion Hl as [|? ? Ha Hl']; subst.
      unfold cert_ok in HC. pose proof HC as HC'. rewrite forallb_forall in HC. specialize (HC p Hp).
      apply andb_true_iff in HC. destruct HC as [HC _]. rewrite forallb_forall in HC. specialize (HC a Ha).
      cbn zeta in HC. apply orb_true_iff in HC. destruct HC as [HD|HM].
      + (* the pattern is dead after a: it cannot accept *)
        exfalso. unfold dead in HD. apply re_eqb_eq in HD.
        cbn [matches] in Hm.
        assert (E : deriv a (p_re p) = p_re (pstep p a)).
        { unfold pstep. destruct (lstep scs (erase (p_lex p)) (byte_of_sym a)). reflexivity. }
        rewrite E, HD, matches_nul in Hm. discriminate.
      + unfold pmem in HM. apply existsb_exists in HM. destruct HM as (q & Hq & E).
        apply pstate_eqb_eq in E. subst q. apply IH; [assumption|assumption|].
        cbn [matches] in Hm.
        assert (E : deriv a (p_re p) = p_re (pstep p a)).
        { unfold pstep. destruct (lstep scs (erase (p_lex p)) (byte_of_sym a)). reflexivity. }
        now rewrite <- E.
  Qed.
End Product.
