(* From a checked certificate to the statement about the lexer: every symbol string accepted by the
   pattern is lexed (as bytes, a non-ASCII rune standing for one byte >= 0x80) into the required token
   shape, or belongs to a known-finding class. *)
From Coq Require Import String List Ascii NArith Bool Arith Lia.
From QRB Require Import Base.Bytes Pg.Lexer Meta.LexCtrl Meta.Regex Meta.RegexLang Meta.Product.
Import ListNotations.

Definition bytes_of_syms (l : list sym) : string := string_of_list (map byte_of_sym l).

Section Safe.
  Variable types : bool.
  Variable scs : bool.

  (* the three known-finding classes, as predicates on the input / its tokens *)
  (* (1) somewhere the text has U& (at the start of a word consisting of the single letter U) that is not followed by a double quote *)
  Fixpoint uamp_run (st : lstate) (l : list sym) : bool :=
    match l with
    | [] => false
    | a :: r =>
        let c := byte_of_sym a in
        (is_uamp st && negb (Ascii.eqb c """")) || uamp_run (fst (lstep scs (erase st) c)) r
    end.
  (* (2) a NUL byte *)
  Definition has_nul (l : list sym) : bool := existsb (fun a => match a with SA 0%N => true | _ => false end) l.
  (* (3) UESCAPE 'c' after something that is not a U&"..." identifier: the observer ends in OKF *)

  Definition shape_of (ks : list kind) : ostate := fold_left (ostep types) ks O0.

  Lemma fold_ostep_app o a b : fold_left (ostep types) (a ++ b) o = fold_left (ostep types) b (fold_left (ostep types) a o).
  Proof. apply fold_left_app. Qed.

  Lemma is_uamp_erase st : is_uamp (erase st) = is_uamp st.
  Proof. destruct st; reflexivity. Qed.

  Lemma uamp_run_erase l : forall st, uamp_run (erase st) l = uamp_run st l.
  Proof. destruct l as [|a r]; intro st; cbn [uamp_run]; [reflexivity|]. now rewrite is_uamp_erase, erase_idem. Qed.

  Lemma crun_erase r : forall x, crun scs (erase x) r = crun scs x r.
  Proof. destruct r as [|d r]; intro x; cbn [crun]; now rewrite erase_idem. Qed.

  (* the product run, component by component *)
  Lemma prun_spec : forall l p, erase (p_lex p) = p_lex p ->
    p_lex (prun types scs p l) = fst (crun scs (p_lex p) (bytes_of_syms l)) /\
    p_obs (prun types scs p l) = fold_left (ostep types) (snd (crun scs (p_lex p) (bytes_of_syms l))) (p_obs p) /\
    p_uamp (prun types scs p l) = p_uamp p || uamp_run (p_lex p) l /\
    p_nul (prun types scs p l) = p_nul p || has_nul l.
  Proof.
    induction l as [|a r IH]; intros p He.
    - cbn. rewrite !orb_false_r, He. repeat split; reflexivity.
    - cbn [prun]. unfold bytes_of_syms. cbn [map string_of_list crun].
      fold (bytes_of_syms r).
      assert (Hs : erase (p_lex (pstep types scs p a)) = p_lex (pstep types scs p a)).
      { unfold pstep. destruct (lstep scs (erase (p_lex p)) (byte_of_sym a)). cbn. apply erase_idem. }
      destruct (IH (pstep types scs p a) Hs) as (I1 & I2 & I3 & I4).
      rewrite I1, I2, I3, I4. clear IH I1 I2 I3 I4.
      unfold pstep. destruct (lstep scs (erase (p_lex p)) (byte_of_sym a)) as [st1 t1] eqn:E. cbn [p_lex p_obs p_uamp p_nul].
      rewrite crun_erase. destruct (crun scs st1 (bytes_of_syms r)) as [st2 k2]. cbn [fst snd].
      rewrite fold_ostep_app. cbn [uamp_run has_nul existsb]. rewrite E. cbn [fst].
      rewrite uamp_run_erase, !orb_assoc. repeat split; reflexivity.
  Qed.

  (* the final condition of the product, in terms of the real lexer run on the bytes *)
  Theorem final_ok_meaning l :
    pfinal_ok types (prun types scs (pinit (Nul)) l) = true ->
    uamp_run LInit l = true \/ has_nul l = true \/
    exists ts, lex_from scs LInit (bytes_of_syms l) = Some ts /\
               (oaccept types (shape_of (map tkind ts)) = true \/ shape_of (map tkind ts) = OKF).
  Proof.
    intro H. destruct (prun_spec l (pinit Nul) eq_refl) as (I1 & I2 & I3 & I4).
    unfold pfinal_ok in H. rewrite I3, I4 in H. cbn [pinit p_uamp p_nul p_lex p_obs orb] in *.
    apply orb_true_iff in H. destruct H as [H|H].
    - apply orb_true_iff in H. tauto.
    - right. right. rewrite I1, I2 in H. clear I1 I2 I3 I4.
      pose proof (crun_simulates scs (bytes_of_syms l) LInit) as S.
      unfold lex_from. destruct (lrun scs LInit (bytes_of_syms l)) as [st' ts]. rewrite S in H. cbn [fst snd] in H.
      pose proof (erase_close st') as C.
      destruct (close (erase st')) as [tc|]; [|discriminate].
      destruct (close st') as [tc'|]; [|discriminate]. cbn in C. injection C as C.
      exists (ts ++ tc'). split; [reflexivity|].
      unfold shape_of. rewrite map_app, fold_ostep_app, <- C.
      apply orb_true_iff in H. destruct H as [H|H]; [now left|right; now apply ostate_eqb_eq].
  Qed.
End Safe.

(* the regex component of the product does not influence the other components *)
Lemma prun_indep types scs : forall l p q,
  p_lex p = p_lex q -> p_obs p = p_obs q -> p_uamp p = p_uamp q -> p_nul p = p_nul q ->
  pfinal_ok types (prun types scs p l) = pfinal_ok types (prun types scs q l).
Proof.
  induction l as [|a r IH]; intros p q E1 E2 E3 E4; cbn [prun].
  - unfold pfinal_ok. now rewrite E1, E2, E3, E4.
  - apply IH; unfold pstep; rewrite E1, E2, E3, E4;
      destruct (lstep scs (erase (p_lex q)) (byte_of_sym a)); reflexivity.
Qed.

(* certificate + pattern facts  ==>  statement about the lexer *)
Theorem pattern_safe types scs alphabet R r :
  simple_rep r = true ->
  cert_ok types scs alphabet R = true ->
  In (pinit (widen r)) R ->
  forall l, Forall (fun a => In a alphabet) l -> matches r l = true ->
    uamp_run scs LInit l = true \/ has_nul l = true \/
    exists ts, lex_from scs LInit (bytes_of_syms l) = Some ts /\
               (oaccept types (shape_of types (map tkind ts)) = true \/ shape_of types (map tkind ts) = OKF).
Proof.
  intros Hs Hc Hi l Hl Hm. apply final_ok_meaning.
  rewrite (prun_indep types scs l (pinit Nul) (pinit (widen r))) by reflexivity.
  apply (cert_sound types scs alphabet R Hc _ Hi l Hl). cbn [pinit p_re].
  now apply matches_widen.
Qed.

(* ---------------------------------------------------------------- the alphabet of a minterm table *)
Definition table_ids (tbl : list (N * N * nat)) : list nat := 0 :: map (fun e => snd e) tbl.
Definition alphabet_of (tbl : list (N * N * nat)) : list sym :=
  map (fun n => SA (N.of_nat n)) (seq 0 128) ++ map SM (nodup Nat.eq_dec (table_ids tbl)).

Lemma minterm_of_in tbl c : In (minterm_of tbl c) (table_ids tbl).
Proof.
  unfold table_ids. induction tbl as [|[[lo hi] id] r IH]; cbn; [now left|].
  destruct ((lo <=? c) && (c <=? hi))%N; [right; now left|].
  destruct IH as [IH|IH]; [now left|right; now right].
Qed.

Lemma sym_in_alphabet tbl c : In (sym_of_rune tbl c) (alphabet_of tbl).
Proof.
  unfold sym_of_rune, alphabet_of. apply in_or_app. destruct (c <? 128)%N eqn:E.
  - left. apply N.ltb_lt in E. apply in_map_iff. exists (N.to_nat c). split; [now rewrite N2Nat.id|].
    apply in_seq. lia.
  - right. apply in_map. apply nodup_In. apply minterm_of_in.
Qed.

Lemma decode_in_alphabet tbl s : Forall (fun a => In a (alphabet_of tbl)) (decode_syms tbl s).
Proof. unfold decode_syms. apply Forall_forall. intros a Ha. apply in_map_iff in Ha. destruct Ha as (c & <- & _). apply sym_in_alphabet. Qed.
