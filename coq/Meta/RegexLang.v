(* Language semantics of the regular expressions, correctness of the derivative matcher with respect
   to it, and the widening of large counted repetitions (a{0,62} becomes a-star), which only enlarges the
   language and keeps the product of Meta/Product.v small.
   Counted repetitions are assumed to have a character class as body ([simple_rep], checked by
   computation on the generated patterns). *)
From Coq Require Import List String Ascii NArith Bool Arith Lia.
From QRB Require Import Meta.Regex.
Import ListNotations.

Inductive lang : re -> list sym -> Prop :=
| LEps : lang Eps []
| LCls rs ms c : in_class c rs ms = true -> lang (Cls rs ms) [c]
| LCat a b s t : lang a s -> lang b t -> lang (Cat a b) (s ++ t)
| LAltL a b s : lang a s -> lang (Alt a b) s
| LAltR a b s : lang b s -> lang (Alt a b) s
| LStar0 a : lang (Star a) []
| LStarS a s t : lang a s -> lang (Star a) t -> lang (Star a) (s ++ t)
| LRep0 a hi : lang (Rep a 0 hi) []
| LRepS a lo hi s t : lang a s -> lang (Rep a (pred lo) hi) t -> lang (Rep a lo (S hi)) (s ++ t).

Fixpoint simple_rep (r : re) : bool :=
  match r with
  | Cat a b | Alt a b => simple_rep a && simple_rep b
  | Star a => simple_rep a
  | Rep (Cls _ _) _ _ => true
  | Rep _ _ _ => false
  | _ => true
  end.

Lemma lang_nul s : ~ lang Nul s.
Proof. inversion 1. Qed.

Lemma lang_eps s : lang Eps s -> s = [].
Proof. now inversion 1. Qed.

Lemma nullable_lang r : simple_rep r = true -> (nullable r = true <-> lang r []).
Proof.
  induction r; cbn; intro Hs.
  - split; [discriminate|inversion 1].
  - split; [constructor|reflexivity].
  - split; [discriminate|inversion 1].
  - apply andb_true_iff in Hs. destruct Hs as [S1 S2].
    rewrite andb_true_iff, (IHr1 S1), (IHr2 S2). split.
    + intros [H1 H2]. now apply (LCat r1 r2 [] []).
    + intro H. inversion H as [| |? ? s t H1 H2 E E'| | | | | |]; subst.
      apply app_eq_nil in E'. destruct E'; subst. tauto.
  - apply andb_true_iff in Hs. destruct Hs as [S1 S2].
    rewrite orb_true_iff, (IHr1 S1), (IHr2 S2). split.
    + intros [H|H]; [now apply LAltL|now apply LAltR].
    + inversion 1; subst; tauto.
  - split; [constructor|reflexivity].
  - destruct r; try discriminate. cbn. rewrite orb_false_r. split.
    + intro H. apply Nat.eqb_eq in H. subst. constructor.
    + intro H. inversion H as [| | | | | | |? ?|? ? ? s t H1 H2 E E']; subst; [reflexivity|].
      apply app_eq_nil in E'. destruct E'; subst. inversion H1.
Qed.

(* ---- smart constructors *)
Lemma cat_lang a b s : lang (cat a b) s <-> lang (Cat a b) s.
Proof.
  split.
  - intro H. destruct a, b; cbn in H;
      try (now apply lang_nul in H); try exact H;
      try (apply (LCat Eps _ [] s); [constructor|exact H]);
      try (rewrite <- (app_nil_r s); apply LCat; [exact H|constructor]).
  - intro H. inversion H as [| |? ? u v H1 H2| | | | | |]; subst.
    destruct a, b; cbn;
      try (now apply lang_nul in H1); try (now apply lang_nul in H2);
      try (apply lang_eps in H1; subst; exact H2);
      try (apply lang_eps in H2; subst; rewrite app_nil_r; exact H1);
      now constructor.
Qed.

Lemma ranges_eqb_eq a : forall b, ranges_eqb a b = true -> a = b.
Proof.
  induction a as [|[x y] a IH]; intros [|[u v] b]; cbn; try discriminate; [reflexivity|].
  intro H. apply andb_true_iff in H. destruct H as [H H3]. apply andb_true_iff in H. destruct H as [H1 H2].
  apply N.eqb_eq in H1, H2. subst. f_equal. now apply IH.
Qed.
Lemma nats_eqb_eq a : forall b, nats_eqb a b = true -> a = b.
Proof.
  induction a as [|x a IH]; intros [|y b]; cbn; try discriminate; [reflexivity|].
  intro H. apply andb_true_iff in H. destruct H as [H1 H2]. apply Nat.eqb_eq in H1. subst. f_equal. now apply IH.
Qed.
Lemma re_eqb_eq a : forall b, re_eqb a b = true -> a = b.
Proof.
  induction a; intros b; destruct b; cbn; try discriminate; try reflexivity; intro H;
    repeat (apply andb_true_iff in H; let H' := fresh in destruct H as [H H']).
  - apply ranges_eqb_eq in H. apply nats_eqb_eq in H0. now subst.
  - f_equal; [now apply IHa1|now apply IHa2].
  - f_equal; [now apply IHa1|now apply IHa2].
  - f_equal. now apply IHa.
  - apply Nat.eqb_eq in H0, H1. subst. f_equal. now apply IHa.
Qed.

Lemma alt_mem_lang x r s : alt_mem x r = true -> lang x s -> lang r s.
Proof.
  revert x. induction r; intros x Hm Hx; cbn [alt_mem] in Hm;
    try (apply re_eqb_eq in Hm; subst; exact Hx).
  apply orb_true_iff in Hm. destruct Hm as [Hm|Hm].
  - apply re_eqb_eq in Hm. subst. now apply LAltL.
  - apply LAltR. now apply (IHr2 x).
Qed.

Lemma alt_lang a : forall b s, lang (alt a b) s <-> lang a s \/ lang b s.
Proof.
  assert (G : forall a b s, (a <> Nul -> (forall a1 a2, a <> Alt a1 a2) ->
            (lang (match b with Nul => a | _ => if alt_mem a b then b else Alt a b end) s <-> lang a s \/ lang b s))).
  { intros a0 b s Hn _. destruct b; try (destruct (alt_mem a0 _) eqn:E);
      split; intro H;
      try (now left); try (now right);
      try (destruct H as [H|H]; [assumption|now apply lang_nul in H]);
      try (inversion H; subst; tauto);
      try (destruct H as [H|H]; [now apply LAltL|now apply LAltR]);
      try (destruct H as [H|H]; [now apply (alt_mem_lang _ _ _ E)|assumption]). }
  induction a; intros b s; cbn [alt].
  - split; [now right|intros [H|H]; [now apply lang_nul in H|assumption]].
  - apply (G Eps b s); [discriminate|discriminate].
  - apply (G (Cls ascii mts) b s); [discriminate|discriminate].
  - apply (G (Cat a1 a2) b s); [discriminate|discriminate].
  - (* Alt a1 a2 *)
    specialize (IHa2 b s).
    assert (K : lang (match alt a2 b with
                      | Nul => a1
                      | _ => Alt a1 (alt a2 b) end) s <-> lang a1 s \/ lang (alt a2 b) s).
    { destruct (alt a2 b) eqn:E; split; intro H;
        try (now left);
        try (destruct H as [H|H]; [assumption|now apply lang_nul in H]);
        try (inversion H; subst; tauto);
        try (destruct H as [H|H]; [now apply LAltL|now apply LAltR]). }
    assert (Goal : lang (if alt_mem a1 (alt a2 b) then alt a2 b
                         else match alt a2 b with Nul => a1 | _ => Alt a1 (alt a2 b) end) s
                   <-> lang (Alt a1 a2) s \/ lang b s).
    { destruct (alt_mem a1 (alt a2 b)) eqn:E.
      - rewrite IHa2. split.
        + intros [H|H]; [left; now apply LAltR|now right].
        + intros [H|H]; [|now right]. inversion H; subst; [|now left].
          apply IHa2. now apply (alt_mem_lang _ _ _ E).
      - rewrite K, IHa2. split.
        + intros [H|[H|H]]; [left; now apply LAltL|left; now apply LAltR|now right].
        + intros [H|H]; [inversion H; subst; tauto|tauto]. }
    destruct a1; try exact Goal.
    (* a1 = Nul *)
    rewrite IHa2. split.
    + intros [H|H]; [left; now apply LAltR|now right].
    + intros [H|H]; [|now right]. inversion H; subst; [now apply lang_nul in H3|now left].
  - apply (G (Star a) b s); [discriminate|discriminate].
  - apply (G (Rep a lo hi) b s); [discriminate|discriminate].
Qed.

(* ---- derivatives *)
Lemma simple_rep_cat a b : simple_rep a = true -> simple_rep b = true -> simple_rep (cat a b) = true.
Proof. intros Ha Hb. destruct a, b; cbn in *; try reflexivity; try assumption; now rewrite ?Ha, ?Hb. Qed.

Lemma simple_rep_alt a : forall b, simple_rep a = true -> simple_rep b = true -> simple_rep (alt a b) = true.
Proof.
  assert (G : forall a b, simple_rep a = true -> simple_rep b = true ->
            simple_rep (match b with Nul => a | _ => if alt_mem a b then b else Alt a b end) = true).
  { intros a0 b Ha Hb. destruct b; try assumption; destruct (alt_mem a0 _); cbn in *; try assumption; now rewrite Ha. }
  induction a; intros b Ha Hb; cbn [alt]; try (now apply G); try assumption.
  cbn in Ha. apply andb_true_iff in Ha. destruct Ha as [H1 H2]. specialize (IHa2 b H2 Hb).
  assert (K : simple_rep (if alt_mem a1 (alt a2 b) then alt a2 b
                          else match alt a2 b with Nul => a1 | _ => Alt a1 (alt a2 b) end) = true).
  { destruct (alt_mem a1 (alt a2 b)); [assumption|]. destruct (alt a2 b); cbn in *; try assumption; now rewrite H1. }
  destruct a1; try exact K. exact IHa2.
Qed.

Lemma simple_rep_deriv c r : simple_rep r = true -> simple_rep (deriv c r) = true.
Proof.
  induction r; cbn; intro H; try reflexivity.
  - destruct (in_class c ascii mts); reflexivity.
  - apply andb_true_iff in H. destruct H as [H1 H2].
    destruct (nullable r1); [apply simple_rep_alt|]; try apply simple_rep_cat; auto.
  - apply andb_true_iff in H. destruct H as [H1 H2]. apply simple_rep_alt; auto.
  - apply simple_rep_cat; auto.
  - destruct hi; [reflexivity|]. destruct r; try discriminate. cbn.
    destruct (in_class c ascii mts); reflexivity.
Qed.

Lemma cons_app_inv {A} (c : A) s u v : c :: s = u ++ v ->
  (u = [] /\ v = c :: s) \/ exists u', u = c :: u' /\ s = u' ++ v.
Proof. destruct u as [|x u]; cbn; intro H; [now left|right]. injection H as -> ->. now exists u. Qed.

Lemma deriv_lang c r : simple_rep r = true -> forall s, lang (deriv c r) s <-> lang r (c :: s).
Proof.
  induction r; intros Hs s; cbn [deriv].
  - split; [intro H; now apply lang_nul in H|inversion 1].
  - split; [intro H; now apply lang_nul in H|inversion 1].
  - destruct (in_class c ascii mts) eqn:E; split; intro H.
    + apply lang_eps in H. subst. now constructor.
    + inversion H; subst. constructor.
    + now apply lang_nul in H.
    + inversion H; subst. congruence.
  - cbn in Hs. apply andb_true_iff in Hs. destruct Hs as [S1 S2].
    assert (K : lang (cat (deriv c r1) r2) s <-> exists u v, s = u ++ v /\ lang r1 (c :: u) /\ lang r2 v).
    { rewrite cat_lang. split.
      - intro H. inversion H as [| |? ? u v H1 H2| | | | | |]; subst. exists u, v. rewrite <- (IHr1 S1). auto.
      - intros (u & v & -> & H1 & H2). apply LCat; [now apply (IHr1 S1)|assumption]. }
    destruct (nullable r1) eqn:N.
    + rewrite alt_lang, K, (IHr2 S2). split.
      * intros [(u & v & -> & H1 & H2)|H].
        -- now apply (LCat r1 r2 (c :: u) v).
        -- apply (LCat r1 r2 [] (c :: s)); [now apply nullable_lang|assumption].
      * intro H. inversion H as [| |? ? u v H1 H2 E E'| | | | | |]; subst.
        symmetry in E'. apply cons_app_inv in E'. destruct E' as [[-> ->]|(u' & -> & ->)]; [now right|left].
        now exists u', v.
    + rewrite K. split.
      * intros (u & v & -> & H1 & H2). now apply (LCat r1 r2 (c :: u) v).
      * intro H. inversion H as [| |? ? u v H1 H2 E E'| | | | | |]; subst.
        symmetry in E'. apply cons_app_inv in E'. destruct E' as [[-> ->]|(u' & -> & ->)].
        -- apply nullable_lang in H1; [congruence|assumption].
        -- now exists u', v.
  - cbn in Hs. apply andb_true_iff in Hs. destruct Hs as [S1 S2].
    rewrite alt_lang, (IHr1 S1), (IHr2 S2). split.
    + intros [H|H]; [now apply LAltL|now apply LAltR].
    + inversion 1; subst; tauto.
  - cbn in Hs. rewrite cat_lang. split.
    + intro H. inversion H as [| |? ? u v H1 H2| | | | | |]; subst.
      apply (LStarS r (c :: u) v); [now apply (IHr Hs)|assumption].
    + intro H. remember (Star r) as R eqn:ER. remember (c :: s) as w eqn:Ew.
      revert s Ew. induction H as [| | | | | |a u v H1 _ H2 IH2| |]; intros z Ez; try discriminate.
      injection ER as ->. destruct u as [|x u].
      * cbn in Ez. now apply IH2.
      * cbn in Ez. injection Ez as E1 E2. subst. apply LCat; [now apply (IHr Hs)|assumption].
  - destruct r; try discriminate. destruct hi as [|hi].
    + split; [intro H; now apply lang_nul in H|].
      intro H. inversion H.
    + rewrite cat_lang. cbn [deriv]. split.
      * intro H. inversion H as [| |? ? u v H1 H2| | | | | |]; subst.
        destruct (in_class c ascii mts) eqn:E; [|now apply lang_nul in H1].
        apply lang_eps in H1. subst. cbn [app].
        apply (LRepS (Cls ascii mts) lo hi [c] v); [now constructor|assumption].
      * intro H. inversion H as [| | | | | | | |? ? ? u v H1 H2 E1 E2]; subst.
        inversion H1; subst. cbn in E2. injection E2 as E3 E4. subst.
        match goal with K : in_class _ _ _ = true |- _ => rewrite K end.
        apply (LCat Eps _ [] s); [constructor|assumption].
Qed.

Theorem matches_iff_lang : forall s r, simple_rep r = true -> (matches r s = true <-> lang r s).
Proof.
  induction s as [|c s IH]; intros r Hs; cbn [matches].
  - now apply nullable_lang.
  - rewrite (IH _ (simple_rep_deriv c r Hs)). now apply deriv_lang.
Qed.

(* ---- widening *)
Fixpoint widen (r : re) : re :=
  match r with
  | Cat a b => Cat (widen a) (widen b)
  | Alt a b => Alt (widen a) (widen b)
  | Star a => Star (widen a)
  | Rep a lo hi => if Nat.eqb lo 0 && Nat.ltb 8 hi then Star a else Rep a lo hi
  | _ => r
  end.

Lemma rep0_star a : forall hi s, lang (Rep a 0 hi) s -> lang (Star a) s.
Proof.
  intros hi s H. remember (Rep a 0 hi) as R eqn:E. revert hi E.
  induction H as [| | | | | | |a0 hi0|a0 lo hi0 u v H1 _ H2 IH2]; intros hi E; try discriminate.
  - injection E as -> _. constructor.
  - injection E as -> -> _. cbn in *. apply LStarS; [assumption|]. now apply (IH2 hi0).
Qed.

Theorem lang_widen r : forall s, lang r s -> lang (widen r) s.
Proof.
  induction r; intros s H; cbn [widen]; try exact H.
  - inversion H; subst. apply LCat; auto.
  - inversion H; subst; [apply LAltL|apply LAltR]; auto.
  - remember (Star r) as R eqn:E. induction H; try discriminate.
    + constructor.
    + injection E as ->. apply LStarS; auto.
  - destruct (Nat.eqb lo 0 && Nat.ltb 8 hi) eqn:E; [|exact H].
    apply andb_true_iff in E. destruct E as [E _]. apply Nat.eqb_eq in E. subst. now apply (rep0_star r hi).
Qed.

Lemma simple_rep_widen r : simple_rep r = true -> simple_rep (widen r) = true.
Proof.
  induction r; cbn [widen]; intro H; try reflexivity; try assumption.
  - cbn [simple_rep] in *. apply andb_true_iff in H. destruct H. now rewrite IHr1, IHr2.
  - cbn [simple_rep] in *. apply andb_true_iff in H. destruct H. now rewrite IHr1, IHr2.
  - cbn [simple_rep] in *. now apply IHr.
  - destruct (Nat.eqb lo 0 && Nat.ltb 8 hi); [|exact H]. destruct r; try discriminate. reflexivity.
Qed.

(* what is accepted by a pattern is accepted by its widening *)
Theorem matches_widen r s : simple_rep r = true -> matches r s = true -> matches (widen r) s = true.
Proof.
  intros Hs H. apply matches_iff_lang; [now apply simple_rep_widen|].
  apply lang_widen. now apply matches_iff_lang.
Qed.
