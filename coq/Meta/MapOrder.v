(* Go randomises map iteration.  A function's result can depend on that order only through a [range] over a
   map; this checker accepts a function when every such loop is one of two forms:
   (A) collect-and-sort:   for k := range m { s = append(s, k) }  immediately followed by  sort.Strings(s)
       - the loop yields the key set in some order, sort.Strings (a total order on strings) makes the
         result a function of the key set alone;
   (B) the bind fill loop (in writeToSQLString or a helper of it, whatever its variables are called):
         for name, idx := range <map> { v, ok := <map>[name]; if !ok { return ... }; <slice>[idx-1] = v }
       - the loop [fill] of Model/W.v, proved independent of the order (C04_order / C10_map_order).
   Anything else that ranges over a map is rejected. *)
From Coq Require Import String List Bool.
From QRB Require Import Meta.GoAst Meta.Cond Meta.Lower.
Import ListNotations.
Local Open Scope string_scope.

Definition kind_of (e : gexpr) : string :=
  match e with
  | GIdent _ k _ | GSel _ _ k | GCall _ _ _ k | GComposite _ _ k | GIndex _ _ k | GSlice _ k => k
  | _ => ""
  end.
Definition is_map (e : gexpr) : bool := String.eqb (kind_of e) "map".

Definition ident_named (e : gexpr) (n : string) : bool :=
  match e with GIdent x _ _ => String.eqb x n | _ => false end.

(* (A): the range statement and the statement after it *)
Definition collect_sort (s : gstmt) (next : option gstmt) : bool :=
  match s, next with
  | GRange (Some (GIdent k _ _)) None _ _ [GAssign [GIdent sl _ _] "=" [GCall (GIdent "append" _ "builtin") [a1; a2] false _]],
    Some (GExprStmt (GCall (GSel (GIdent "sort" _ "pkg") "Strings" _) [srt] false _)) =>
      ident_named a1 sl && ident_named a2 k && ident_named srt sl
  (* the same with a pre-sized slice:  for k := range m { s[i] = k; i++ } ; sort.Strings(s) *)
  | GRange (Some (GIdent k _ _)) None _ _ [GAssign [GIndex (GIdent sl _ _) (GIdent i _ _) _] "=" [a2]; GIncDec (GIdent i' _ _) "++"],
    Some (GExprStmt (GCall (GSel (GIdent "sort" _ "pkg") "Strings" _) [srt] false _)) =>
      ident_named a2 k && ident_named srt sl && String.eqb i i'
  | _, _ => false
  end.

(* (B) *)
Definition fill_loop (s : gstmt) : bool :=
  match s with
  | GRange (Some (GIdent name _ _)) (Some (GIdent idx _ _)) _ _
      [GAssign [GIdent v _ _; GIdent ok _ _] ":=" [GIndex supplied key _];
       GIf [] (GUn "!" okc) [GReturn _] [];
       GAssign [GIndex target (GBin "-" ix (GLit "INT" "1")) _] "=" [val]] =>
      (* whatever the map, the supplied map and the slot slice are called and wherever the loop lives *)
      is_map supplied && String.eqb (kind_of target) "slice" &&
      ident_named key name && ident_named okc ok && ident_named ix idx && ident_named val v
  | _ => false
  end.

(* every range over a map inside a statement list is of form (A) or, when allowed, (B) *)
Fixpoint stmts_ok (fuel : nat) (allow_fill : bool) (l : list gstmt) : bool :=
  match fuel with
  | O => false
  | S n =>
      match l with
      | [] => true
      | s :: r =>
          (match s with
           | GRange _ _ _ x b =>
               if is_map x then collect_sort s (hd_error r) || (allow_fill && fill_loop s)
               else stmts_ok n allow_fill b
           | GIf i _ t e => stmts_ok n allow_fill i && stmts_ok n allow_fill t && stmts_ok n allow_fill e
           | GFor i _ p b => stmts_ok n allow_fill i && stmts_ok n allow_fill p && stmts_ok n allow_fill b
           | GBlock b | GSwitch _ b => stmts_ok n allow_fill b
           | _ => true
           end) && stmts_ok n allow_fill r
      end
  end.

Definition fn_map_order_ok (f : gfunc) : bool :=
  stmts_ok 60 true (fn_body f).

Definition map_order_ok (fs : list gfunc) : bool :=
  forallb (fun f => negb (analysed_pkg f) || fn_map_order_ok f) fs.

(* how many loops of each form there are (non-vacuity) *)
Fixpoint count_map_ranges (fuel : nat) (l : list gstmt) : nat :=
  match fuel with
  | O => 0
  | S n => fold_right (fun s acc =>
             acc + match s with
                   | GRange _ _ _ x b => if is_map x then 1 else count_map_ranges n b
                   | GIf i _ t e => count_map_ranges n i + count_map_ranges n t + count_map_ranges n e
                   | GFor i _ p b => count_map_ranges n i + count_map_ranges n p + count_map_ranges n b
                   | GBlock b | GSwitch _ b => count_map_ranges n b
                   | _ => 0
                   end) 0 l
  end.
Definition map_ranges (fs : list gfunc) : nat :=
  fold_right (fun f acc => acc + if analysed_pkg f then count_map_ranges 60 (fn_body f) else 0) 0 fs.
