(* C17: every function that returns an operator-capable builder (a struct embedding ExpBase)
   re-establishes the self handle: its last statement before the return is  x.Exp = x  for the
   value x it returns (possibly wrapped in a type-state struct), or it delegates to a function that
   does.  Checked on the AST generated from the current source. *)
From Coq Require Import String List Bool Ascii.
From QRB Require Import Meta.GoAst Meta.Cond.
Import ListNotations.
Local Open Scope string_scope.

Definition mem_str (s : string) (l : list string) : bool := existsb (String.eqb s) l.

(* struct types of package builder that embed ExpBase, directly or through another such struct *)
Fixpoint handle_types_aux (fuel : nat) (ss : list gstruct) (acc : list string) : list string :=
  match fuel with
  | O => acc
  | S n =>
      let acc' := map st_name
                    (filter (fun s => String.eqb (st_pkg s) "builder" &&
                                      existsb (fun f => fd_embedded f && mem_str (fd_name f) acc) (st_fields s)) ss) in
      handle_types_aux n ss (nodup string_dec (acc ++ acc'))
  end.
(* ExpBase itself is not a handle type: it is the carrier of the handle *)
Definition handle_types (ss : list gstruct) : list string :=
  filter (fun n => negb (String.eqb n "ExpBase")) (handle_types_aux 4 ss ["ExpBase"]).

(* funcExp embeds ExpBase but is only ever handed out wrapped in a fresh ExpBase{Exp: funcExp{...}} *)
Definition exempt_types : list string := ["funcExp"].

Definition strip_pkg (t : string) : string :=
  (* "builder.FuncBuilder" -> "FuncBuilder" *)
  let fix go (s acc : string) : string :=
    match s with
    | EmptyString => acc
    | String c r => if Ascii.eqb c "."%char then go r EmptyString else go r (acc ++ String c EmptyString)
    end in go t EmptyString.

Definition result_handle_type (hts : list string) (f : gfunc) : option string :=
  match fn_results f with
  | [r] => let t := strip_pkg (pa_type r) in
           if mem_str t hts && negb (mem_str t exempt_types) then Some t else None
  | _ => None
  end.

Definition is_setself (x : string) (s : gstmt) : bool :=
  match s with
  | GAssign [GSel (GIdent a _ _) "Exp" _] "=" [GIdent b _ _] => String.eqb a x && String.eqb b x
  | _ => false
  end.

(* the identifier whose handle must be set, from the returned expression *)
Definition returned_var (e : gexpr) : option string :=
  match e with
  | GIdent x _ _ => Some x
  | GComposite _ [GKV (GIdent _ _ _) (GIdent x _ _)] _ => Some x
  | _ => None
  end.

Definition last_two (l : list gstmt) : option (gstmt * gstmt) :=
  match rev l with
  | b :: a :: _ => Some (a, b)
  | _ => None
  end.

Fixpoint establishes (fuel : nat) (fs : list gfunc) (f : gfunc) : bool :=
  match fuel with
  | O => false
  | S n =>
      match rev (fn_body f) with
      | GReturn [ret] :: before =>
          match returned_var ret with
          | Some x => match before with s :: _ => is_setself x s | [] => false end
          | None =>
              match ret with
              | GCall (GSel (GIdent r _ cls) m _) _ _ _ =>
                  if String.eqb cls "pkg" then
                    (* delegation to a package-level function of that package *)
                    match find_func fs r "" m with Some g => establishes n fs g | None => false end
                  else if String.eqb r (fn_recv_name f) then
                    (* delegation to another method on the same receiver (possibly promoted) *)
                    existsb (fun g => if String.eqb (fn_pkg g) (fn_pkg f) && String.eqb (fn_name g) m &&
                                         negb (String.eqb (fn_recv g) "")
                                      then establishes n fs g else false) fs
                  else false
              | _ => false
              end
          end
      | _ => false
      end
  end.

Definition setself_ok (fs : list gfunc) (ss : list gstruct) : bool :=
  let hts := handle_types ss in
  forallb (fun f =>
             match result_handle_type hts f with
             | Some _ =>
                 if String.eqb (fn_pkg f) "qrb" || String.eqb (fn_pkg f) "builder" || String.eqb (fn_pkg f) "fn"
                 then establishes 4 fs f else true
             | None => true
             end) fs.

Definition setself_count (fs : list gfunc) (ss : list gstruct) : nat :=
  length (filter (fun f => match result_handle_type (handle_types ss) f with Some _ => true | None => false end) fs).
