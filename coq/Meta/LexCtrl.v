(* The finite control of the lexer.  Control flow of Pg/Lexer.v never inspects accumulated text (only
   the explicit feature fields of the states), so erasing all accumulators commutes with stepping and
   preserves the kinds of the emitted tokens.  The erased states form a finite set: this is the
   finite-control abstraction (alex) composed with the validation patterns for C07 / C08. *)
From Coq Require Import String List Ascii NArith Bool.
From QRB Require Import Base.Bytes Pg.Lexer.
Import ListNotations.

Inductive kind :=
| KWord (ue : bool) | KQIdent | KUIdent | KStr | KNum | KParam
| KStar                       (* an operator run that is exactly "*" *)
| KOp                         (* any other operator run / operator *)
| KSelf (c : ascii) | KCast | KDotDot | KColonEq | KBad.

Definition tkind (t : token) : kind :=
  match t with
  | TWord _ ue => KWord ue | TQIdent _ => KQIdent | TUIdent _ => KUIdent | TStr _ => KStr | TNum _ => KNum
  | TParam _ => KParam | TOp _ => KOp | TRun _ star => if star then KStar else KOp
  | TSelf c => KSelf c | TCast => KCast | TDotDot => KDotDot | TColonEq => KColonEq | TBad _ => KBad
  end.

Definition erase (st : lstate) : lstate :=
  match st with
  | LInit => LInit
  | LWord k one ue _ => LWord k one ue EmptyString
  | LUAmp _ => LUAmp "U"%char
  | LQIdent ne _ => LQIdent ne EmptyString | LQIdentQ ne _ => LQIdentQ ne EmptyString
  | LUIdent ne _ => LUIdent ne EmptyString | LUIdentQ ne _ => LUIdentQ ne EmptyString
  | LStr e _ => LStr e EmptyString | LStrEsc _ => LStrEsc EmptyString
  | LStrQ e _ => LStrQ e EmptyString | LStrWs e _ nl => LStrWs e EmptyString nl
  | LInt _ => LInt EmptyString | LIntDot _ => LIntDot EmptyString | LFrac _ => LFrac EmptyString
  | LNumE _ => LNumE EmptyString | LNumESign _ => LNumESign EmptyString | LExp _ => LExp EmptyString
  | LDot => LDot | LDollar => LDollar | LParam _ => LParam EmptyString | LColon => LColon
  | LOp star last _ => LOp star last EmptyString
  | LErr => LErr
  end.

Lemma erase_idem st : erase (erase st) = erase st.
Proof. destruct st; reflexivity. Qed.

Lemma erase_close st :
  option_map (map tkind) (close (erase st)) = option_map (map tkind) (close st).
Proof. destruct st; cbn; try reflexivity; destruct ne; reflexivity. Qed.

Ltac split_ifs :=
  repeat match goal with
         | |- context [if ?b then _ else _] => destruct b
         | |- context [match ?k with WkE => _ | _ => _ end] => destruct k
         | |- context [match simple_escape ?c with _ => _ end] => destruct (simple_escape c)
         | |- context [match ?l with OlDash => _ | _ => _ end] => destruct l
         end.

Lemma erase_start scs c :
  erase (fst (start scs c)) = erase (fst (start scs c)) /\ True.
Proof. split; reflexivity. Qed.

Theorem erase_step scs st c :
  erase (fst (lstep scs (erase st) c)) = erase (fst (lstep scs st c)) /\
  map tkind (snd (lstep scs (erase st) c)) = map tkind (snd (lstep scs st c)).
Proof.
  unfold lstep. destruct (nb c =? 0)%N; [split; reflexivity|].
  destruct st; cbn [erase]; unfold restart, close, start;
    split_ifs; cbn; split; try reflexivity.
Qed.

(* running the lexer on erased states *)
Fixpoint crun (scs : bool) (st : lstate) (s : string) : lstate * list kind :=
  match s with
  | EmptyString => (erase st, [])
  | String c r => let (st1, t1) := lstep scs (erase st) c in
                  let (st2, k2) := crun scs st1 r in (st2, map tkind t1 ++ k2)
  end.

Theorem crun_simulates scs : forall s st,
  let (st', ts) := lrun scs st s in crun scs st s = (erase st', map tkind ts).
Proof.
  induction s as [|c r IH]; intro st; cbn [lrun crun]; [reflexivity|].
  destruct (erase_step scs st c) as [E1 E2].
  destruct (lstep scs (erase st) c) as [a1 t1] eqn:Ea. destruct (lstep scs st c) as [b1 t1'] eqn:Eb.
  cbn [fst snd] in E1, E2.
  specialize (IH a1) as IHa. specialize (IH b1) as IHb.
  destruct (lrun scs a1 r) as [a2 ta]. destruct (lrun scs b1 r) as [b2 tb].
  (* runs from states with equal erasure agree after erasure *)
  assert (G : forall x y, erase x = erase y -> crun scs x r = crun scs y r).
  { clear. induction r as [|d r IHr]; intros x y E; cbn [crun]; [now rewrite E|]. now rewrite E. }
  rewrite (G a1 b1 E1), IHb. now rewrite map_app, E2.
Qed.
