(* C12 / C13: an interpreter for the Go fragment the executor adapters are written in, run on the
   generated AST of the six execution methods for both outcomes of rendering, and templates for the
   forwarding methods and the two construction paths. *)
From Coq Require Import String List Bool.
From QRB Require Import Meta.GoAst Meta.Cond.
Import ListNotations.
Local Open Scope string_scope.

Inductive aval :=
| SSql | SArgs | SErr          (* the three results of b.ToSQL() *)
| SCtx                         (* the caller's context *)
| SNil
| SZero (n : string)           (* a named result that was never assigned: the zero value *)
| SCallResult                  (* what the executor call returned *)
| SOther.

Definition aval_eqb (a b : aval) : bool :=
  match a, b with
  | SSql, SSql | SArgs, SArgs | SErr, SErr | SCtx, SCtx | SNil, SNil | SCallResult, SCallResult => true
  | SZero n, SZero m => String.eqb n m
  | _, _ => false
  end.

Record acall := mkCall { ac_method : string; ac_args : list aval; ac_spread : bool }.

Section Interp.
  Variable recv : string.
  Variable ctxp : string.
  Variable results : list string.        (* named results *)
  Variable render_fails : bool.

  (* environment: names bound by  x, y, z := b.ToSQL() *)
  Definition aenv := list (string * aval).

  Definition lookup_env (env : aenv) (n : string) : option aval :=
    match find (fun p => String.eqb (fst p) n) env with Some p => Some (snd p) | None => None end.

  Definition eval_id (env : aenv) (n : string) : aval :=
    match lookup_env env n with
    | Some v => v
    | None => if String.eqb n ctxp then SCtx
              else if String.eqb n "nil" then SNil
              else if existsb (String.eqb n) results then SZero n
              else SOther
    end.

  Definition is_recv_sel (e : gexpr) (sel : string) : bool :=
    match e with GSel (GIdent r _ _) s _ => String.eqb r recv && String.eqb s sel | _ => false end.

  (* returns the value and the executor calls performed while evaluating it *)
  Definition eval_exp (env : aenv) (e : gexpr) : aval * list acall :=
    match e with
    | GIdent n _ _ => (eval_id env n, [])
    | GCall (GSel x m _) args spread _ =>
        if is_recv_sel x "executor" then
          (SCallResult,
           [mkCall m (map (fun a => match a with GIdent n _ _ => eval_id env n | _ => SOther end) args) spread])
        else (SOther, [])
    | _ => (SOther, [])
    end.

  Fixpoint exec_a (fuel : nat) (body : list gstmt) (env : aenv) (calls : list acall)
    : option (list acall * list aval) :=
    match fuel with
    | O => None
    | S fuel' =>
        match body with
        | [] => None
        | GAssign [GIdent a _ _; GIdent b _ _; GIdent c _ _] ":=" [GCall x [] false _] :: rest =>
            if is_recv_sel x "ToSQL"
            then exec_a fuel' rest ((a, SSql) :: (b, SArgs) :: (c, SErr) :: env) calls
            else None
        | GIf [] (GBin "!=" (GIdent e _ _) (GIdent "nil" _ _)) thn [] :: rest =>
            match lookup_env env e with
            | Some SErr => if render_fails then exec_a fuel' (thn ++ rest)%list env calls else exec_a fuel' rest env calls
            | _ => None
            end
        | GReturn es :: _ =>
            let r := map (eval_exp env) es in
            Some ((calls ++ flat_map snd r)%list, map fst r)
        | _ => None
        end
    end.
End Interp.

Definition calls_eqb (a b : list acall) : bool :=
  Nat.eqb (length a) (length b) &&
  forallb (fun p => String.eqb (ac_method (fst p)) (ac_method (snd p)) &&
                    Bool.eqb (ac_spread (fst p)) (ac_spread (snd p)) &&
                    Nat.eqb (length (ac_args (fst p))) (length (ac_args (snd p))) &&
                    forallb (fun q => aval_eqb (fst q) (snd q)) (combine (ac_args (fst p)) (ac_args (snd p))))
          (combine a b).

Definition avals_eqb (a b : list aval) : bool :=
  Nat.eqb (length a) (length b) && forallb (fun q => aval_eqb (fst q) (snd q)) (combine a b).

(* one execution method: fails closed, forwards exactly once *)
Definition adapter_exec_ok (fs : list gfunc) (pkg name exec_method : string) (extra_nil : bool) : bool :=
  match find_func fs pkg "ExecutiveQueryBuilder" name with
  | None => false
  | Some f =>
      match fn_params f, map pa_name (fn_results f) with
      | [ctx], (r0 :: _) as rs =>
          let run fails := exec_a (fn_recv_name f) (pa_name ctx) rs fails 10 (fn_body f) [] [] in
          match run true, run false with
          | Some (c1, v1), Some (c2, v2) =>
              (* rendering failed: no executor call, the zero result and the rendering error *)
              calls_eqb c1 [] && avals_eqb v1 [SZero r0; SErr] &&
              (* rendering succeeded: exactly one call (ctx, sql, args...) and its results returned *)
              calls_eqb c2 [mkCall exec_method [SCtx; SSql; SArgs] true] &&
              avals_eqb v2 (if extra_nil then [SCallResult; SNil] else [SCallResult])
          | _, _ => false
          end
      | _, _ => false
      end
  end.

Definition adapter_execs_ok (fs : list gfunc) : bool :=
  adapter_exec_ok fs "qrbpgx" "Query" "Query" false &&
  adapter_exec_ok fs "qrbpgx" "QueryRow" "QueryRow" true &&
  adapter_exec_ok fs "qrbpgx" "Exec" "Exec" false &&
  adapter_exec_ok fs "qrbsql" "Query" "QueryContext" false &&
  adapter_exec_ok fs "qrbsql" "QueryRow" "QueryRowContext" true &&
  adapter_exec_ok fs "qrbsql" "Exec" "ExecContext" false.

(* b.QueryBuilder.<m>(params...); return b *)
Definition forwarder_ok (fs : list gfunc) (pkg name : string) : bool :=
  match find_func fs pkg "ExecutiveQueryBuilder" name with
  | Some f =>
      match fn_body f with
      | [GExprStmt (GCall (GSel (GSel (GIdent r _ _) "QueryBuilder" _) m _) args false _); GReturn [GIdent r2 _ _]] =>
          String.eqb r (fn_recv_name f) && String.eqb r2 (fn_recv_name f) && String.eqb m name &&
          match arg_names args with
          | Some l => (fix eq (x y : list string) := match x, y with
                                                      | [], [] => true
                                                      | a :: x', b :: y' => String.eqb a b && eq x' y'
                                                      | _, _ => false end) l (map pa_name (fn_params f))
          | None => false
          end
      | _ => false
      end
  | None => false
  end.

Definition kv_is (e : gexpr) (field : string) (p : gexpr -> bool) : bool :=
  match e with GKV (GIdent f _ _) v => String.eqb f field && p v | _ => false end.
Definition is_build_call (param : string) (e : gexpr) : bool :=
  match e with
  | GCall (GSel (GIdent "qrb" _ _) "Build" _) [GIdent a _ _] false _ => String.eqb a param
  | _ => false
  end.
Definition is_sel_of (r sel : string) (e : gexpr) : bool :=
  match e with GSel (GIdent x _ _) s _ => String.eqb x r && String.eqb s sel | _ => false end.
Definition is_ident (n : string) (e : gexpr) : bool := match e with GIdent x _ _ => String.eqb x n | _ => false end.

(* both construction paths end in the same pair (qrb.Build(w), executor) *)
Definition constructors_ok (fs : list gfunc) (pkg : string) : bool :=
  (match find_func fs pkg "" "Build" with
   | Some f => match fn_params f, fn_body f with
               | [p], [GReturn [GUn "&" (GComposite (GTypeExpr "QueryBuilder") [kv] _)]] =>
                   kv_is kv "QueryBuilder" (is_build_call (pa_name p))
               | _, _ => false end
   | None => false end) &&
  (match find_func fs pkg "QueryBuilder" "WithExecutor" with
   | Some f => match fn_params f, fn_body f with
               | [p], [GReturn [GUn "&" (GComposite (GTypeExpr "ExecutiveQueryBuilder") [kv1; kv2] _)]] =>
                   kv_is kv1 "QueryBuilder" (is_sel_of (fn_recv_name f) "QueryBuilder") &&
                   kv_is kv2 "executor" (is_ident (pa_name p))
               | _, _ => false end
   | None => false end) &&
  (match find_func fs pkg "" "NewExecutorBuilder" with
   | Some f => match fn_params f, fn_body f with
               | [p], [GReturn [GUn "&" (GComposite (GTypeExpr "ExecutorBuilder") [kv] _)]] =>
                   kv_is kv "executor" (is_ident (pa_name p))
               | _, _ => false end
   | None => false end) &&
  (match find_func fs pkg "ExecutorBuilder" "Build" with
   | Some f => match fn_params f, fn_body f with
               | [p], [GReturn [GUn "&" (GComposite (GTypeExpr "ExecutiveQueryBuilder") [kv1; kv2] _)]] =>
                   kv_is kv1 "QueryBuilder" (is_build_call (pa_name p)) &&
                   kv_is kv2 "executor" (is_sel_of (fn_recv_name f) "executor")
               | _, _ => false end
   | None => false end).

Definition adapters_wiring_ok (fs : list gfunc) : bool :=
  forwarder_ok fs "qrbpgx" "WithNamedArgs" && forwarder_ok fs "qrbpgx" "WithoutValidation" &&
  forwarder_ok fs "qrbsql" "WithNamedArgs" && forwarder_ok fs "qrbsql" "WithoutValidation" &&
  constructors_ok fs "qrbpgx" && constructors_ok fs "qrbsql".

(* no other exported method of the adapter types reaches the executor *)
Definition mentions_executor_call (f : gfunc) : bool :=
  let fix ex (e : gexpr) : bool :=
    match e with
    | GCall (GSel (GSel _ "executor" _) _ _) _ _ _ => true
    | GCall g args _ _ => ex g || existsb ex args
    | GSel x _ _ | GUn _ x | GStar x | GParen x => ex x
    | GBin _ a b => ex a || ex b
    | GComposite _ l _ => existsb ex l
    | GKV a b => ex a || ex b
    | _ => false
    end in
  let fix st (s : gstmt) : bool :=
    match s with
    | GAssign l _ r => existsb ex l || existsb ex r
    | GIf i c t e => existsb st i || ex c || existsb st t || existsb st e
    | GReturn l => existsb ex l
    | GExprStmt e => ex e
    | GBlock b => existsb st b
    | _ => false
    end in
  existsb st (fn_body f).

Definition executor_census_ok (fs : list gfunc) : bool :=
  forallb (fun f =>
             negb ((String.eqb (fn_pkg f) "qrbpgx" || String.eqb (fn_pkg f) "qrbsql") && mentions_executor_call f) ||
             (String.eqb (fn_recv f) "ExecutiveQueryBuilder" &&
              (String.eqb (fn_name f) "Query" || String.eqb (fn_name f) "QueryRow" || String.eqb (fn_name f) "Exec"))) fs.
