(* The multi-byte step of C07 / C08.  The product construction lets one byte >= 0x80 stand for a non-ASCII rune.
   Here: the lexer's control treats every byte >= 0x80 alike and is not changed by further such bytes, so the
   kinds of the tokens of a UTF-8 text (valid or not) are those of the text in which every rune that
   utf8.DecodeRuneInString yields (1 to 4 bytes) is replaced by the single byte 0x80. *)
From Coq Require Import String List Ascii NArith Bool Arith Lia.
From QRB Require Import Base.Bytes Pg.Lexer Meta.LexCtrl Meta.Regex Meta.Product Meta.Safe.
Import ListNotations.
Local Open Scope N_scope.

Definition hi (c : ascii) : bool := 128 <=? nb c.

(* ---------------------------------------------------------------- what the lexer asks about a high byte *)
Lemma nb_lt_256 c : nb c < 256.
Proof. unfold nb. apply N_ascii_bounded. Qed.

Lemma hi_ne c d : hi c = true -> nb d < 128 -> Ascii.eqb c d = false.
Proof.
  unfold hi. intros H Hd. apply N.leb_le in H. destruct (Ascii.eqb c d) eqn:E; [|reflexivity].
  apply Ascii.eqb_eq in E. subst d. lia.
Qed.

Section HiFacts.
  Variable c : ascii.
  Hypothesis H : hi c = true.

  Let Hn : 128 <= nb c. Proof. unfold hi in H. now apply N.leb_le in H. Qed.

  Ltac cmp := repeat match goal with
                     | |- context [(?a =? ?b)] => let E := fresh in destruct (N.eqb_spec a b) as [E|E]; try lia
                     | |- context [(?a <=? ?b)] => let E := fresh in destruct (N.leb_spec a b) as [E|E]; try lia
                     end.

  Lemma hi_nonzero : (nb c =? 0) = false. Proof. cmp; try reflexivity. Qed.
  Lemma hi_space : is_space c = false. Proof. unfold is_space. cbv zeta. cmp; try reflexivity. Qed.
  Lemma hi_newline : is_newline c = false. Proof. unfold is_newline. cbv zeta. cmp; try reflexivity. Qed.
  Lemma hi_digit : is_digit c = false. Proof. unfold is_digit. cbv zeta. cmp; try reflexivity. Qed.
  Lemma hi_start : is_ident_start c = true. Proof. unfold is_ident_start. cbv zeta. cmp; cbn; rewrite ?orb_true_r; try reflexivity. Qed.
  Lemma hi_cont : is_ident_cont c = true. Proof. unfold is_ident_cont. now rewrite hi_start. Qed.
  Lemma hi_in_chars s : forallb (fun d => nb d <? 128) (list_of_string s) = true -> in_chars c s = false.
  Proof.
    unfold in_chars. induction s as [|d r IH]; cbn; [reflexivity|]. intro K. apply andb_true_iff in K. destruct K as [K1 K2].
    apply N.ltb_lt in K1. rewrite (hi_ne c d H K1). now apply IH.
  Qed.
  Lemma hi_self : Lexer.is_self c = false. Proof. apply hi_in_chars. reflexivity. Qed.
  Lemma hi_op : Lexer.is_op_char c = false. Proof. apply hi_in_chars. reflexivity. Qed.
  Lemma hi_wkind : wkind_of_first c = WkOther. Proof. unfold wkind_of_first. cbv zeta. cmp; try reflexivity. Qed.
  Lemma hi_lower : lower c = c. Proof. unfold lower. cbv zeta. cmp; try reflexivity. Qed.
  Lemma hi_ue ue : ue_next ue c = None.
  Proof.
    unfold ue_next. destruct ue as [n|]; [|reflexivity]. rewrite hi_lower.
    destruct (String.get n uescape_kw) as [d|] eqn:E; [|reflexivity].
    assert (nb d < 128).
    { unfold uescape_kw in E. do 7 (destruct n as [|n]; [cbn in E; injection E as <-; vm_compute; reflexivity|]). discriminate. }
    now rewrite (hi_ne c d H).
  Qed.
  Lemma hi_escape : simple_escape c = Some c.
  Proof. unfold simple_escape. cbv zeta. rewrite hi_digit. cmp; try reflexivity. Qed.
  Lemma hi_eqb d : nb d < 128 -> Ascii.eqb c d = false. Proof. now apply hi_ne. Qed.
End HiFacts.

(* ---------------------------------------------------------------- control states up to what the lexer can observe *)
(* [one] ("exactly one character so far") is only consulted for the words U / u *)
Definition cnorm (st : lstate) : lstate :=
  match erase st with
  | LWord WkOther _ ue a => LWord WkOther false ue a
  | x => x
  end.

Ltac split_all :=
  repeat match goal with
         | |- context [if ?b then _ else _] => destruct b eqn:?
         | |- context [match ?k with WkE => _ | _ => _ end] => destruct k eqn:?
         | |- context [match simple_escape ?c with _ => _ end] => destruct (simple_escape c) eqn:?
         | |- context [match ?l with OlDash => _ | _ => _ end] => destruct l eqn:?
         end.

Lemma cnorm_erase st : cnorm (erase st) = cnorm st.
Proof. unfold cnorm. now rewrite erase_idem. Qed.

Lemma cnorm_idem st : cnorm (cnorm st) = cnorm st.
Proof. destruct st; try reflexivity. unfold cnorm. cbn [erase]. destruct k; reflexivity. Qed.

Lemma cnorm_close st : option_map (map tkind) (close (cnorm st)) = option_map (map tkind) (close st).
Proof. destruct st; cbn; try reflexivity; try (destruct ne; reflexivity). unfold cnorm. cbn [erase]. destruct k; reflexivity. Qed.

Lemma cnorm_of_erase x y : erase x = erase y -> cnorm x = cnorm y.
Proof. unfold cnorm. now intros ->. Qed.

Theorem cnorm_step scs st c :
  cnorm (fst (lstep scs (cnorm st) c)) = cnorm (fst (lstep scs st c)) /\
  map tkind (snd (lstep scs (cnorm st) c)) = map tkind (snd (lstep scs st c)).
Proof.
  assert (G : cnorm st = erase st -> 
              cnorm (fst (lstep scs (cnorm st) c)) = cnorm (fst (lstep scs st c)) /\
              map tkind (snd (lstep scs (cnorm st) c)) = map tkind (snd (lstep scs st c))).
  { intros ->. destruct (erase_step scs st c) as [E1 E2]. split; [now apply cnorm_of_erase|exact E2]. }
  destruct st; try (apply G; reflexivity).
  destruct k; try (apply G; reflexivity).
  unfold cnorm. cbn [erase]. unfold lstep. destruct (nb c =? 0)%N; [split; reflexivity|].
  destruct (is_ident_cont c); [split; reflexivity|].
  unfold restart, close. destruct (start scs c) as [s1 t1].
  destruct (Ascii.eqb c "'"); [split; reflexivity|].
  destruct (Ascii.eqb c "&"); split; reflexivity.
Qed.

(* ---------------------------------------------------------------- high bytes: all alike, and absorbed *)
Ltac hi_rw c H :=
  rewrite ?(hi_nonzero c H), ?(hi_space c H), ?(hi_newline c H), ?(hi_digit c H), ?(hi_start c H), ?(hi_cont c H),
          ?(hi_self c H), ?(hi_op c H), ?(hi_wkind c H), ?(hi_ue c H), ?(hi_escape c H),
          ?(hi_eqb c H """"%char eq_refl), ?(hi_eqb c H "'"%char eq_refl), ?(hi_eqb c H "."%char eq_refl),
          ?(hi_eqb c H "$"%char eq_refl), ?(hi_eqb c H ":"%char eq_refl), ?(hi_eqb c H "&"%char eq_refl),
          ?(hi_eqb c H "\"%char eq_refl), ?(hi_eqb c H "e"%char eq_refl), ?(hi_eqb c H "E"%char eq_refl),
          ?(hi_eqb c H "+"%char eq_refl), ?(hi_eqb c H "-"%char eq_refl), ?(hi_eqb c H "*"%char eq_refl),
          ?(hi_eqb c H "="%char eq_refl).

(* what a high byte does in every state: [hnext st] is the control state afterwards (up to cnorm), [hkinds st] the
   kinds of the tokens completed *)
Definition hword : lstate := LWord WkOther false None EmptyString.
Definition hnext (st : lstate) : lstate :=
  match st with
  | LInit | LWord _ _ _ _ | LUAmp _ | LQIdentQ _ _ | LUIdentQ _ _ | LStrQ _ _ | LStrWs _ _ _ | LDot | LColon | LOp _ _ _ =>
      match close st with Some _ => hword | None => LErr end
  | LQIdent _ _ => LQIdent true EmptyString
  | LUIdent _ _ => LUIdent true EmptyString
  | LStr e _ => LStr e EmptyString
  | LStrEsc _ => LStr true EmptyString
  | LInt _ | LIntDot _ | LFrac _ | LNumE _ | LNumESign _ | LExp _ | LDollar | LParam _ | LErr => LErr
  end.
Definition hkinds (st : lstate) : list kind :=
  match st with
  | LWord _ _ _ _ | LQIdent _ _ | LUIdent _ _ | LStr _ _ | LStrEsc _ | LInit => []
  | LInt _ | LIntDot _ | LFrac _ | LNumE _ | LNumESign _ | LExp _ | LDollar | LParam _ | LErr => []
  | _ => match close st with Some ts => map tkind ts | None => [] end
  end.

Lemma hi_step scs st c : hi c = true ->
  cnorm (fst (lstep scs st c)) = cnorm (hnext st) /\ map tkind (snd (lstep scs st c)) = hkinds st.
Proof.
  intro H. unfold lstep. hi_rw c H.
  destruct st; cbn [hnext hkinds close]; unfold restart, close, start; hi_rw c H; cbn; hi_rw c H;
    try (split; reflexivity).
  all: try (destruct ne; split; reflexivity).
  all: try (destruct esc; cbn; hi_rw c H; split; reflexivity).
Qed.

Lemma hnext_idem st : cnorm (hnext (hnext st)) = cnorm (hnext st) /\ hkinds (hnext st) = [].
Proof. destruct st; cbn [hnext close]; try (split; reflexivity); destruct ne; split; reflexivity. Qed.

Lemma hi_absorb scs st c1 c2 : hi c1 = true -> hi c2 = true ->
  cnorm (fst (lstep scs (fst (lstep scs st c1)) c2)) = cnorm (fst (lstep scs st c1)) /\
  map tkind (snd (lstep scs (fst (lstep scs st c1)) c2)) = [].
Proof.
  intros H1 H2. destruct (hi_step scs st c1 H1) as [A1 _].
  set (st1 := fst (lstep scs st c1)) in *.
  destruct (cnorm_step scs st1 c2) as [B1 B2]. rewrite <- B1, <- B2, A1.
  destruct (cnorm_step scs (hnext st) c2) as [C1 C2]. rewrite C1, C2.
  destruct (hi_step scs (hnext st) c2 H2) as [D1 D2]. rewrite D1, D2.
  destruct (hnext_idem st) as [E1 E2]. now rewrite E1, E2.
Qed.

Lemma hi_uniform scs st c1 c2 : hi c1 = true -> hi c2 = true ->
  cnorm (fst (lstep scs st c1)) = cnorm (fst (lstep scs st c2)) /\
  map tkind (snd (lstep scs st c1)) = map tkind (snd (lstep scs st c2)).
Proof.
  intros H1 H2. destruct (hi_step scs st c1 H1) as [A1 A2]. destruct (hi_step scs st c2 H2) as [B1 B2].
  now rewrite A1, A2, B1, B2.
Qed.

(* ---------------------------------------------------------------- runs *)
(* final control state (up to cnorm) and kinds of the completed tokens *)
Definition kinds_from (scs : bool) (st : lstate) (s : list ascii) : lstate * list kind :=
  let (st', ts) := lrun scs st (string_of_list s) in (cnorm st', map tkind ts).

Lemma kinds_from_cons scs st c r :
  kinds_from scs st (c :: r) =
  (fst (kinds_from scs (fst (lstep scs st c)) r), map tkind (snd (lstep scs st c)) ++ snd (kinds_from scs (fst (lstep scs st c)) r)).
Proof.
  unfold kinds_from. cbn [string_of_list lrun]. destruct (lstep scs st c) as [st1 t1]. cbn [fst snd].
  destruct (lrun scs st1 (string_of_list r)) as [st2 t2]. cbn [fst snd]. now rewrite map_app.
Qed.

Lemma kinds_from_cnorm scs r : forall x y, cnorm x = cnorm y -> kinds_from scs x r = kinds_from scs y r.
Proof.
  induction r as [|c r IH]; intros x y E.
  - unfold kinds_from. cbn. now rewrite E.
  - rewrite !kinds_from_cons.
    destruct (cnorm_step scs x c) as [X1 X2]. destruct (cnorm_step scs y c) as [Y1 Y2].
    assert (E1 : cnorm (fst (lstep scs x c)) = cnorm (fst (lstep scs y c))) by now rewrite <- X1, <- Y1, E.
    assert (E2 : map tkind (snd (lstep scs x c)) = map tkind (snd (lstep scs y c))) by now rewrite <- X2, <- Y2, E.
    now rewrite (IH _ _ E1), E2.
Qed.

(* a block of further high bytes after a high byte changes nothing *)
Lemma kinds_from_absorb scs c1 hs r : hi c1 = true -> Forall (fun c => hi c = true) hs ->
  forall st, kinds_from scs st (c1 :: hs ++ r) = kinds_from scs st (c1 :: r).
Proof.
  intros H1 Hs. induction Hs as [|c2 hs H2 _ IH]; intro st; [reflexivity|].
  rewrite <- (IH st). rewrite !kinds_from_cons. cbn [app]. rewrite !kinds_from_cons.
  destruct (hi_absorb scs st c1 c2 H1 H2) as [A1 A2]. rewrite A2. cbn [app].
  (* the state after c1 c2 and the state after c1 agree up to cnorm: continue with hs ++ r from either *)
  set (x := fst (lstep scs (fst (lstep scs st c1)) c2)) in *. set (y := fst (lstep scs st c1)) in *.
  destruct hs as [|c3 hs'].
  - cbn [app]. now rewrite (kinds_from_cnorm scs r x y A1).
  - now rewrite (kinds_from_cnorm scs ((c3 :: hs') ++ r) x y A1).
Qed.

(* [Collapses l l']: l' is l with every block (as cut by some decoder) of one or more high bytes replaced by one
   high byte; ASCII bytes are kept *)
Inductive Collapses : list ascii -> list ascii -> Prop :=
| col_nil : Collapses [] []
| col_ascii c l l' : hi c = false -> Collapses l l' -> Collapses (c :: l) (c :: l')
| col_block c hs h l l' :
    hi c = true -> Forall (fun x => hi x = true) hs -> hi h = true -> Collapses l l' ->
    Collapses (c :: hs ++ l) (h :: l').

Theorem collapse_kinds scs l l' : Collapses l l' -> forall st, kinds_from scs st l = kinds_from scs st l'.
Proof.
  induction 1 as [|c l l' Hc _ IH|c hs h l l' Hc Hs Hh _ IH]; intro st; [reflexivity| |].
  - rewrite !kinds_from_cons. now rewrite IH.
  - rewrite (kinds_from_absorb scs c hs l Hc Hs st). rewrite !kinds_from_cons.
    destruct (hi_uniform scs st c h Hc Hh) as [U1 U2]. rewrite U2.
    rewrite (kinds_from_cnorm scs l _ _ U1). now rewrite IH.
Qed.

Theorem collapse_lex scs s s' :
  Collapses (list_of_string s) (list_of_string s') ->
  option_map (map tkind) (lex_from scs LInit s) = option_map (map tkind) (lex_from scs LInit s').
Proof.
  intro C. pose proof (collapse_kinds scs _ _ C LInit) as K. unfold kinds_from in K.
  rewrite !string_of_list_of_string in K. unfold lex_from.
  destruct (lrun scs LInit s) as [a ta]. destruct (lrun scs LInit s') as [b tb]. injection K as K1 K2.
  pose proof (cnorm_close a) as Ca. pose proof (cnorm_close b) as Cb. rewrite K1 in Ca. rewrite Ca in Cb.
  destruct (close a) as [xa|]; destruct (close b) as [xb|]; cbn in *; try discriminate; [|reflexivity].
  injection Cb as Cb. now rewrite !map_app, K2, Cb.
Qed.

(* ---------------------------------------------------------------- the UTF-8 decoder cuts such blocks *)
Lemma cont_bounds b lo hi_ : cont b lo hi_ = true -> lo <= b /\ b <= hi_.
Proof. unfold cont. intro H. apply andb_true_iff in H. destruct H as [H1 H2]. apply N.leb_le in H1, H2. split; assumption. Qed.

Lemma decode_one_spec b0 r :
  let (rn, k) := decode_one (b0 :: r) in
  if b0 <? 128 then rn = b0 /\ k = 1%nat
  else 128 <= rn /\ (1 <= k <= S (List.length r))%nat /\
       Forall (fun b => 128 <= b) (firstn k (b0 :: r)).
Proof.
  unfold decode_one. destruct (b0 <? 128) eqn:E0; [split; reflexivity|].
  apply N.ltb_ge in E0.
  assert (Bad : 128 <= rune_error /\ (1 <= 1 <= S (List.length r))%nat /\
                Forall (fun b => 128 <= b) (firstn 1 (b0 :: r))).
  { unfold rune_error. split; [lia|]. split; [lia|]. cbn. constructor; [assumption|constructor]. }
  cbv zeta.
  repeat match goal with
         | |- context [if ?b then _ else _] => destruct b eqn:?
         | |- context [match ?l with [] => _ | _ :: _ => _ end] => destruct l
         end; try exact Bad.
  all: repeat match goal with
              | H : _ && _ = true |- _ => apply andb_true_iff in H; destruct H
              | H : cont _ _ _ = true |- _ => apply cont_bounds in H
              | H : (_ =? _) = true |- _ => apply N.eqb_eq in H
              end.
  all: cbn [List.length firstn]; (split; [lia|]); (split; [lia|]); repeat constructor; lia.
Qed.

Definition out_byte (tbl : list (N * N * nat)) (rn : N) : ascii := byte_of_sym (sym_of_rune tbl rn).

Lemma hi_high_byte : hi high_byte = true. Proof. reflexivity. Qed.

Lemma hi_false_lt c : hi c = false -> nb c < 128.
Proof. unfold hi. intro H. now apply N.leb_gt in H. Qed.

Lemma decode_collapses tbl : forall fuel (bs : list ascii), (List.length bs < fuel)%nat ->
  Collapses bs (map (out_byte tbl) (decode_runes_aux fuel (map N_of_byte bs))).
Proof.
  induction fuel as [|fuel IH]; intros bs Hl; [lia|].
  destruct bs as [|c r]; [constructor|].
  cbn [decode_runes_aux map].
  pose proof (decode_one_spec (N_of_byte c) (map N_of_byte r)) as S.
  destruct (decode_one (N_of_byte c :: map N_of_byte r)) as [rn k].
  change (N_of_byte c) with (nb c) in *.
  destruct (nb c <? 128) eqn:E.
  - destruct S as [-> ->]. cbn [skipn map].
    assert (Ho : out_byte tbl (nb c) = c).
    { unfold out_byte, sym_of_rune. rewrite E. cbn. unfold nb. apply ascii_N_embedding. }
    rewrite Ho. apply col_ascii; [unfold hi; apply N.leb_gt; now apply N.ltb_lt|].
    apply IH. cbn in Hl. lia.
  - destruct S as (Hr & Hk & Hf). rewrite map_length in Hk.
    assert (Ho : out_byte tbl rn = high_byte).
    { unfold out_byte, sym_of_rune. destruct (rn <? 128) eqn:E2; [apply N.ltb_lt in E2; lia|reflexivity]. }
    cbn [map]. rewrite Ho. destruct k as [|k]; [lia|].
    change (nb c :: map N_of_byte r) with (map N_of_byte (c :: r)). rewrite skipn_map.
    cbn [skipn]. cbn [firstn] in Hf.
    rewrite <- (firstn_skipn k r) at 1.
    apply col_block.
    + unfold hi. apply N.leb_le. apply N.ltb_ge in E. exact E.
    + inversion Hf as [|x y Hx Hy]; subst. rewrite firstn_map in Hy.
      rewrite Forall_map in Hy. eapply Forall_impl; [|exact Hy]. intros a Ha. unfold hi. now apply N.leb_le.
    + exact hi_high_byte.
    + apply IH. rewrite skipn_length. cbn [List.length] in Hl. clear - Hl. unfold byte in *. lia.
Qed.

(* the text the product construction runs on is the text with every decoded rune collapsed to one byte *)
Theorem decode_collapse tbl s :
  Collapses (list_of_string s) (list_of_string (bytes_of_syms (decode_syms tbl s))).
Proof.
  unfold bytes_of_syms, decode_syms, decode_runes. rewrite list_of_string_of_list, map_map.
  apply (decode_collapses tbl). rewrite map_length. unfold byte. lia.
Qed.

(* hence: the kinds of the tokens of the real bytes are those of the collapsed text *)
Theorem multibyte_kinds scs tbl s :
  option_map (map tkind) (lex_from scs LInit s) =
  option_map (map tkind) (lex_from scs LInit (bytes_of_syms (decode_syms tbl s))).
Proof. apply collapse_lex. apply decode_collapse. Qed.

(* transfer of a statement about the kinds of the collapsed text to the real bytes *)
Theorem multibyte_transfer scs tbl s (P : list kind -> Prop) :
  (exists ts, lex_from scs LInit (bytes_of_syms (decode_syms tbl s)) = Some ts /\ P (map tkind ts)) ->
  exists ts, lex_from scs LInit s = Some ts /\ P (map tkind ts).
Proof.
  intros [ts' [E HP]]. pose proof (multibyte_kinds scs tbl s) as K. rewrite E in K. cbn in K.
  destruct (lex_from scs LInit s) as [ts|]; [|discriminate]. cbn in K. injection K as K.
  exists ts. split; [reflexivity|]. now rewrite K.
Qed.
