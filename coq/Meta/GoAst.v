(* A generic dump of Go function declarations (go/ast + go/types facts), produced by qrb2coq for
   every function and method of the root, builder, fn, qrbpgx and qrbsql packages (coq/Gen/Ast.v).
   The per-property checkers (Meta/*.v) interpret these terms; the translator does no analysis. *)
From Coq Require Import String List Bool.
Import ListNotations.

(* kind: underlying type class of an expression: slice map ptr struct iface func basic array chan tparam unknown
   cls : what an identifier denotes: local param recv global func type const pkg builtin nil field unknown *)
Inductive gexpr :=
| GIdent (name kind cls : string)
| GSel (x : gexpr) (sel kind : string)
| GCall (f : gexpr) (args : list gexpr) (ellipsis : bool) (kind : string)
| GBin (op : string) (x y : gexpr)
| GUn (op : string) (x : gexpr)                       (* incl. & *)
| GStar (x : gexpr)
| GLit (kind val : string)                            (* INT FLOAT STRING CHAR; val = source text, strings unquoted *)
| GComposite (ty : gexpr) (elts : list gexpr) (kind : string)
| GKV (k v : gexpr)
| GIndex (x i : gexpr) (kind : string)
| GSlice (x : gexpr) (kind : string)
| GParen (x : gexpr)
| GTypeAssert (x ty : gexpr)
| GFuncLit (body : list gstmt)
| GTypeExpr (txt : string)                            (* a type in expression position, printed *)
| GOtherE (what : string)
with gstmt :=
| GAssign (lhs : list gexpr) (tok : string) (rhs : list gexpr)
| GIf (init : list gstmt) (cond : gexpr) (thn els : list gstmt)
| GReturn (rs : list gexpr)
| GExprStmt (e : gexpr)
| GFor (init : list gstmt) (cond : option gexpr) (post : list gstmt) (body : list gstmt)
| GRange (key val : option gexpr) (tok : string) (x : gexpr) (body : list gstmt)
| GVarDecl (names : list string) (ty : string) (vals : list gexpr)
| GIncDec (x : gexpr) (tok : string)
| GBlock (body : list gstmt)
| GSwitch (what : string) (body : list gstmt)         (* switch / type switch: cases flattened *)
| GOtherS (what : string).                            (* go, defer, select, send, labels, goto ... *)

Record gparam := mkParam { pa_name : string; pa_type : string; pa_kind : string; pa_variadic : bool }.

Record gfunc := mkFunc {
  fn_pkg : string;              (* qrb builder fn qrbpgx qrbsql *)
  fn_file : string;
  fn_recv : string;             (* receiver type name, "" for functions *)
  fn_recv_name : string;
  fn_recv_ptr : bool;
  fn_name : string;
  fn_exported : bool;
  fn_params : list gparam;
  fn_results : list gparam;
  fn_body : list gstmt;
  fn_doc : string
}.

Record gvar := mkVar { gv_pkg : string; gv_name : string; gv_type : string; gv_kind : string; gv_is_const : bool;
                       gv_value : string (* source value of a string constant, "" otherwise *) }.

Record gfield := mkField { fd_name : string; fd_type : string; fd_embedded : bool }.
Record gstruct := mkStruct { st_pkg : string; st_name : string; st_fields : list gfield }.
