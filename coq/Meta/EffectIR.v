(* C05 / C10 / C11: a small imperative IR over reference-valued access paths (slices, maps, pointers),
   its concrete semantics over a heap of objects, a freshness checker, and the soundness theorem:
   a function accepted by the checker never writes an object that existed when it was entered (other
   than the objects of the render-local SQLBuilder it was handed).
   The lowering from the generated Go AST to this IR is Meta/Lower.v. *)
From Coq Require Import String List Bool Arith Lia.
Import ListNotations.

(* an access path: root variable and selectors, e.g. newBuilder.parts.from *)
Definition path := list string.

Definition path_eqb (a b : path) : bool :=
  (fix eq (x y : path) := match x, y with
                          | [], [] => true
                          | s :: x', t :: y' => String.eqb s t && eq x' y'
                          | _, _ => false end) a b.

Lemma path_eqb_eq a : forall b, path_eqb a b = true <-> a = b.
Proof.
  induction a as [|s a IH]; intros [|t b]; cbn; split; try discriminate; try reflexivity.
  - intro H. apply andb_true_iff in H. destruct H as [H1 H2]. apply String.eqb_eq in H1. apply IH in H2. now subst.
  - intros [= -> ->]. rewrite String.eqb_refl. now apply IH.
Qed.

Fixpoint is_prefix (p q : path) : bool :=
  match p, q with
  | [], _ => true
  | s :: p', t :: q' => String.eqb s t && is_prefix p' q'
  | _, _ => false
  end.

Inductive istmt :=
| IAlloc (p : path)                 (* p := a new array / map / cell *)
| IClobber (p : path)               (* p (a struct value or a reference) is overwritten by something that exists
                                       already: every path with prefix p may now point anywhere *)
| IAssign (p q : path)              (* reference copy p := q *)
| IAppend (p q : path)              (* p = append(q, ...): in place if there is spare capacity *)
| IWrite (p : path)                 (* p[i] = .., copy(p, ..), sort(p), m[k] = .., delete(m, k), *p = .. *)
| INop                              (* assignments to local non-reference variables, pure calls, reads *)
| ISbCall                           (* a method of the *SQLBuilder parameter: writes only the builder's own objects *)
| IIf (a b : list istmt)
| ILoop (body : list istmt)
| IUnknown.                         (* anything the lowering does not understand; never accepted *)

(* ---------------------------------------------------------------- concrete semantics *)
(* Objects are opaque (a nat stands for the whole content); the heap only grows. *)
Record state := mkState { heap : list nat; env : path -> nat }.

Definition upd_env (e : path -> nat) (p : path) (l : nat) : path -> nat :=
  fun q => if path_eqb q p then l else e q.

Fixpoint set_obj (h : list nat) (l : nat) (v : nat) : list nat :=
  match h, l with
  | [], _ => []
  | _ :: r, O => v :: r
  | x :: r, S l' => x :: set_obj r l' v
  end.

Section Sem.
  Variable is_sb : nat -> bool.       (* the objects that belong to the SQLBuilder handed to the function *)

  (* e' agrees with e outside the paths below p *)
  Definition agree_outside (p : path) (e e' : path -> nat) : Prop :=
    forall q, is_prefix p q = false -> e' q = e q.

  Inductive exec : istmt -> state -> state -> Prop :=
  | XAlloc p st v :
      exec (IAlloc p) st (mkState (heap st ++ [v]) (upd_env (env st) p (length (heap st))))
  | XClobber p st e' : agree_outside p (env st) e' -> exec (IClobber p) st (mkState (heap st) e')
  | XAssign p q st : exec (IAssign p q) st (mkState (heap st) (upd_env (env st) p (env st q)))
  | XAppendInPlace p q st v :
      exec (IAppend p q) st (mkState (set_obj (heap st) (env st q) v) (upd_env (env st) p (env st q)))
  | XAppendRealloc p q st v :
      exec (IAppend p q) st (mkState (heap st ++ [v]) (upd_env (env st) p (length (heap st))))
  | XWrite p st v : exec (IWrite p) st (mkState (set_obj (heap st) (env st p) v) (env st))
  | XNop st ext : exec INop st (mkState (heap st ++ ext) (env st))     (* callees may allocate *)
  | XSb st h' ext :
      length h' = length (heap st) ->
      (forall l, is_sb l = false -> nth_error h' l = nth_error (heap st) l) ->
      exec ISbCall st (mkState (h' ++ ext) (env st))
  | XIfL a b st st' : execs a st st' -> exec (IIf a b) st st'
  | XIfR a b st st' : execs b st st' -> exec (IIf a b) st st'
  | XLoop0 body st : exec (ILoop body) st st
  | XLoopS body st st1 st2 : execs body st st1 -> exec (ILoop body) st1 st2 -> exec (ILoop body) st st2
  with execs : list istmt -> state -> state -> Prop :=
  | XNil st : execs [] st st
  | XCons s r st st1 st2 : exec s st st1 -> execs r st1 st2 -> execs (s :: r) st st2.

  (* ---------------------------------------------------------------- the checker *)
  Definition fset := list path.
  Definition fmem (p : path) (F : fset) : bool := existsb (path_eqb p) F.
  Definition fdrop (p : path) (F : fset) : fset := filter (fun q => negb (is_prefix p q)) F.
  Definition finter (A B : fset) : fset := filter (fun q => fmem q B) A.
  Definition fsub (A B : fset) : bool := forallb (fun q => fmem q B) A.

  (* descend to a loop invariant: a set Fi with  body Fi = Some G  and  Fi <= G *)
  Fixpoint loop_iter (body : fset -> option fset) (k : nat) (Fi : fset) : option fset :=
    match k with
    | O => None
    | S k' =>
        match body Fi with
        | Some G => if fsub Fi G then Some Fi else loop_iter body k' (finter Fi G)
        | None => None
        end
    end.

  Fixpoint chk (fuel : nat) (s : istmt) (F : fset) {struct fuel} : option fset :=
    match fuel with
    | O => None
    | S n =>
        match s with
        | IAlloc p => Some (p :: fdrop p F)
        | IClobber p => Some (fdrop p F)
        | IAssign p q => if fmem q F then Some (p :: fdrop p F) else Some (fdrop p F)
        | IAppend p q => if fmem q F then Some (p :: fdrop p F) else None
        | IWrite p => if fmem p F then Some F else None
        | INop | ISbCall => Some F
        | IIf a b =>
            match chks n a F, chks n b F with
            | Some A, Some B => Some (finter A B)
            | _, _ => None
            end
        | ILoop body => loop_iter (chks n body) (S (length F)) F
        | IUnknown => None
        end
    end
  with chks (fuel : nat) (l : list istmt) (F : fset) {struct fuel} : option fset :=
    match fuel with
    | O => None
    | S n =>
        match l with
        | [] => Some F
        | s :: r => match chk n s F with Some F' => chks n r F' | None => None end
        end
    end.

  (* ---------------------------------------------------------------- soundness *)
  (* every path believed fresh points at an object allocated after entry *)
  Definition Inv (n0 : nat) (F : fset) (st : state) : Prop :=
    forall p, fmem p F = true -> n0 <= env st p.
  (* nothing that existed at entry (and is not the builder's) has changed; the heap has not shrunk *)
  Definition frame (n0 : nat) (h0 : list nat) (st : state) : Prop :=
    n0 <= length (heap st) /\
    forall l, l < n0 -> is_sb l = false -> nth_error (heap st) l = nth_error h0 l.

  Lemma fmem_In p F : fmem p F = true <-> In p F.
  Proof.
    unfold fmem. rewrite existsb_exists. split.
    - intros (q & Hq & E). apply path_eqb_eq in E. now subst.
    - intro H. exists p. split; [assumption|now apply path_eqb_eq].
  Qed.

  Lemma fmem_fdrop p q F : fmem q (fdrop p F) = true -> fmem q F = true /\ is_prefix p q = false.
  Proof.
    rewrite !fmem_In. unfold fdrop. rewrite filter_In. intros [H1 H2]. split; [assumption|].
    now apply negb_true_iff in H2.
  Qed.

  Lemma is_prefix_refl p : is_prefix p p = true.
  Proof. induction p as [|s p IH]; cbn; [reflexivity|]. now rewrite String.eqb_refl. Qed.

  Lemma Inv_sub n0 F G st : fsub G F = true -> Inv n0 F st -> Inv n0 G st.
  Proof.
    intros Hs HI p Hp. apply HI. unfold fsub in Hs. rewrite forallb_forall in Hs.
    apply Hs. now apply fmem_In.
  Qed.

  Lemma finter_sub_l A B : fsub (finter A B) A = true.
  Proof.
    unfold fsub, finter. apply forallb_forall. intros q Hq. apply filter_In in Hq. now apply fmem_In.
  Qed.
  Lemma finter_sub_r A B : fsub (finter A B) B = true.
  Proof.
    unfold fsub, finter. apply forallb_forall. intros q Hq. apply filter_In in Hq. tauto.
  Qed.

  Lemma nth_error_set_obj_other h l l' v : l <> l' -> nth_error (set_obj h l v) l' = nth_error h l'.
  Proof.
    revert l l'. induction h as [|x h IH]; intros [|l] [|l'] H; cbn; try reflexivity; try lia. apply IH. lia.
  Qed.
  Lemma length_set_obj h l v : length (set_obj h l v) = length h.
  Proof. revert l. induction h as [|x h IH]; intros [|l]; cbn; auto. Qed.

  Lemma Inv_upd_fresh n0 F st p l h :
    n0 <= l -> Inv n0 F st -> Inv n0 (p :: fdrop p F) (mkState h (upd_env (env st) p l)).
  Proof.
    intros Hl HI q Hq. cbn [env]. unfold upd_env. destruct (path_eqb q p) eqn:E; [assumption|].
    cbn [fmem existsb] in Hq. rewrite E in Hq. cbn in Hq. apply fmem_fdrop in Hq. now apply HI.
  Qed.

  Lemma Inv_upd_drop n0 F st p l h :
    Inv n0 F st -> Inv n0 (fdrop p F) (mkState h (upd_env (env st) p l)).
  Proof.
    intros HI q Hq. cbn [env]. apply fmem_fdrop in Hq. destruct Hq as [Hq Hp]. unfold upd_env.
    destruct (path_eqb q p) eqn:E.
    - apply path_eqb_eq in E. subst. now rewrite is_prefix_refl in Hp.
    - now apply HI.
  Qed.

  Theorem chk_sound n0 h0 :
    forall fuel,
      (forall s F F' st st', chk fuel s F = Some F' -> exec s st st' ->
         Inv n0 F st -> frame n0 h0 st -> Inv n0 F' st' /\ frame n0 h0 st') /\
      (forall l F F' st st', chks fuel l F = Some F' -> execs l st st' ->
         Inv n0 F st -> frame n0 h0 st -> Inv n0 F' st' /\ frame n0 h0 st').
  Proof.
    induction fuel as [|n [IHs IHl]]; [split; intros; discriminate|].
    split.
    - intros s F F' st st' HC HX HI [HF1 HF2]. destruct s; cbn [chk] in HC.
      + (* IAlloc *) injection HC as <-. inversion HX; subst. split.
        * apply Inv_upd_fresh; [lia|assumption].
        * split; cbn [heap]; [rewrite app_length; lia|]. intros l Hl Hs. rewrite nth_error_app1 by lia. now apply HF2.
      + (* IClobber *) injection HC as <-. inversion HX as [|? ? e' Ha| | | | | | | | | |]; subst. split.
        * intros q Hq. cbn [env]. apply fmem_fdrop in Hq. destruct Hq as [Hq Hp]. rewrite (Ha q Hp). now apply HI.
        * split; assumption.
      + (* IAssign *) inversion HX; subst. destruct (fmem q F) eqn:E; injection HC as <-; split;
          try (split; assumption).
        * apply Inv_upd_fresh; [now apply HI|assumption].
        * now apply Inv_upd_drop.
      + (* IAppend *) destruct (fmem q F) eqn:E; [|discriminate]. injection HC as <-.
        pose proof (HI q E) as Hq. inversion HX; subst.
        * split; [apply Inv_upd_fresh; assumption|].
          split; cbn [heap]; [now rewrite length_set_obj|].
          intros l Hl Hs. rewrite nth_error_set_obj_other by lia. now apply HF2.
        * split; [apply Inv_upd_fresh; [lia|assumption]|].
          split; cbn [heap]; [rewrite app_length; lia|]. intros l Hl Hs. rewrite nth_error_app1 by lia. now apply HF2.
      + (* IWrite *) destruct (fmem p F) eqn:E; [|discriminate]. injection HC as <-.
        pose proof (HI p E) as Hp. inversion HX; subst. split; [exact HI|].
        split; cbn [heap]; [now rewrite length_set_obj|].
        intros l Hl Hs. rewrite nth_error_set_obj_other by lia. now apply HF2.
      + (* INop *) injection HC as <-. inversion HX; subst. split; [exact HI|].
        split; cbn [heap]; [rewrite app_length; lia|]. intros l Hl Hs. rewrite nth_error_app1 by lia. now apply HF2.
      + (* ISbCall *) injection HC as <-. inversion HX as [| | | | | | |? h' ext Hlen Hsame| | | |]; subst. split; [exact HI|].
        split; cbn [heap]; [rewrite app_length; lia|].
        intros l Hl Hs. rewrite nth_error_app1 by lia. rewrite (Hsame l Hs). now apply HF2.
      + (* IIf *) destruct (chks n a F) as [A|] eqn:EA; [|discriminate]. destruct (chks n b F) as [B|] eqn:EB; [|discriminate].
        injection HC as <-. inversion HX; subst.
        * destruct (IHl a F A st st' EA H3 HI (conj HF1 HF2)) as [I1 I2]. split; [|assumption].
          eapply Inv_sub; [apply finter_sub_l|eassumption].
        * destruct (IHl b F B st st' EB H3 HI (conj HF1 HF2)) as [I1 I2]. split; [|assumption].
          eapply Inv_sub; [apply finter_sub_r|eassumption].
      + (* ILoop *)
        assert (Hiter : forall k Fi Fr, loop_iter (chks n body) k Fi = Some Fr ->
                   fsub Fr Fi = true /\ exists G, chks n body Fr = Some G /\ fsub Fr G = true).
        { induction k as [|k IHk]; intros Fi Fr Hk; cbn [loop_iter] in Hk; [discriminate|].
          destruct (chks n body Fi) as [G|] eqn:EG; [|discriminate].
          destruct (fsub Fi G) eqn:ES.
          - injection Hk as <-. split; [|now exists G].
            unfold fsub. apply forallb_forall. intros q Hq. now apply fmem_In.
          - destruct (IHk _ _ Hk) as [H1 H2]. split; [|assumption].
            unfold fsub in *. rewrite forallb_forall in *. intros q Hq. specialize (H1 q Hq).
            apply fmem_In in H1. apply fmem_In. unfold finter in H1. apply filter_In in H1. tauto. }
        destruct (Hiter _ _ _ HC) as [Hsub (G & EG & HG)].
        assert (HIr : Inv n0 F' st) by exact (Inv_sub n0 F F' st Hsub HI).
        clear HC Hiter HI Hsub.
        remember (ILoop body) as L eqn:EL. revert HIr HF1 HF2.
        induction HX; try discriminate; intros HIr HF1 HF2.
        * split; [assumption|split; assumption].
        * injection EL as EL'. subst body0.
          destruct (IHl body F' G st st1 EG H HIr (conj HF1 HF2)) as [I1 [I2 I3]].
          apply IHHX; [reflexivity| |assumption|assumption].
          exact (Inv_sub n0 G F' st1 HG I1).
      + discriminate.
    - intros l F F' st st' HC HX HI HF. destruct l as [|s r]; cbn [chks] in HC.
      + injection HC as <-. inversion HX; subst. split; assumption.
      + destruct (chk n s F) as [F1|] eqn:E1; [|discriminate].
        inversion HX as [|? ? ? stm ? Hx1 Hx2]; subst.
        destruct (IHs s F F1 st stm E1 Hx1 HI HF) as [I1 I2].
        now apply (IHl r F1 F' stm st').
  Qed.

  (* a function body accepted from the empty fresh set never changes an object that existed at entry *)
  Corollary safe_sound fuel body F' st st' :
    chks fuel body [] = Some F' -> execs body st st' ->
    forall l, l < length (heap st) -> is_sb l = false -> nth_error (heap st') l = nth_error (heap st) l.
  Proof.
    intros HC HX l Hl Hs.
    destruct (chk_sound (length (heap st)) (heap st) fuel) as [_ H].
    destruct (H body [] F' st st' HC HX) as [_ [_ HF]].
    - intros p Hp. discriminate.
    - split; [lia|reflexivity].
    - now apply HF.
  Qed.
End Sem.
