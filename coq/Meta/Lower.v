(* Lowering of the generated Go AST (Meta/GoAst.v) to the effect IR (Meta/EffectIR.v), conservative
   by construction: whatever is not recognised becomes IUnknown, which the checker never accepts.
   Reads never appear; what matters is which object every write can reach. *)
From Coq Require Import String List Bool.
From QRB Require Import Meta.GoAst Meta.Cond Meta.SetSelf Meta.Wrappers Meta.EffectIR.
Import ListNotations.
Local Open Scope string_scope.

Definition is_ref_kind (k : string) : bool := String.eqb k "slice" || String.eqb k "map" || String.eqb k "ptr".
Definition is_value_kind (k : string) : bool := String.eqb k "basic" || String.eqb k "func" || String.eqb k "nil".

Fixpoint expr_kind (e : gexpr) : string :=
  match e with
  | GIdent _ k _ | GSel _ _ k | GCall _ _ _ k | GIndex _ _ k | GSlice _ k | GComposite _ _ k => k
  | GParen x => expr_kind x
  | GUn op _ => if String.eqb op "&" then "ptr" else "basic"
  | GLit _ _ | GBin _ _ _ => "basic"
  | GFuncLit _ => "func"
  | _ => "unknown"
  end.

(* the access path an expression denotes (dereferences are transparent: *p and p name the same object) *)
Fixpoint path_of (e : gexpr) : option path :=
  match e with
  | GIdent x _ _ => Some [x]
  | GSel x f _ => option_map (fun p => (p ++ [f])%list) (path_of x)
  | GParen x | GStar x | GSlice x _ => path_of x
  | _ => None
  end.

Definition local_cls (c : string) : bool := String.eqb c "local" || String.eqb c "param" || String.eqb c "recv".

Inductive wt :=
| WLocal (p : path) (k : string)      (* a local variable, or a field of a local struct value *)
| WHeap (p : path)                    (* a write into the object p refers to *)
| WBad.

Fixpoint wtarget (e : gexpr) : wt :=
  match e with
  | GIdent x k c => if local_cls c then WLocal [x] k else if String.eqb x "_" then WLocal ["_"] k else WBad
  | GParen x => wtarget x
  | GSel x f k =>
      let kx := expr_kind x in
      if String.eqb kx "struct" then
        match wtarget x with
        | WLocal p _ => WLocal (p ++ [f])%list k
        | w => w
        end
      else if String.eqb kx "ptr" then match path_of x with Some p => WHeap p | None => WBad end
      else WBad
  | GIndex x _ _ => match path_of x with Some p => WHeap p | None => WBad end
  | GStar x => match path_of x with Some p => WHeap p | None => WBad end
  | _ => WBad
  end.

Definition is_fresh_expr (e : gexpr) : bool :=
  match e with
  | GComposite _ _ _ => true
  | GUn "&" _ => true
  | GCall (GIdent f _ _) _ _ _ => String.eqb f "make" || String.eqb f "new"
  | GCall (GSel _ m _) _ _ _ => String.eqb m "cloneSlice" || String.eqb m "clone"
  | GCall (GIndex (GIdent f _ _) _ _) _ _ _ => String.eqb f "make"
  | _ => false
  end.

Section Lower.
  Variable fs : list gfunc.            (* all analysed functions: to know which method names have pointer receivers *)
  Variable self : gfunc.
  (* call summaries: for a function / value-receiver method name, the access paths of its first result that point to
     objects allocated during the call (computed below from the callee's own accepted analysis, one level deep) *)
  Variable summ : string -> list path.

  Definition callee_name (f : gexpr) : option string :=
    match f with
    | GSel _ m mk => if String.eqb mk "mval" then Some m else None
    | GIdent g _ c => if String.eqb c "func" then Some g else None
    | _ => None
    end.
  (* what a call leaves in the variable that receives its first result *)
  Definition result_allocs (r : gexpr) (p : path) : list istmt :=
    match r with
    | GCall f _ _ _ => match callee_name f with Some g => map (fun suf => IAlloc (p ++ suf)%list) (summ g) | None => [] end
    | _ => []
    end.

  (* a method name is "value only" if no analysed function with that name has a pointer receiver *)
  Definition value_only_method (m : string) : bool :=
    existsb (fun f => String.eqb (fn_name f) m && negb (String.eqb (fn_recv f) "")) fs &&
    negb (existsb (fun f => String.eqb (fn_name f) m && fn_recv_ptr f) fs).

  Definition sb_param (x : string) : bool :=
    existsb (fun p => String.eqb (pa_name p) x && str_contains "SQLBuilder" (pa_type p)) (fn_params self).

  (* variables that hold the render-local SQLBuilder or one of its own objects: *SQLBuilder parameters,
     locals initialised from newSqlBuilder(...), and locals assigned from a field of such a variable *)
  Definition sb_vars1 : list string :=
    map pa_name (filter (fun p => str_contains "SQLBuilder" (pa_type p)) (fn_params self)) ++
    flat_map (fun s => match s with
                       | GAssign [GIdent x _ _] _ [GCall (GIdent "newSqlBuilder" _ _) _ _ _] => [x]
                       | _ => []
                       end) (fn_body self).
  Definition sb_vars2 : list string :=
    sb_vars1 ++
    flat_map (fun s => match s with
                       | GAssign [GIdent x _ _] _ [GSel (GIdent r _ _) _ _] => if mem_str r sb_vars1 then [x] else []
                       | _ => []
                       end) (fn_body self).
  Definition sb_derived (x : string) : bool := mem_str x sb_vars2.

  Definition readonly_pkg (p : string) : bool :=
    mem_str p ["fmt"; "errors"; "strings"; "strconv"; "regexp"; "builder"; "qrb"; "fn"; "context"].

  Definition append_effect (q : gexpr) (target : path) : list istmt :=
    if is_fresh_expr q then [IAlloc target]
    else match path_of q with Some p => [IAppend target p] | None => [IUnknown] end.

  Fixpoint effects (fuel : nat) (e : gexpr) {struct fuel} : list istmt :=
    match fuel with
    | O => [IUnknown]
    | S n =>
        let sub := effects n in
        match e with
        | GCall f args _ _ =>
            flat_map sub args ++
            match f with
            | GIdent g _ c =>
                if String.eqb c "builtin" then
                  if String.eqb g "copy" then
                    match args with d :: _ => match path_of d with Some p => [IWrite p] | None => [IUnknown] end | [] => [IUnknown] end
                  else if String.eqb g "append" then
                    match args with q :: _ => if is_fresh_expr q then [] else append_effect q ["$tmp"] | [] => [] end
                  else if String.eqb g "delete" then
                    match args with d :: _ => match path_of d with Some p => [IWrite p] | None => [IUnknown] end | [] => [IUnknown] end
                  else []
                else if String.eqb g "cloneSlice" then
                  match args with
                  | GUn "&" t :: _ => match wtarget t with WLocal p _ => [IAlloc p] | _ => [IUnknown] end
                  | _ => [IUnknown]
                  end
                else if String.eqb c "func" || String.eqb c "type" || local_cls c then [INop]
                else [IUnknown]
            | GIndex (GIdent g _ c) _ _ => if String.eqb c "func" || String.eqb c "builtin" then [INop] else [IUnknown]
            | GSel x m _ =>
                match x with
                | GIdent p _ "pkg" =>
                    if String.eqb p "sort" then
                      match args with d :: _ => match path_of d with Some q => [IWrite q] | None => [IUnknown] end | [] => [IUnknown] end
                    else if readonly_pkg p then [INop] else [IUnknown]
                | _ =>
                    sub x ++
                    (* the selected method: value receiver (mval), pointer receiver (mptr), interface (miface) *)
                    match f with
                    | GSel _ _ mk =>
                        if String.eqb mk "mval" then [INop]
                        else if String.eqb mk "miface" then
                          (* dynamic dispatch: every implementation in the analysed packages with that name
                             has a value receiver (SQLWriter.WriteSQL, Precedencer.Precedence ...) *)
                          (if value_only_method m then [INop] else [IUnknown])
                        else if String.eqb mk "mptr" then
                          match x with
                          | GIdent r _ _ => if sb_derived r then [ISbCall]
                                            else if String.eqb m "MatchString" then [INop] else [IUnknown]
                          | GSel (GIdent r _ _) _ _ => if sb_derived r then [ISbCall] else [IUnknown]
                          | _ => [IUnknown]
                          end
                        else if String.eqb mk "func" then [INop]     (* a func-typed field being called *)
                        else [IUnknown]
                    | _ => [IUnknown]
                    end
                end
            | GFuncLit body => [IUnknown]
            | GParen g => sub g ++ [INop]
            | GTypeExpr _ => []
            | _ => [IUnknown]
            end
        | GBin _ a b => sub a ++ sub b
        | GUn _ a | GStar a | GParen a | GSlice a _ | GSel a _ _ => sub a
        | GTypeAssert a _ => sub a
        | GIndex a i _ => sub a ++ sub i
        | GKV a b => sub a ++ sub b
        | GComposite _ l _ => flat_map sub l
        | GFuncLit body => [IIf (lower_stmts n body) []]
        | _ => []
        end
    end
  with lower_assign (fuel : nat) (l r : gexpr) {struct fuel} : list istmt :=
    match fuel with
    | O => [IUnknown]
    | S n =>
        match wtarget l with
        | WBad => [IUnknown]
        | WHeap p => effects n r ++ [match p with x :: _ => if sb_derived x then ISbCall else IWrite p | [] => IUnknown end]
        | WLocal p k =>
            if is_ref_kind k then
              match r with
              | GCall (GIdent "append" _ _) (q :: rest) _ _ => flat_map (effects n) rest ++ append_effect q p
              | _ =>
                  effects n r ++
                  (if is_fresh_expr r then [IAlloc p]
                   else match path_of r with
                        | Some q => if is_ref_kind (expr_kind r) then [IAssign p q] else [IClobber p]
                        | None => [IClobber p]
                        end)
              end
            else if is_value_kind k then effects n r ++ [INop]
            else effects n r ++ [IClobber p] ++ result_allocs r p
        end
    end
  with lower_stmt (fuel : nat) (s : gstmt) {struct fuel} : list istmt :=
    match fuel with
    | O => [IUnknown]
    | S n =>
        match s with
        | GAssign lhs _ rhs =>
            if Nat.eqb (length lhs) (length rhs)
            then flat_map (fun p => lower_assign n (fst p) (snd p)) (combine lhs rhs)
            else flat_map (effects n) rhs ++
                 flat_map (fun l => match wtarget l with
                                    | WLocal p k => if is_value_kind k then [INop] else [IClobber p]
                                    | WHeap p => [IWrite p]
                                    | WBad => [IUnknown]
                                    end) lhs ++
                 (* x, i, j := recv.helper(): what the helper's analysis says about its first result *)
                 match lhs, rhs with
                 | l0 :: _, [r] => match wtarget l0 with
                                   | WLocal p k => if is_value_kind k then [] else result_allocs r p
                                   | _ => []
                                   end
                 | _, _ => []
                 end
        | GIf init c thn els =>
            lower_stmts n init ++ effects n c ++ [IIf (lower_stmts n thn) (lower_stmts n els)]
        | GReturn rs => flat_map (effects n) rs
        | GExprStmt e => effects n e
        | GFor init c post body =>
            lower_stmts n init ++
            [ILoop (match c with Some e => effects n e | None => [] end ++ lower_stmts n body ++ lower_stmts n post)]
        | GRange k v _ x body =>
            effects n x ++
            [ILoop ((match k with Some (GIdent a kk _) => if is_value_kind kk then [] else [IClobber [a]] | _ => [] end) ++
                    (match v with Some (GIdent a kk _) => if is_value_kind kk then [] else [IClobber [a]] | _ => [] end) ++
                    lower_stmts n body)]
        | GVarDecl names _ vals =>
            flat_map (effects n) vals ++ map (fun x => IClobber [x]) names
        | GIncDec x _ => match wtarget x with WLocal _ _ => [INop] | WHeap p => [IWrite p] | WBad => [IUnknown] end
        | GBlock body => lower_stmts n body
        | GSwitch _ body => [IIf (lower_stmts n body) []]
        | GOtherS _ => [IUnknown]
        end
    end
  with lower_stmts (fuel : nat) (l : list gstmt) {struct fuel} : list istmt :=
    match fuel with
    | O => [IUnknown]
    | S n => flat_map (lower_stmt n) l
    end.

  Definition lower_fn : list istmt := lower_stmts 40 (fn_body self).
End Lower.

Definition analysed_pkg (f : gfunc) : bool :=
  String.eqb (fn_pkg f) "builder" || String.eqb (fn_pkg f) "fn" || String.eqb (fn_pkg f) "qrb".

(* ---------------------------------------------------------------- call summaries (one level) *)
Fixpoint has_return (fuel : nat) (l : list gstmt) : bool :=
  match fuel with
  | O => true
  | S n => existsb (fun s => match s with
                             | GReturn _ => true
                             | GIf i _ t e => has_return n i || has_return n t || has_return n e
                             | GFor i _ p b => has_return n i || has_return n p || has_return n b
                             | GRange _ _ _ _ b | GBlock b | GSwitch _ b => has_return n b
                             | _ => false
                             end) l
  end.

(* the variable returned as first result by the one and only, final return statement *)
Definition ret_var (f : gfunc) : option string :=
  match rev (fn_body f) with
  | GReturn (GIdent x _ _ :: _) :: before => if has_return 40 before then None else Some x
  | _ => None
  end.

Definition no_summ (_ : string) : list path := [].

(* paths below the returned variable that the callee's own (summary-free) analysis knows to be fresh at its end *)
Definition summary_of (fs : list gfunc) (f : gfunc) : list path :=
  match ret_var f, chks 200 (lower_fn fs f no_summ) [] with
  | Some x, Some F => flat_map (fun q => match q with y :: suf => if String.eqb x y then [suf] else [] | [] => [] end) F
  | _, _ => []
  end.

Definition analysed_pkg0 (f : gfunc) : bool :=
  String.eqb (fn_pkg f) "builder" || String.eqb (fn_pkg f) "fn" || String.eqb (fn_pkg f) "qrb".

(* calls are resolved by name only: what all analysed functions / value-receiver methods of that name agree on *)
Definition summ_table (fs : list gfunc) : list (string * list path) :=
  let cands := filter (fun f => analysed_pkg0 f && negb (fn_recv_ptr f)) fs in
  map (fun f =>
         let same := filter (fun g => String.eqb (fn_name g) (fn_name f)) cands in
         (fn_name f,
          match map (summary_of fs) same with
          | [] => []
          | s0 :: rest => fold_left (fun acc s1 => filter (fun q => existsb (path_eqb q) s1) acc) rest s0
          end))
      (filter (fun f => match ret_var f with Some _ => true | None => false end) cands).

Definition summ_lookup (tbl : list (string * list path)) (g : string) : list path :=
  match find (fun e => String.eqb (fst e) g) tbl with Some e => snd e | None => [] end.

Definition fn_safe_with (fs : list gfunc) (tbl : list (string * list path)) (f : gfunc) : bool :=
  match chks 200 (lower_fn fs f (summ_lookup tbl)) [] with Some _ => true | None => false end.

Definition fn_safe (fs : list gfunc) (f : gfunc) : bool := fn_safe_with fs (summ_table fs) f.

(* cloneSlice is the one primitive that writes through a pointer parameter; its body is checked against
   a template:  *dst = make([]T, len(src), len(src)+additionalCapacity); copy( *dst, src)  *)
Definition clone_slice_ok (fs : list gfunc) : bool :=
  match find_func fs "builder" "" "cloneSlice" with
  | Some f =>
      match fn_params f, fn_body f with
      | [d; s; _], [GAssign [GStar (GIdent d1 _ _)] "=" [GCall (GIdent "make" _ _)
                                                           [_; GCall (GIdent "len" _ _) [GIdent s1 _ _] false _; _] false _];
                    GExprStmt (GCall (GIdent "copy" _ _) [GStar (GIdent d2 _ _); GIdent s2 _ _] false _)] =>
          String.eqb d1 (pa_name d) && String.eqb d2 (pa_name d) && String.eqb s1 (pa_name s) && String.eqb s2 (pa_name s)
      | _, _ => false
      end
  | None => false
  end.

(* every function and every method with a value receiver of the three library packages *)
Definition value_fn (f : gfunc) : bool :=
  analysed_pkg f && negb (fn_recv_ptr f) && negb (String.eqb (fn_name f) "cloneSlice" && String.eqb (fn_recv f) "").

Definition unsafe_value_fns (fs : list gfunc) : list (string * string * string) :=
  let tbl := summ_table fs in
  map (fun f => (fn_pkg f, fn_recv f, fn_name f)) (filter (fun f => value_fn f && negb (fn_safe_with fs tbl f)) fs).

Definition all_value_fns_safe (fs : list gfunc) : bool :=
  match unsafe_value_fns fs with [] => true | _ => false end.

(* the receivers that are pointers: the render handle, the SQL builder, the JSON batch builder and the
   in-place setter of the slice map *)
Definition ptr_receivers (fs : list gfunc) : list string :=
  nodup string_dec (map fn_recv (filter (fun f => analysed_pkg f && fn_recv_ptr f) fs)).
Definition ptr_receivers_expected : list string :=
  ["JsonBuildObjectBuilderBuilder"; "QueryBuilder"; "SQLBuilder"; "immutableSliceMap"].
Definition ptr_census_ok (fs : list gfunc) : bool :=
  forallb (fun r => mem_str r ptr_receivers_expected) (ptr_receivers fs) &&
  (* of the slice map only mutatingSet has a pointer receiver *)
  forallb (fun f => negb (analysed_pkg f && fn_recv_ptr f && String.eqb (fn_recv f) "immutableSliceMap") ||
                    String.eqb (fn_name f) "mutatingSet") fs.

(* ---- C10: no package-level variable is ever written by a function *)
Fixpoint writes_global_e (fuel : nat) (e : gexpr) : bool :=
  match fuel with
  | O => true
  | S n =>
      match e with
      | GFuncLit body => existsb (writes_global_s n) body
      | GCall f args _ _ => writes_global_e n f || existsb (writes_global_e n) args
      | GBin _ a b | GKV a b | GIndex a b _ => writes_global_e n a || writes_global_e n b
      | GUn op a =>
          (* taking the address of a package-level variable would allow writing it elsewhere *)
          (String.eqb op "&" && match a with GIdent _ _ c => String.eqb c "global" | _ => false end) || writes_global_e n a
      | GStar a | GParen a | GSlice a _ | GSel a _ _ | GTypeAssert a _ => writes_global_e n a
      | GComposite _ l _ => existsb (writes_global_e n) l
      | _ => false
      end
  end
with writes_global_s (fuel : nat) (s : gstmt) : bool :=
  match fuel with
  | O => true
  | S n =>
      let root_global := fix rg (e : gexpr) : bool :=
        match e with
        | GIdent _ _ c => String.eqb c "global"
        | GSel x _ _ | GIndex x _ _ | GParen x | GStar x | GSlice x _ => rg x
        | _ => false
        end in
      match s with
      | GAssign lhs _ rhs => existsb root_global lhs || existsb (writes_global_e n) rhs
      | GIncDec x _ => root_global x
      | GIf i c t e => existsb (writes_global_s n) i || writes_global_e n c || existsb (writes_global_s n) t || existsb (writes_global_s n) e
      | GReturn l => existsb (writes_global_e n) l
      | GExprStmt e =>
          writes_global_e n e ||
          (* in-place builtins / sort on a package-level variable *)
          match e with
          | GCall (GIdent g _ _) (d :: _) _ _ => (String.eqb g "copy" || String.eqb g "delete") && root_global d
          | GCall (GSel (GIdent "sort" _ _) _ _) (d :: _) _ _ => root_global d
          | _ => false
          end
      | GFor i c p b => existsb (writes_global_s n) i || existsb (writes_global_s n) p || existsb (writes_global_s n) b ||
                        match c with Some e => writes_global_e n e | None => false end
      | GRange _ _ _ x b => writes_global_e n x || existsb (writes_global_s n) b
      | GVarDecl _ _ vals => existsb (writes_global_e n) vals
      | GBlock b | GSwitch _ b => existsb (writes_global_s n) b
      | GOtherS _ => true
      end
  end.

Definition no_global_writes (fs : list gfunc) : bool :=
  forallb (fun f => negb (analysed_pkg f) || negb (existsb (writes_global_s 40) (fn_body f))) fs.

(* the SQLBuilder is allocated in writeToSQLString and never stored anywhere: no assignment whose
   right-hand side is a *SQLBuilder parameter *)
Definition stores_sb (f : gfunc) : bool :=
  let sbp x := existsb (fun p => String.eqb (pa_name p) x && str_contains "SQLBuilder" (pa_type p)) (fn_params f) in
  let fix st (fuel : nat) (s : gstmt) : bool :=
    match fuel with
    | O => true
    | S n =>
        match s with
        | GAssign _ _ rhs => existsb (fun e => match e with GIdent x _ _ => sbp x | GUn _ (GIdent x _ _) => sbp x | _ => false end) rhs
        | GIf i _ t e => existsb (st n) i || existsb (st n) t || existsb (st n) e
        | GFor i _ p b => existsb (st n) i || existsb (st n) p || existsb (st n) b
        | GRange _ _ _ _ b | GBlock b | GSwitch _ b => existsb (st n) b
        | GReturn rs => existsb (fun e => match e with GIdent x _ _ => sbp x | _ => false end) rs
        | _ => false
        end
    end in
  existsb (st 30) (fn_body f).

Definition sb_local_ok (fs : list gfunc) : bool :=
  forallb (fun f => negb (analysed_pkg f) || negb (stores_sb f)) fs &&
  match find_func fs "builder" "" "writeToSQLString" with
  | Some f => match fn_body f with
              | GAssign [GIdent sb _ _] ":=" [GCall (GIdent "newSqlBuilder" _ _) _ false _] :: _ => true
              | _ => false
              end
  | None => false
  end &&
  match find_func fs "builder" "" "newSqlBuilder" with
  | Some f => match fn_body f with [GReturn [GUn "&" (GComposite _ _ _)]] => true | _ => false end
  | None => false
  end.

(* the JSON batch builder is the one mutable object besides the render handle; End() must hand out a
   copy of its entries:  props := make(..., len(bb.builder)); copy(props, bb.builder); return T{..., props: props} *)
Definition batch_end_copies (fs : list gfunc) : bool :=
  match find_func fs "builder" "JsonBuildObjectBuilderBuilder" "End" with
  | Some f =>
      match fn_body f with
      | [GAssign [GIdent p _ _] ":=" [GCall (GIdent "make" _ _) _ false _];
         GExprStmt (GCall (GIdent "copy" _ _) [GIdent p1 _ _; GSel (GIdent r _ _) "builder" _] false _);
         GReturn [GComposite _ elts _]] =>
          String.eqb p p1 && String.eqb r (fn_recv_name f) &&
          existsb (fun e => match e with GKV (GIdent "props" _ _) (GIdent p2 _ _) => String.eqb p2 p | _ => false end) elts
      | _ => false
      end
  | None => false
  end &&
  (* and Start() clones before the in-place updates begin *)
  match find_func fs "builder" "JsonBuildObjectBuilder" "Start" with
  | Some f =>
      match fn_body f with
      | [GReturn [GUn "&" (GComposite _ elts _)]] =>
          existsb (fun e => match e with
                            | GKV (GIdent "builder" _ _) (GCall (GSel (GSel (GIdent r _ _) "props" _) "clone" _) [] false _) =>
                                String.eqb r (fn_recv_name f)
                            | _ => false end) elts
      | _ => false
      end
  | None => false
  end.
