(* C19: an interpreter for the small Go fragment the conditional combinators are written in
   (if / && / != nil / call of the function parameter / method call on the receiver / return), run on
   the generated AST of the five bodies, and the template of the nil filter used by And / Or. *)
From Coq Require Import String List Bool.
From QRB Require Import Meta.GoAst.
Import ListNotations.
Local Open Scope string_scope.

Definition find_func (fs : list gfunc) (pkg recv name : string) : option gfunc :=
  find (fun f => String.eqb (fn_pkg f) pkg && String.eqb (fn_recv f) recv && String.eqb (fn_name f) name) fs.

(* what a call in the body does, in terms of the function's own parameters *)
Inductive action :=
| ARecv                                   (* the receiver itself *)
| AApply                                  (* fn(receiver): the function parameter applied to the receiver *)
| AMethod (name : string) (args : list string)   (* receiver.name(params...) *)
| AUnknown.

Definition action_eqb (a b : action) : bool :=
  match a, b with
  | ARecv, ARecv | AApply, AApply => true
  | AMethod n l, AMethod m k => String.eqb n m && (fix eq (x y : list string) :=
                                  match x, y with
                                  | [], [] => true
                                  | a :: x', b :: y' => String.eqb a b && eq x' y'
                                  | _, _ => false end) l k
  | _, _ => false
  end.

Section Interp.
  Variable recv : string.                 (* receiver name *)
  Variable condp : string.                (* the bool parameter *)
  Variable fnp : option string.           (* the func parameter, if any *)
  Variable cond : bool.                   (* its value *)
  Variable fn_nonnil : bool.              (* whether the func argument is non-nil *)

  Definition is_id (e : gexpr) (n : string) : bool :=
    match e with GIdent m _ _ => String.eqb m n | _ => false end.

  Fixpoint eval_bool (e : gexpr) : option bool :=
    match e with
    | GIdent n _ _ => if String.eqb n condp then Some cond else None
    | GParen x => eval_bool x
    | GBin "&&" a b => match eval_bool a, eval_bool b with Some x, Some y => Some (x && y) | _, _ => None end
    | GBin "!=" (GIdent n _ _) (GIdent "nil" _ _) =>
        match fnp with Some f => if String.eqb n f then Some fn_nonnil else None | None => None end
    | _ => None
    end.

  Definition arg_names (l : list gexpr) : option (list string) :=
    fold_right (fun e acc => match e, acc with GIdent n _ _, Some r => Some (n :: r) | _, _ => None end) (Some []) l.

  Definition eval_action (e : gexpr) : action :=
    match e with
    | GIdent n _ _ => if String.eqb n recv then ARecv else AUnknown
    | GCall (GIdent f _ _) [a] false _ =>
        match fnp with
        | Some fname => if String.eqb f fname && is_id a recv then AApply else AUnknown
        | None => AUnknown
        end
    | GCall (GSel (GIdent r _ _) m _) args false _ =>
        if String.eqb r recv then match arg_names args with Some l => AMethod m l | None => AUnknown end
        else AUnknown
    | _ => AUnknown
    end.

  (* effects performed, then the returned value; None = outside the fragment *)
  Fixpoint exec (fuel : nat) (body : list gstmt) (effects : list action) : option (list action * action) :=
    match fuel with
    | O => None
    | S fuel' =>
        match body with
        | [] => None                                      (* falls off the end: not a value-returning body *)
        | GReturn [e] :: _ => Some (effects, eval_action e)
        | GIf [] c thn [] :: rest =>
            match eval_bool c with
            | Some true => exec fuel' (thn ++ rest) effects
            | Some false => exec fuel' rest effects
            | None => None
            end
        | GExprStmt e :: rest => exec fuel' rest (effects ++ [eval_action e])
        | _ => None
        end
    end.
End Interp.

Record cond_spec := mkCondSpec {
  cs_pkg : string; cs_recv : string; cs_name : string;
  cs_fn_param : bool;                     (* has a func parameter (ApplyIf) rather than key/value (PropIf) *)
  cs_nil_guard : bool;                    (* a nil function is tolerated (returns the receiver) *)
  cs_in_place : bool                      (* pointer receiver: the set is an effect, the receiver is returned *)
}.

Definition first_param_name (f : gfunc) : string := match fn_params f with p :: _ => pa_name p | [] => "" end.
Definition rest_param_names (f : gfunc) : list string := match fn_params f with _ :: r => map pa_name r | [] => [] end.

(* the if/else law for one body, for all four combinations of condition and nil-ness *)
Definition cond_ok (fs : list gfunc) (s : cond_spec) : bool :=
  match find_func fs (cs_pkg s) (cs_recv s) (cs_name s) with
  | None => false
  | Some f =>
      let recv := fn_recv_name f in
      let condp := first_param_name f in
      let rest := rest_param_names f in
      let fnp := if cs_fn_param s then match rest with [x] => Some x | _ => None end else None in
      let run c nn := exec recv condp fnp c nn 20 (fn_body f) [] in
      let want_true :=
        if cs_fn_param s then Some ([], AApply)
        else if cs_in_place s then Some ([AMethod "Prop" rest], ARecv)
        else Some ([], AMethod "Prop" rest) in
      let same (a b : option (list action * action)) :=
        match a, b with
        | Some (e1, r1), Some (e2, r2) =>
            action_eqb r1 r2 && Nat.eqb (length e1) (length e2) && forallb (fun p => action_eqb (fst p) (snd p)) (combine e1 e2)
        | _, _ => false
        end in
      (* false condition: receiver, no call at all - whatever the function is *)
      same (run false true) (Some ([], ARecv)) && same (run false false) (Some ([], ARecv)) &&
      (* true condition: exactly the direct application / set *)
      same (run true true) want_true &&
      (if cs_fn_param s then
         if cs_nil_guard s then same (run true false) (Some ([], ARecv)) else same (run true false) want_true
       else true) &&
      negb (cs_fn_param s && negb (match fnp with Some _ => true | None => false end))
  end.

Definition cond_specs : list cond_spec :=
  [ mkCondSpec "builder" "SelectBuilder" "ApplyIf" true true false;
    mkCondSpec "builder" "UpdateBuilder" "ApplyIf" true true false;
    mkCondSpec "builder" "JsonBuildObjectBuilder" "ApplyIf" true false false;
    mkCondSpec "builder" "JsonBuildObjectBuilder" "PropIf" false false false;
    mkCondSpec "builder" "JsonBuildObjectBuilderBuilder" "PropIf" false false true ].

(* every exported method named ApplyIf / PropIf of the tree is one of the five checked ones *)
Definition cond_census_ok (fs : list gfunc) : bool :=
  forallb (fun f =>
             negb (fn_exported f && (String.eqb (fn_name f) "ApplyIf" || String.eqb (fn_name f) "PropIf")) ||
             existsb (fun s => String.eqb (cs_pkg s) (fn_pkg f) && String.eqb (cs_recv s) (fn_recv f) &&
                               String.eqb (cs_name s) (fn_name f)) cond_specs) fs.

(* ---- And / Or: return junctionExp{exps: nonNil(exps), op: "AND"|"OR"} and the filter idiom of nonNil *)
Definition junction_ctor_ok (fs : list gfunc) (name op : string) : bool :=
  match find_func fs "builder" "" name with
  | Some f =>
      match fn_params f, fn_body f with
      | [p], [GReturn [GComposite (GTypeExpr "junctionExp")
                         [GKV (GIdent "exps" _ _) (GCall (GIdent "nonNil" _ _) [GIdent a _ _] false _);
                          GKV (GIdent "op" _ _) (GLit "STRING" o)] _]] =>
          pa_variadic p && String.eqb a (pa_name p) && String.eqb o op
      | _, _ => false
      end
  | None => false
  end.

Definition nonnil_filter_ok (fs : list gfunc) : bool :=
  match find_func fs "builder" "" "nonNil" with
  | Some f =>
      match fn_params f, fn_body f with
      | [p], [GAssign [GIdent r _ _] ":=" [GCall (GIdent "make" _ _) _ false _];
              GRange _ (Some (GIdent x _ _)) ":=" (GIdent src _ _)
                [GIf [] (GBin "!=" (GIdent x1 _ _) (GIdent "nil" _ _))
                   [GAssign [GIdent r1 _ _] "=" [GCall (GIdent "append" _ _) [GIdent r2 _ _; GIdent x2 _ _] false _]] []];
              GReturn [GIdent r3 _ _]] =>
          String.eqb src (pa_name p) && String.eqb x x1 && String.eqb x x2 &&
          String.eqb r r1 && String.eqb r r2 && String.eqb r r3 && negb (String.eqb r src)
      | _, _ => false
      end
  | None => false
  end.
