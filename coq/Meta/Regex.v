(* Regular expressions with Brzozowski derivatives (executable matcher) over an abstract alphabet:
   the 128 ASCII code points individually, and the non-ASCII code points partitioned into the
   minterms of the classes occurring in the two validation patterns (the partition table is generated
   by qrb2coq from the patterns as regexp/syntax parses them).  Definitions only. *)
From Coq Require Import List String Ascii NArith Bool Arith.
From QRB Require Import Base.Bytes.
Import ListNotations.

Inductive sym :=
| SA (c : N)                                   (* an ASCII code point, c < 128 *)
| SM (id : nat).                               (* any non-ASCII code point of minterm id *)

Inductive re :=
| Nul | Eps
| Cls (ascii : list (N * N)) (mts : list nat)  (* inclusive ASCII ranges, minterm ids *)
| Cat (a b : re) | Alt (a b : re) | Star (a : re)
| Rep (a : re) (lo hi : nat).                  (* a{lo,hi} *)

Fixpoint in_ranges (c : N) (rs : list (N * N)) : bool :=
  match rs with
  | [] => false
  | (lo, hi) :: r => ((lo <=? c) && (c <=? hi))%N || in_ranges c r
  end.

Definition in_class (s : sym) (ascii : list (N * N)) (mts : list nat) : bool :=
  match s with
  | SA c => in_ranges c ascii
  | SM id => existsb (Nat.eqb id) mts
  end.

Fixpoint nullable (r : re) : bool :=
  match r with
  | Nul => false | Eps => true | Cls _ _ => false
  | Cat a b => nullable a && nullable b
  | Alt a b => nullable a || nullable b
  | Star _ => true
  | Rep a lo _ => Nat.eqb lo 0 || nullable a
  end.

Fixpoint ranges_eqb (a b : list (N * N)) : bool :=
  match a, b with
  | [], [] => true
  | (x, y) :: a', (u, v) :: b' => N.eqb x u && N.eqb y v && ranges_eqb a' b'
  | _, _ => false
  end.
Fixpoint nats_eqb (a b : list nat) : bool :=
  match a, b with
  | [], [] => true
  | x :: a', y :: b' => Nat.eqb x y && nats_eqb a' b'
  | _, _ => false
  end.

Fixpoint re_eqb (a b : re) : bool :=
  match a, b with
  | Nul, Nul | Eps, Eps => true
  | Cls x m, Cls y n => ranges_eqb x y && nats_eqb m n
  | Cat a1 a2, Cat b1 b2 | Alt a1 a2, Alt b1 b2 => re_eqb a1 b1 && re_eqb a2 b2
  | Star x, Star y => re_eqb x y
  | Rep x l h, Rep y l' h' => re_eqb x y && Nat.eqb l l' && Nat.eqb h h'
  | _, _ => false
  end.

Definition cat (a b : re) : re :=
  match a, b with
  | Nul, _ | _, Nul => Nul
  | Eps, _ => b
  | _, Eps => a
  | _, _ => Cat a b
  end.

(* alternatives are kept as a right-nested, duplicate-free list *)
Fixpoint alt_mem (x : re) (r : re) : bool :=
  match r with
  | Alt a b => re_eqb x a || alt_mem x b
  | _ => re_eqb x r
  end.
Fixpoint alt (a b : re) : re :=
  match a with
  | Nul => b
  | Alt a1 a2 => let r := alt a2 b in
                 match a1 with Nul => r | _ => if alt_mem a1 r then r else match r with Nul => a1 | _ => Alt a1 r end end
  | _ => match b with
         | Nul => a
         | _ => if alt_mem a b then b else Alt a b
         end
  end.

Fixpoint deriv (c : sym) (r : re) : re :=
  match r with
  | Nul | Eps => Nul
  | Cls rs ms => if in_class c rs ms then Eps else Nul
  | Cat a b => if nullable a then alt (cat (deriv c a) b) (deriv c b) else cat (deriv c a) b
  | Alt a b => alt (deriv c a) (deriv c b)
  | Star a => cat (deriv c a) (Star a)
  | Rep a lo hi =>
      match hi with
      | O => Nul
      | S hi' => cat (deriv c a) (Rep a (pred lo) hi')
      end
  end.

Fixpoint matches (r : re) (s : list sym) : bool :=
  match s with
  | [] => nullable r
  | c :: t => matches (deriv c r) t
  end.

(* utf8.DecodeRuneInString, iterated: an invalid or truncated sequence yields U+FFFD and advances
   by one byte *)
Definition rune_error : N := 65533%N.

Definition cont (b : N) (lo hi : N) : bool := ((lo <=? b) && (b <=? hi))%N.

(* one rune and the number of bytes it consumes *)
Definition decode_one (l : list N) : N * nat :=
  match l with
  | [] => (rune_error, 1)
  | b0 :: r =>
      if (b0 <? 128)%N then (b0, 1)
      else
        let bad := (rune_error, 1) in
        let two :=
          match r with
          | b1 :: _ => if cont b1 128 191 then (((b0 - 192) * 64 + (b1 - 128))%N, 2) else bad
          | _ => bad
          end in
        let three (lo hi : N) :=
          match r with
          | b1 :: b2 :: _ =>
              if cont b1 lo hi && cont b2 128 191
              then (((b0 - 224) * 4096 + (b1 - 128) * 64 + (b2 - 128))%N, 3) else bad
          | _ => bad
          end in
        let four (lo hi : N) :=
          match r with
          | b1 :: b2 :: b3 :: _ =>
              if cont b1 lo hi && cont b2 128 191 && cont b3 128 191
              then (((b0 - 240) * 262144 + (b1 - 128) * 4096 + (b2 - 128) * 64 + (b3 - 128))%N, 4) else bad
          | _ => bad
          end in
        if cont b0 194 223 then two
        else if N.eqb b0 224 then three 160%N 191%N
        else if cont b0 225 236 then three 128%N 191%N
        else if N.eqb b0 237 then three 128%N 159%N
        else if cont b0 238 239 then three 128%N 191%N
        else if N.eqb b0 240 then four 144%N 191%N
        else if cont b0 241 243 then four 128%N 191%N
        else if N.eqb b0 244 then four 128%N 143%N
        else bad
  end.

Fixpoint decode_runes_aux (fuel : nat) (l : list N) : list N :=
  match fuel with
  | O => []
  | S fuel' =>
      match l with
      | [] => []
      | _ => let (r, k) := decode_one l in r :: decode_runes_aux fuel' (skipn k l)
      end
  end.

Definition decode_runes (s : string) : list N :=
  let l := map N_of_byte (list_of_string s) in decode_runes_aux (S (List.length l)) l.

(* the minterm of a non-ASCII code point: table of inclusive ranges with their minterm id; code points
   not listed belong to minterm 0 *)
Fixpoint minterm_of (tbl : list (N * N * nat)) (c : N) : nat :=
  match tbl with
  | [] => 0
  | (lo, hi, id) :: r => if ((lo <=? c) && (c <=? hi))%N then id else minterm_of r c
  end.

Definition sym_of_rune (tbl : list (N * N * nat)) (c : N) : sym :=
  if (c <? 128)%N then SA c else SM (minterm_of tbl c).

Definition decode_syms (tbl : list (N * N * nat)) (s : string) : list sym :=
  map (sym_of_rune tbl) (decode_runes s).

(* regexp.MatchString on an anchored pattern *)
Definition re_match (tbl : list (N * N * nat)) (r : re) (s : string) : bool := matches r (decode_syms tbl s).
