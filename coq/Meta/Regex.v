(* Regular expressions over code points with Brzozowski derivatives (executable matcher).
   Definitions only; the language semantics and the proofs are in Meta/RegexLang.v. *)
From Coq Require Import List String Ascii NArith Bool Arith.
From QRB Require Import Base.Bytes.
Import ListNotations.

Definition sym := N.                           (* a rune as Go's regexp sees it *)

Inductive re :=
| Nul | Eps
| Cls (rs : list (N * N))                      (* inclusive ranges *)
| Cat (a b : re) | Alt (a b : re) | Star (a : re)
| Rep (a : re) (lo hi : nat).                  (* a{lo,hi} *)

Fixpoint in_ranges (c : N) (rs : list (N * N)) : bool :=
  match rs with
  | [] => false
  | (lo, hi) :: r => ((lo <=? c) && (c <=? hi))%N || in_ranges c r
  end.

Fixpoint nullable (r : re) : bool :=
  match r with
  | Nul => false | Eps => true | Cls _ => false
  | Cat a b => nullable a && nullable b
  | Alt a b => nullable a || nullable b
  | Star _ => true
  | Rep a lo _ => Nat.eqb lo 0 || nullable a
  end.

Fixpoint ranges_eqb (a b : list (N * N)) : bool :=
  match a, b with
  | [], [] => true
  | (x, y) :: a', (u, v) :: b' => N.eqb x u && N.eqb y v && ranges_eqb a' b'
  | _, _ => false
  end.

Fixpoint re_eqb (a b : re) : bool :=
  match a, b with
  | Nul, Nul | Eps, Eps => true
  | Cls x, Cls y => ranges_eqb x y
  | Cat a1 a2, Cat b1 b2 | Alt a1 a2, Alt b1 b2 => re_eqb a1 b1 && re_eqb a2 b2
  | Star x, Star y => re_eqb x y
  | Rep x l h, Rep y l' h' => re_eqb x y && Nat.eqb l l' && Nat.eqb h h'
  | _, _ => false
  end.

Definition cat (a b : re) : re :=
  match a, b with
  | Nul, _ | _, Nul => Nul
  | Eps, _ => b
  | _, Eps => a
  | _, _ => Cat a b
  end.

Definition alt (a b : re) : re :=
  match a, b with
  | Nul, _ => b
  | _, Nul => a
  | _, _ => if re_eqb a b then a else Alt a b
  end.

Fixpoint deriv (c : sym) (r : re) : re :=
  match r with
  | Nul | Eps => Nul
  | Cls rs => if in_ranges c rs then Eps else Nul
  | Cat a b => if nullable a then alt (cat (deriv c a) b) (deriv c b) else cat (deriv c a) b
  | Alt a b => alt (deriv c a) (deriv c b)
  | Star a => cat (deriv c a) (Star a)
  | Rep a lo hi =>
      match hi with
      | O => Nul
      | S hi' => cat (deriv c a) (Rep a (pred lo) hi')
      end
  end.

Fixpoint matches (r : re) (s : list sym) : bool :=
  match s with
  | [] => nullable r
  | c :: t => matches (deriv c r) t
  end.

(* utf8.DecodeRuneInString, iterated: an invalid or truncated sequence yields U+FFFD and advances
   by one byte *)
Definition rune_error : N := 65533%N.

Definition cont (b : N) (lo hi : N) : bool := ((lo <=? b) && (b <=? hi))%N.

Fixpoint decode_runes_aux (fuel : nat) (l : list N) : list sym :=
  match fuel with
  | O => []
  | S fuel' =>
      match l with
      | [] => []
      | b0 :: r =>
          if (b0 <? 128)%N then b0 :: decode_runes_aux fuel' r
          else
            let bad := rune_error :: decode_runes_aux fuel' r in
            let two :=
              match r with
              | b1 :: r1 => if cont b1 128 191
                            then ((b0 - 192) * 64 + (b1 - 128))%N :: decode_runes_aux fuel' r1 else bad
              | _ => bad
              end in
            let three (lo hi : N) :=
              match r with
              | b1 :: b2 :: r2 =>
                  if cont b1 lo hi && cont b2 128 191
                  then ((b0 - 224) * 4096 + (b1 - 128) * 64 + (b2 - 128))%N :: decode_runes_aux fuel' r2
                  else bad
              | _ => bad
              end in
            let four (lo hi : N) :=
              match r with
              | b1 :: b2 :: b3 :: r3 =>
                  if cont b1 lo hi && cont b2 128 191 && cont b3 128 191
                  then ((b0 - 240) * 262144 + (b1 - 128) * 4096 + (b2 - 128) * 64 + (b3 - 128))%N
                         :: decode_runes_aux fuel' r3
                  else bad
              | _ => bad
              end in
            if cont b0 194 223 then two
            else if N.eqb b0 224 then three 160%N 191%N
            else if cont b0 225 236 then three 128%N 191%N
            else if N.eqb b0 237 then three 128%N 159%N
            else if cont b0 238 239 then three 128%N 191%N
            else if N.eqb b0 240 then four 144%N 191%N
            else if cont b0 241 243 then four 128%N 191%N
            else if N.eqb b0 244 then four 128%N 143%N
            else bad
      end
  end.

Definition decode_runes (s : string) : list sym :=
  let l := map N_of_byte (list_of_string s) in decode_runes_aux (S (List.length l)) l.

(* regexp.MatchString on an anchored pattern *)
Definition re_match (r : re) (s : string) : bool := matches r (decode_runes s).
