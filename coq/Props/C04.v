(* C04 - named binds: one placeholder per name, value from the map, error if missing.
   Statements only; every proof is [exact] of a lemma of Model/WArgs.v. *)
From Coq Require Import String List Permutation.
From QRB Require Import Base.Bytes Model.W Model.Values Model.Compile Model.WArgs.
Import ListNotations.

Section C04.
  Variable V : Type.
  Variables validI validT : string -> bool.
  Notation run := (run validI validT).

  (* same name <-> same placeholder index (the bind table is injective both ways) *)
  Theorem C04_share_and_distinct :
    forall o (e : exp V) s, run o (compile_top e) sb0 = Some s ->
      forall n i m k, In (n, i) (named s) -> In (m, k) (named s) -> (n = m <-> i = k).
  Proof. intros o e. exact (named_injective V validI validT o (compile_top e)). Qed.

  (* the argument at a name's position is the supplied value *)
  Theorem C04_value :
    forall o sup (e : exp V) s a,
      run o (compile_top e) sb0 = Some s -> fill (named s) sup (args s) = Some a ->
      forall n i, In (n, i) (named s) ->
        1 <= i <= length a /\ exists v, lookup n sup = Some v /\ nth_error a (i - 1) = Some (Some v).
  Proof. intros o sup e. exact (named_value V validI validT o sup (compile_top e)). Qed.

  (* a used name without a value: error and no SQL, under every iteration order of the Go map *)
  Theorem C04_missing :
    forall o sup (e : exp V) s, run o (compile_top e) sb0 = Some s ->
      (exists n i, In (n, i) (named s) /\ lookup n sup = None) ->
      forall order, Permutation (named s) order -> finish order sup s = RMissing.
  Proof. intros o sup e. exact (missing_name_fails V validI validT o sup (compile_top e)). Qed.

  (* the result never depends on the iteration order *)
  Theorem C04_order :
    forall o sup (e : exp V) s, run o (compile_top e) sb0 = Some s ->
      forall order, Permutation (named s) order -> finish order sup s = finish (named s) sup s.
  Proof. intros o sup e. exact (order_irrelevant V validI validT o sup (compile_top e)). Qed.

  (* extra, unused names change nothing *)
  Theorem C04_extras :
    forall o sup sup' (e : exp V),
      (forall s, run o (compile_top e) sb0 = Some s ->
                 forall n i, In (n, i) (named s) -> lookup n sup = lookup n sup') ->
      to_sql validI validT o sup (compile_top e) = to_sql validI validT o sup' (compile_top e).
  Proof. intros o sup sup' e. exact (extras_irrelevant V validI validT o sup sup' (compile_top e)). Qed.

  (* name slots and positional slots never collide: a positional value is never overwritten *)
  Theorem C04_positional_untouched :
    forall o sup (e : exp V) sql a errs,
      to_sql validI validT o sup (compile_top e) = ROk sql a errs ->
      exists il, inline V validI validT o (compile_top e) = Some il /\
                 map (subst V a) sql = map (resolve V sup) il.
  Proof. intros o sup e. exact (substitution_is_inline V validI validT o sup (compile_top e)). Qed.
End C04.

Example C04_example_missing :
  to_sql (fun _ => true) (fun _ => true) (Build_opts true false) [("a"%string, 1)]
    (compile_top (EExprs [EBind "a"%string; EArg 5; EBind "b"%string])) = @RMissing nat.
Proof. vm_compute. reflexivity. Qed.

Print Assumptions C04_share_and_distinct.
Print Assumptions C04_value.
Print Assumptions C04_missing.
Print Assumptions C04_order.
Print Assumptions C04_extras.
Print Assumptions C04_positional_untouched.
Print Assumptions C04_example_missing.
