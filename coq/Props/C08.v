(* C08 - a validated cast type can only ever be a type name.  Statements only. *)
From Coq Require Import String List Ascii NArith ZArith Bool.
From QRB Require Import Base.Bytes Pg.Lexer Meta.LexCtrl Meta.Regex Meta.RegexLang Meta.Product Meta.Safe Meta.MultiByte.
From QRB Require Import Gen.Regex Obl.PatternSafe.
Import ListNotations.

(* Every string the type pattern accepts is lexed into an identifier path, an optional ( digits )
   modifier, an optional UESCAPE 'c' directly after a U&"..." token, and optional [ digits? ] groups -
   no operator, literal, comment, further cast or statement separator - or belongs to one of the three
   known-finding classes of C07. *)
Theorem C08_safe :
  forall s, re_match minterm_table type_re s = true ->
    let l := decode_syms minterm_table s in
    uamp_run true LInit l = true \/ has_nul l = true \/
    exists ts, lex_from true LInit (bytes_of_syms l) = Some ts /\
               (oaccept true (shape_of true (map tkind ts)) = true \/ shape_of true (map tkind ts) = OKF).
Proof.
  intros s H. cbv zeta.
  apply (pattern_safe true true alphabet type_R type_re type_simple type_cert type_init).
  - rewrite alphabet_eq. apply decode_in_alphabet.
  - exact H.
Qed.

(* ... and the same holds for the bytes themselves: a non-ASCII rune of the name is 1 to 4 bytes >= 0x80 (an invalid
   sequence is what Go's regexp reads as U+FFFD, one byte at a time); the lexer's control treats all such bytes
   alike and is not changed by further ones (Meta/MultiByte.v), so the token kinds of the real text are those of
   the text with one byte per rune *)
Theorem C08_safe_bytes :
  forall s, re_match minterm_table type_re s = true ->
    let l := decode_syms minterm_table s in
    uamp_run true LInit l = true \/ has_nul l = true \/
    exists ts, lex_from true LInit s = Some ts /\
               (oaccept true (shape_of true (map tkind ts)) = true \/ shape_of true (map tkind ts) = OKF).
Proof.
  intros s H. cbv zeta. destruct (C08_safe s H) as [A|[A|A]]; [now left|right; now left|right; right].
  exact (multibyte_transfer true minterm_table s
           (fun ks => oaccept true (shape_of true ks) = true \/ shape_of true ks = OKF) A).
Qed.

(* non-vacuity: a name with 2-, 3- and 4-byte runes *)
Example C08_multibyte_example :
  let s := String.append "na" (String.append (utf8_encode 233%Z) (String.append (utf8_encode 20013%Z) (utf8_encode 119964%Z))) in
  String.length s = 11%nat /\ re_match minterm_table type_re s = true /\
  option_map (map tkind) (lex_from true LInit s) = Some [KWord false].
Proof. vm_compute. repeat split. Qed.


Example C08_refuted_uescape :
  re_match minterm_table type_re "int(3) UESCAPE '!' [ 1 ]" = true /\
  option_map (map tkind) (pg_lex true "int(3) UESCAPE '!' [ 1 ]") =
    Some [KWord false; KSelf "("; KNum; KSelf ")"; KWord true; KStr; KSelf "["; KNum; KSelf "]"].
Proof. split; vm_compute; reflexivity. Qed.

Example C08_accepts :
  re_match minterm_table type_re "varchar(255)[]" = true /\ re_match minterm_table type_re "int; drop" = false /\
  re_match minterm_table type_re "int::text" = false.
Proof. repeat split; vm_compute; reflexivity. Qed.

Print Assumptions C08_safe.
Print Assumptions C08_safe_bytes.
Print Assumptions C08_multibyte_example.
