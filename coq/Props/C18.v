(* C18 - named wrappers emit the PostgreSQL function or operator they are named after.  Statements only.
   Every wrapper is read from the current source (Gen.Ast), so added wrappers are included. *)
From Coq Require Import String List Bool.
From QRB Require Import Meta.GoAst Meta.Cond Meta.SetSelf Meta.Wrappers Gen.Ast Obl.Wrappers.
Import ListNotations.

(* what the check establishes for one function / aggregate wrapper *)
Theorem C18_wrapper_of_check :
  forall f, wrapper_ok f = true ->
  exists w, wrapper_info f = Some w /\
    (* the emitted symbol is the one the Go name denotes (case and underscores aside) *)
    norm (fn_name f) = norm (wi_symbol w) /\
    (* all parameters, in declared order; an optional (variadic) one is appended only when supplied *)
    args_match (wi_args w) (expected_args f) = true /\
    (* the generic constructor is the one of the declared result type *)
    (exists r, fn_results f = [r] /\ strip_pkg (pa_type r) = ctor_result (wi_ctor w)) /\
    (* when the comment names a symbol, it is the emitted one *)
    doc_mentions (fn_doc f) (wi_symbol w) = true.
Proof.
  intros f H. unfold wrapper_ok in H. destruct (wrapper_info f) as [w|]; [|discriminate].
  exists w. split; [reflexivity|].
  apply andb_true_iff in H. destruct H as [H H4]. apply andb_true_iff in H. destruct H as [H H3].
  apply andb_true_iff in H. destruct H as [H1 H2].
  split; [now apply String.eqb_eq|]. split; [assumption|]. split; [|assumption].
  destruct (fn_results f) as [|r [|? ?]]; try discriminate. exists r. split; [reflexivity|now apply String.eqb_eq].
Qed.

(* on the current tree: all exported functions of package fn (72 generic wrappers + json(b)_build_object
   + EXTRACT), COALESCE / NULLIF / GREATEST / LEAST, the 23 operator methods (constant = the operator
   the name and the comment denote; census: no other ExpBase method calls Op with a constant), the
   LIKE / IN / IS NULL family, and the pass-through re-exports of the root package *)
Theorem C18_current_tree : wrappers_all_ok all_funcs all_vars = true.
Proof.
  unfold wrappers_all_ok.
  rewrite fn_wrappers, conditional_wrappers, op_methods, kw_methods, root_reexports. reflexivity.
Qed.

Print Assumptions C18_wrapper_of_check.
Print Assumptions C18_current_tree.
