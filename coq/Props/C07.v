(* C07 - a validated identifier can only ever be an identifier.  Statements only.
   Decided for the whole (infinite) language of the pattern read from the current source. *)
From Coq Require Import String List Ascii NArith ZArith Bool.
From QRB Require Import Base.Bytes Pg.Lexer Meta.LexCtrl Meta.Regex Meta.RegexLang Meta.Product Meta.Safe Meta.MultiByte.
From QRB Require Import Gen.Regex Obl.PatternSafe.
From QRB Require Import Model.W Model.Values Model.Compile.
Import ListNotations.

(* Every string the identifier pattern accepts - of any length, over the full Unicode alphabet - is
   lexed by PostgreSQL (standard_conforming_strings on; a non-ASCII rune standing for one byte >= 0x80,
   which is how the lexer treats every byte of its encoding) into exactly a dotted path of
   {identifier} / "..." / U&"..." tokens, optionally ending in *, optionally followed by UESCAPE 'c'
   directly after a U&"..." token - so: no operator, parenthesis, literal, comment, semicolon or
   unbalanced quote - OR it belongs to one of three explicitly listed classes (known findings D8, D9):
   (1) U& not followed by a double quote, (2) a NUL byte, (3) UESCAPE 'c' after something that is not a
   U&"..." identifier. *)
Theorem C07_safe :
  forall s, re_match minterm_table ident_re s = true ->
    let l := decode_syms minterm_table s in
    uamp_run true LInit l = true \/ has_nul l = true \/
    exists ts, lex_from true LInit (bytes_of_syms l) = Some ts /\
               (oaccept false (shape_of false (map tkind ts)) = true \/ shape_of false (map tkind ts) = OKF).
Proof.
  intros s H. cbv zeta.
  apply (pattern_safe false true alphabet ident_R ident_re ident_simple ident_cert ident_init).
  - rewrite alphabet_eq. apply decode_in_alphabet.
  - exact H.
Qed.

(* ... and the same holds for the bytes themselves: a non-ASCII rune of the name is 1 to 4 bytes >= 0x80 (an invalid
   sequence is what Go's regexp reads as U+FFFD, one byte at a time); the lexer's control treats all such bytes
   alike and is not changed by further ones (Meta/MultiByte.v), so the token kinds of the real text are those of
   the text with one byte per rune *)
Theorem C07_safe_bytes :
  forall s, re_match minterm_table ident_re s = true ->
    let l := decode_syms minterm_table s in
    uamp_run true LInit l = true \/ has_nul l = true \/
    exists ts, lex_from true LInit s = Some ts /\
               (oaccept false (shape_of false (map tkind ts)) = true \/ shape_of false (map tkind ts) = OKF).
Proof.
  intros s H. cbv zeta. destruct (C07_safe s H) as [A|[A|A]]; [now left|right; now left|right; right].
  exact (multibyte_transfer true minterm_table s
           (fun ks => oaccept false (shape_of false ks) = true \/ shape_of false ks = OKF) A).
Qed.

(* non-vacuity: a name with 2-, 3- and 4-byte runes *)
Example C07_multibyte_example :
  let s := String.append "na" (String.append (utf8_encode 233%Z) (String.append (utf8_encode 20013%Z) (utf8_encode 119964%Z))) in
  String.length s = 11%nat /\ re_match minterm_table ident_re s = true /\
  option_map (map tkind) (lex_from true LInit s) = Some [KWord false].
Proof. vm_compute. repeat split. Qed.


(* the emitted text is the stored string unchanged (or nothing, with an error) *)
Theorem C07_verbatim :
  forall (V : Type) vi vt p (self : exp V) s st st',
    run vi vt (Build_opts true p) (compile (EIdent self s)) st = Some st' ->
    (vi s = true /\ out st' = out st ++ [CIdent s] /\ errs st' = errs st) \/
    (vi s = false /\ out st' = out st /\ errs st' = errs st ++ [(EkIdent, s)]).
Proof.
  intros V vi vt p self s st st' H. cbn in H. destruct (vi s); cbn in H; injection H as <-; [left|right]; auto.
Qed.

(* the three classes are inhabited on the current pattern: the exclusions are necessary (D8, D9) *)
Example C07_refuted_U_amp :
  re_match minterm_table ident_re "U&abc" = true /\
  option_map (map tkind) (pg_lex true "U&abc") = Some [KWord false; KOp; KWord false].
Proof. split; vm_compute; reflexivity. Qed.
Example C07_refuted_uescape :
  re_match minterm_table ident_re "foo UESCAPE '!'" = true /\
  option_map (map tkind) (pg_lex true "foo UESCAPE '!'") = Some [KWord false; KWord true; KStr].
Proof. split; vm_compute; reflexivity. Qed.
Example C07_refuted_nul :
  re_match minterm_table ident_re (String """" (String (ascii_of_N 0) (String """" EmptyString))) = true /\
  pg_lex true (String """" (String (ascii_of_N 0) (String """" EmptyString))) = None.
Proof. split; vm_compute; reflexivity. Qed.

(* non-vacuity: ordinary names are accepted and take the first alternative *)
Example C07_accepts :
  re_match minterm_table ident_re "public.""My""""T"".col" = true /\
  option_map (map tkind) (pg_lex true "public.""My""""T"".col") =
    Some [KWord false; KSelf "."; KQIdent; KSelf "."; KWord false].
Proof. split; vm_compute; reflexivity. Qed.

Print Assumptions C07_safe.
Print Assumptions C07_safe_bytes.
Print Assumptions C07_multibyte_example.
Print Assumptions C07_verbatim.
