(* C01 - the emitted statement is exactly the statement that was composed.  Statements only.

   C01_frame     for every statement value (SELECT with set operations, INSERT, UPDATE, DELETE, with CTEs), of
                 every size and nesting depth: the leaves the model writes are exactly the composed parts of the
                 builder record - every expression, sub-statement, name and alias, each once, in the grammatical
                 slot order [stmt_parts] read off PostgreSQL's synopsis - separated by nothing but keywords,
                 punctuation, white space and error reports ([Frame]); together with C01_leaves (flattening does
                 not change what is written, under all four option combinations and from any state) this says
                 that no composed part is dropped, duplicated or reordered and nothing else reaches the text.
   C01_findings  the deviations of the unchanged code are real: for the recorded compositions (D4, D5, D6) the
                 model's own text is rejected by the statement reader or reads back differently (computed in
                 the kernel); for D5 the composed ORDER BY of a set-operation branch is not among the written
                 parts at all.

   PARTIAL: that the keywords between the parts are the ones PostgreSQL's grammar wants for that slot, and that
   the parts' own texts do not disturb the clause structure, is not a theorem: it is evaluated on every
   generated case by the clause-level reader of Pg/Stmt.v (a hand-written formalisation of gram.y) against
   (A) the intended clause tree of abstract statements composed through the API and (B) the clause tree built
   from the builder records.
   C01_api_*     laws of the functional model of the builder methods (Model/Api.v, compared call by call with the
                 implementation in the api mode of the harness): WHERE / HAVING conditions, the SET items of UPDATE, the
                 VALUES rows of INSERT and the conditions of DELETE accumulate in call order (any number of calls) and
                 change nothing else of the statement; of two calls of a single-valued option the last
                 wins; independent options commute; an alias goes to the FROM item added last.  The remaining
                 methods are covered by the call-by-call comparison and by (A). *)
From Coq Require Import String List ZArith Bool.
From QRB Require Import Base.Bytes Model.W Model.Values Model.Compile Pg.Lexer Pg.Expr Pg.Stmt Model.XExp Model.XExpFacts
  Model.Frame Model.C02Eval Model.C01Eval Model.Api Model.ApiFacts.
Import ListNotations.
Local Open Scope string_scope.

Section C01.
  Variable V : Type.
  Variables validI validT : string -> bool.

  Theorem C01_frame : forall (e : exp V), Frame V (wflat (compile_top e)) (stmt_parts V e).
  Proof. exact (statement_frame V). Qed.

  Theorem C01_leaves :
    forall o (e : exp V) s, run validI validT o (compile_top e) s = run_list validI validT o (wflat (compile_top e)) s.
  Proof. intros o e. exact (run_wflat V validI validT o (compile_top e)). Qed.

  Theorem C01_api_where_accumulates :
    forall w c p (es : list (exp V)),
      fold_left (fun r e => call V "Where" [AExp e] r) es (Some (ESelect w c p))
      = Some (ESelect w c (p_set_where V p (p_where p ++ es))).
  Proof. exact (where_accumulates V). Qed.

  Theorem C01_api_having_accumulates :
    forall w c p (es : list (exp V)),
      fold_left (fun r e => call V "Having" [AExp e] r) es (Some (ESelect w c p))
      = Some (ESelect w c (p_set_having V p (p_having p ++ es))).
  Proof. exact (having_accumulates V). Qed.

  Theorem C01_api_update_set_accumulates :
    forall b (items : list (string * exp V)),
      fold_left (fun r it => call V "Set" [AStr (fst it); AExp (snd it)] r) items (Some (EUpdate b))
      = Some (EUpdate (mkUpd (u_with b) (u_table b) (u_alias b) (u_set b ++ items)%list (u_from b) (u_where b) (u_returning b))).
  Proof. exact (update_set_accumulates V). Qed.

  Theorem C01_api_insert_values_accumulate :
    forall b (rows : list (list (exp V))),
      fold_left (fun r row => call V "Values" [AExps row] r) rows (Some (EInsert b))
      = Some (EInsert (ins_set V b (i_alias b) (i_cols b) (i_default b)
                         (match rows with [] => i_values b | _ => Some ((match i_values b with Some l => l | None => [] end) ++ rows)%list end)
                         (i_query b) (i_ctargets b) (i_ctwhere b) (i_cconstraint b) (i_caction b) (i_cset b) (i_cwhere b) (i_returning b))).
  Proof. exact (insert_values_accumulate V). Qed.

  Theorem C01_api_delete_where_accumulates :
    forall b (es : list (exp V)),
      fold_left (fun r e => call V "Where" [AExp e] r) es (Some (EDelete b))
      = Some (EDelete (mkDel (d_with b) (d_table b) (d_alias b) (d_using b) (d_where b ++ es)%list (d_returning b))).
  Proof. exact (delete_where_accumulates V). Qed.

  Theorem C01_api_limit_last_wins :
    forall w c p (a b : exp V),
      call V "Limit" [AExp b] (call V "Limit" [AExp a] (Some (ESelect w c p))) = call V "Limit" [AExp b] (Some (ESelect w c p)).
  Proof. exact (limit_last_wins V). Qed.

  Theorem C01_api_offset_last_wins :
    forall w c p (a b : exp V),
      call V "Offset" [AExp b] (call V "Offset" [AExp a] (Some (ESelect w c p))) = call V "Offset" [AExp b] (Some (ESelect w c p)).
  Proof. exact (offset_last_wins V). Qed.

  Theorem C01_api_limit_where_commute :
    forall w c p (a e : exp V),
      call V "Limit" [AExp a] (call V "Where" [AExp e] (Some (ESelect w c p)))
      = call V "Where" [AExp e] (call V "Limit" [AExp a] (Some (ESelect w c p))).
  Proof. exact (limit_where_commute V). Qed.

  Theorem C01_api_alias_goes_to_last_item :
    forall w c p (f : exp V) a,
      call V "FromSelectBuilder.As" [AStr a] (call V "From" [AExp f] (Some (ESelect w c p)))
      = Some (ESelect w c (p_set_from V p (p_from p ++ [mkFromItem false false f a []]))).
  Proof. exact (from_as_last V). Qed.
End C01.

(* non-vacuity: the slot list of a statement with CTE, join, conditions, grouping, set operation and tail *)
Definition n (s : string) : exp nat := EIdent ENil s.
Definition core0 : parts (exp nat) :=
  mkParts false [] None "" [(n "a", "x"); (n "b", "")]
    [mkFromItem false false (n "t") "t1" []; mkFromItem false false (EJoin "LEFT JOIN" false (n "u") "u1" (n "c") []) "" []]
    [n "p"; n "q"] false [mkGrouping "" [[n "g"]]; mkGrouping "ROLLUP" [[n "r1"; n "r2"]]] [n "h"]
    [] ENil ENil (mkLock "" [] "").
Definition last0 : parts (exp nat) :=
  mkParts false [] None "" [(n "z", "")] [] [] false [] [] [mkObc (n "o") "DESC" ""] (n "l") ENil (mkLock "UPDATE" ["t1"] "NOWAIT").
Definition stmt0 : exp nat :=
  ESelect [mkWithq false "w" ["c1"] None (ESelect [] [] last0) None] [mkComb core0 "UNION" true] last0.
Example C01_parts_of_a_statement :
  stmt_parts nat stmt0 =
  [PName nat "w"; PName nat "c1"; PExp nat (ESelect [] [] last0);
   PExp nat (n "a"); PName nat "x"; PExp nat (n "b");
   PExp nat (n "t"); PName nat "t1"; PExp nat (EJoin "LEFT JOIN" false (n "u") "u1" (n "c") []);
   PExp nat (n "p"); PExp nat (n "q"); PExp nat (n "g"); PExp nat (n "r1"); PExp nat (n "r2"); PExp nat (n "h");
   PExp nat (n "z"); PExp nat (n "o"); PExp nat (n "l"); PName nat "t1"].
Proof. vm_compute. reflexivity. Qed.

(* the recorded deviations are real (the model's own text, read back) *)
Definition all_valid (_ : string) := true.
Definition deviates (e : exp nat) : bool :=
  match c01_model all_valid all_valid e with SMismatch _ _ _ | SReject _ _ => true | _ => false end.
Definition sel (p : parts (exp nat)) : exp nat := ESelect [] [] p.
Definition simple (from : list (fromitem (exp nat))) (gb : list (grouping (exp nat))) : parts (exp nat) :=
  mkParts false [] None "" [(n "x", "")] from [] false gb [] [] ENil ENil (mkLock "" [] "").
Example C01_findings :
  forallb deviates
    [sel (simple [mkFromItem false false (n "t") "" []] [mkGrouping "ROLLUP" [[n "a"]]]);                       (* D4 *)
     ESelect [] [mkComb last0 "UNION" false] (simple [] []);                                                    (* D5 *)
     sel (simple [mkFromItem false false (n "t") "" [];
                  mkFromItem false false (EJoin "CROSS JOIN" false (n "u") "" (n "c") []) "" []] []);           (* D6 *)
     sel (simple [mkFromItem false false (n "t") "" [];
                  mkFromItem false false (EJoin "JOIN" true (n "u") "" (n "c") []) "" []] []);                  (* D6 *)
     sel (simple [mkFromItem false true (sel (simple [] [])) "s" []] [])]                                       (* D6 *)
  = true /\
  (* D5: the ORDER BY expression composed on the branch is not among the written parts *)
  ~ In (PExp nat (n "o")) (stmt_parts nat (ESelect [] [mkComb last0 "UNION" false] (simple [] []))).
Proof.
  split; [vm_compute; reflexivity|]. vm_compute. intro H. repeat (destruct H as [H|H]; [discriminate|]). exact H.
Qed.

(* the statements the reader accepts are not trivial: the model's text of stmt0 reads back as composed *)
Example C01_reads_back : c01_model all_valid all_valid stmt0 = SOk.
Proof. vm_compute. reflexivity. Qed.

Print Assumptions C01_frame.
Print Assumptions C01_leaves.
Print Assumptions C01_api_where_accumulates.
Print Assumptions C01_api_having_accumulates.
Print Assumptions C01_api_update_set_accumulates.
Print Assumptions C01_api_insert_values_accumulate.
Print Assumptions C01_api_delete_where_accumulates.
Print Assumptions C01_api_limit_last_wins.
Print Assumptions C01_api_offset_last_wins.
Print Assumptions C01_api_limit_where_commute.
Print Assumptions C01_api_alias_goes_to_last_item.
Print Assumptions C01_parts_of_a_statement.
Print Assumptions C01_findings.
Print Assumptions C01_reads_back.
