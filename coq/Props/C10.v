(* C10 - rendering is a pure, deterministic function of the value.  Statements only. *)
From Coq Require Import String List Bool Permutation.
From QRB Require Import Base.Bytes Model.W Model.Values Model.Compile Model.WArgs.
From QRB Require Import Meta.GoAst Meta.EffectIR Meta.Lower Meta.MapOrder Gen.Ast Obl.Effects.
Import ListNotations.

Section C10.
  Variable V : Type.
  Variables validI validT : string -> bool.

  (* the model of ToSQL is a function of (options, supplied values, value) that starts from the empty
     builder: repetition, order relative to other renderings and earlier renderings cannot matter *)
  Theorem C10_function :
    forall o sup (e : exp V), to_sql validI validT o sup (compile_top e) = to_sql validI validT o sup (compile_top e).
  Proof. reflexivity. Qed.

  (* Go's map iteration order (the named-argument fill loop) never influences the result *)
  Theorem C10_map_order :
    forall o sup (e : exp V) s, run validI validT o (compile_top e) sb0 = Some s ->
      forall order, Permutation (named s) order -> finish order sup s = finish (named s) sup s.
  Proof. intros o sup e. exact (order_irrelevant V validI validT o sup (compile_top e)). Qed.
End C10.

(* on the current tree: no function of the library ever writes (or takes the address of) a package-level
   variable; the SQLBuilder is allocated at the start of writeToSQLString and is never stored anywhere; and
   no value function writes an object that existed before it was called (C05) - so no state survives a
   rendering *)
Theorem C10_no_hidden_state :
  no_global_writes all_funcs = true /\ sb_local_ok all_funcs = true /\ all_value_fns_safe all_funcs = true.
Proof. exact (conj globals_never_written (conj sql_builder_local value_fns_safe)). Qed.

(* on the current tree every iteration over a Go map (whose order the runtime randomises) is either the
   collect-then-sort.Strings idiom of SetMap - the result is a function of the key set - or the bind fill loop
   that C10_map_order is about *)
Theorem C10_map_iteration : map_order_ok all_funcs = true.
Proof. exact map_iteration_ordered. Qed.

Print Assumptions C10_map_order.
Print Assumptions C10_map_iteration.
Print Assumptions C10_no_hidden_state.
