(* C12 - executor adapters fail closed.  Statements only.
   The six execution methods of qrbpgx / qrbsql are read from the current source (Gen.Ast) and run by
   the interpreter of Meta/Adapter.v for both outcomes of rendering. *)
From Coq Require Import String List Bool.
From QRB Require Import Meta.GoAst Meta.Cond Meta.Adapter Gen.Ast Obl.Adapter.
Import ListNotations.

(* what the check establishes for one method: when rendering fails the executor observes no call and
   the method returns the zero result together with the rendering error *)
Theorem C12_fail_closed_of_check :
  forall fs pkg name m extra, adapter_exec_ok fs pkg name m extra = true ->
  exists f ctx r0 rs,
    find_func fs pkg "ExecutiveQueryBuilder" name = Some f /\ fn_params f = [ctx] /\
    map pa_name (fn_results f) = r0 :: rs /\
    exists calls vals,
      exec_a (fn_recv_name f) (pa_name ctx) (r0 :: rs) true 10 (fn_body f) [] [] = Some (calls, vals) /\
      calls_eqb calls [] = true /\ avals_eqb vals [SZero r0; SErr] = true.
Proof.
  intros fs pkg name m extra H. unfold adapter_exec_ok in H.
  destruct (find_func fs pkg "ExecutiveQueryBuilder" name) as [f|]; [|discriminate].
  destruct (fn_params f) as [|ctx [|? ?]] eqn:Ep; try discriminate.
  destruct (map pa_name (fn_results f)) as [|r0 rs] eqn:Er; try discriminate.
  cbv zeta in H.
  destruct (exec_a (fn_recv_name f) (pa_name ctx) (r0 :: rs) true 10 (fn_body f) [] []) as [[c1 v1]|] eqn:E1; [|discriminate].
  destruct (exec_a (fn_recv_name f) (pa_name ctx) (r0 :: rs) false 10 (fn_body f) [] []) as [[c2 v2]|]; [|discriminate].
  apply andb_true_iff in H; destruct H as [H K4]. apply andb_true_iff in H; destruct H as [H K3].
  apply andb_true_iff in H; destruct H as [K1 K2].
  exists f, ctx, r0, rs. split; [reflexivity|]. split; [exact Ep|]. split; [exact Er|].
  exists c1, v1. split; [exact E1|]. split; assumption.
Qed.

(* on the current tree: all six methods, and no other function of the adapter packages calls the executor *)
Theorem C12_current_tree : adapter_execs_ok all_funcs = true /\ executor_census_ok all_funcs = true.
Proof. exact (conj adapters_exec adapters_census). Qed.

Print Assumptions C12_fail_closed_of_check.
Print Assumptions C12_current_tree.
