(* C02 - operator nesting survives rendering.  Statements only.

   The property quantifies over all operator expression trees.  Three theorems, for every tree [e] of the
   fragment [xe] (operators, predicates, casts, unary minus, NOT, AND/OR, LIKE family with ESCAPE, IN / NOT IN,
   IS [NOT] NULL over arbitrary operands, each operand held directly or wrapped in ExpBase), at every depth:

   C02_text         what the model writes for the composed value is, leaf by leaf, the token list [xtoks e]
                    (the tie between the value-level model of C03..C20 and the token level used here);
   C02_parse_back   if the checker accepts [e], that token list derives - in the strict sub-grammar of
                    PostgreSQL's %left / %nonassoc table, Pg/Expr.v - exactly the composed tree, every
                    operator with the operands it was given;
   C02_gap_*        the checker does reject trees: the shapes the property text lists are rejected by it and
                    re-read by the precedence reader as a different tree or not at all (witnesses computed in
                    the kernel; they are the recorded findings D7).

   C02_reassociation  the tolerated case: a chain of one and the same operator out of + and *, bracketed in any
                    way by the caller (operands: the first may have the operator's own level, the others are
                    strictly higher or get parentheses), is written as the flat chain, and that token list derives
                    a tree with the same operands in the same order - the composed tree and the tree read back
                    are two bracketings of one operand sequence.

   PARTIAL: C02_parse_back / C02_reassociation are stated at token level - that the byte text of an operand
   lexes to tokens forming one c_expr is checked on every generated case by the extracted lexer and reader,
   not proved.  (AND / OR chains need no separate theorem: a nested junction is always parenthesised.) *)
From Coq Require Import String List ZArith Bool Lia.
From QRB Require Import Base.Bytes Model.W Model.Values Model.Compile Pg.Lexer Pg.Expr Model.XExp Model.XExpFacts
  Model.XChain Model.C02Eval.
Import ListNotations.
Local Open Scope string_scope.

Section C02.
  Variable V : Type.
  Variables validI validT : string -> bool.

  Theorem C02_text :
    forall (e : xe V), wfx V e = true ->
      wflat (compile (embed e)) = flat_map leaves (xtoks e).
  Proof. exact (render_tokens V). Qed.

  (* flattening a writer tree does not change what it writes, under any options and from any state *)
  Theorem C02_flat :
    forall o (w : W V) s, run validI validT o w s = run_list validI validT o (wflat w) s.
  Proof. exact (run_wflat V validI validT). Qed.

  Theorem C02_parse_back :
    forall (e : xe V) k, chk e = Some k -> Derives (abstract e) (xtoks e) k.
  Proof. exact (chk_sound V). Qed.

  (* the tolerated re-association, for + and * *)
  Theorem C02_reassociation :
    forall op ko, (op = "+" /\ ko = L_ADD) \/ (op = "*" /\ ko = L_MUL) ->
    forall (l r : xe V) first rest,
      ops V op (XOp l op r) false (first :: rest) ->
      weak V op ko first -> Forall (strict V op ko) rest ->
      exists p, Derives p (xtoks (XOp l op r)) ko /\
                brack V op p (map (fun x => abstract (fst x)) (first :: rest)) /\
                brack V op (abstract (XOp l op r)) (map (fun x => abstract (fst x)) (first :: rest)).
  Proof.
    intros op ko [[-> ->]|[-> ->]] l r first rest H Hw Hs.
    - exact (chain_reassociates V "+" L_ADD eq_refl eq_refl l r (first :: rest) H Hw Hs).
    - exact (chain_reassociates V "*" L_MUL eq_refl eq_refl l r (first :: rest) H Hw Hs).
  Qed.

  (* whatever the checker accepts is a well-formed member of the fragment, so C02_text applies to it *)
  Theorem C02_accepts_wf : forall (e : xe V) k, chk e = Some k -> wfx V e = true.
  Proof. exact (chk_wfx V). Qed.
End C02.

(* non-vacuity: accepted trees of every node kind, three levels deep *)
Definition n (s : string) : xe nat := XAtom (EIdent ENil s).
Example C02_accepts :
  chk (XNot (XIsNull (XMatch (XOp (n "a") "||" (n "b")) (XAtom (EStr "x%")) "NOT LIKE" (Some 33%Z)) true)) = Some L_NOT /\
  chk (XOp (XOp (n "a") "+" (n "b")) "*" (XNeg (XCast (n "c") "int"))) = Some L_MUL /\
  chk (XJunc [XOp (n "a") "=" (XOp (n "b") "-" (XNegLit (EInt (-3)))); XJunc [n "p"; n "q"] true;
              XIn (XOp (n "a") "+" (XAtom (EInt 1))) "NOT IN" (EExprs [EInt 1; EInt 2])] false) = Some L_AND /\
  chk (XOp (XBase (XOp (n "a") "*" (n "b"))) "+" (n "c")) = Some L_ADD.
Proof. vm_compute. repeat split. Qed.

(* non-vacuity of the chain theorem: a + ((b + c) + d), written a + b + c + d *)
Example C02_chain_example :
  let e := XOp (n "a") "+" (XOp (XOp (n "b") "+" (n "c")) "+" (n "d")) in
  ops nat "+" e false [(n "a", false); (n "b", false); (n "c", true); (n "d", true)] /\
  weak nat "+" L_ADD (n "a", false) /\
  Forall (strict nat "+" L_ADD) [(n "b", false); (n "c", true); (n "d", true)] /\
  chk e = None.
Proof.
  assert (L : forall s l r, n s <> XOp l "+" r) by (intros; discriminate).
  repeat split.
  - apply (o_node nat "+" (n "a") _ false [(n "a", false)] [(n "b", false); (n "c", true); (n "d", true)]).
    + now apply o_leaf.
    + apply (o_node nat "+" _ (n "d") true [(n "b", false); (n "c", true)] [(n "d", true)]).
      * apply (o_node nat "+" (n "b") (n "c") false [(n "b", false)] [(n "c", true)]); now apply o_leaf.
      * now apply o_leaf.
  - exists L_MAX. split; vm_compute; [reflexivity|lia].
  - repeat constructor; exists L_MAX; split; vm_compute; try reflexivity; lia.
Qed.

(* the gaps (D7): rejected by the checker, and the model's own text reads back differently *)
Definition all_valid (_ : string) := true.
Definition gap (x : xe nat) : bool :=
  match chk x, c02_model all_valid all_valid (embed x) with
  | None, (VMismatch _ _ _ _ | VReject _ _ _) => true
  | _, _ => false
  end.
Example C02_gap_witnesses :
  forallb gap
    [XOp (n "a") "-" (XOp (n "b") "-" (n "c"));                        (* a - (b - c)   -> a - b - c *)
     XOp (n "a") "/" (XOp (n "b") "/" (n "c"));
     XOp (n "a") "^" (XOp (n "b") "^" (n "c"));
     XOp (n "a") "=" (XOp (n "b") "=" (n "c"));                        (* a = (b = c)   -> a = b = c, rejected *)
     XNeg (XBase (XOp (n "a") "+" (n "b")));                           (* Neg(a.Plus(b)) -> - a + b *)
     XJunc [n "a"; XBase (XJunc [n "b"; n "c"] true)] false;           (* And(a, ExpBase{Or(b,c)}) *)
     XOp (n "a") "||" (XMatch (n "b") (n "c") "LIKE" None);            (* a || (b LIKE c) -> a || b LIKE c *)
     XCast (XBase (XNegLit (EInt (-1)))) "text"]                        (* (-1)::text -> -1::text *)
  = true.
Proof. vm_compute. reflexivity. Qed.

Print Assumptions C02_text.
Print Assumptions C02_flat.
Print Assumptions C02_parse_back.
Print Assumptions C02_reassociation.
Print Assumptions C02_accepts_wf.
Print Assumptions C02_chain_example.
Print Assumptions C02_accepts.
Print Assumptions C02_gap_witnesses.
