(* C16 - the JSON object builder behaves as an insertion-ordered map.  Statements only. *)
From Coq Require Import String List.
From QRB Require Import Base.Bytes Model.W Model.Values Model.Compile Model.JsonMap Model.Api Model.Ctor Model.CtorFacts.
Import ListNotations.

Section C16.
  Variable V : Type.
  Notation exp := (exp V).

  (* map semantics of one step: the key list keeps first-insertion order ... *)
  Theorem C16_keys_set : forall (m : list (string * exp)) k v,
    keys (jset m k v) = if has_key k m then keys m else keys m ++ [k].
  Proof. exact (keys_jset exp). Qed.
  Theorem C16_keys_unset : forall (m : list (string * exp)) k, NoDup (keys m) ->
    keys (jdel m k) = filter (fun x => negb (String.eqb x k)) (keys m).
  Proof. exact (keys_jdel exp). Qed.
  (* ... paired with the latest value, other keys untouched *)
  Theorem C16_get_set_same : forall (m : list (string * exp)) k v, jget (jset m k v) k = Some v.
  Proof. exact (jget_jset_same exp). Qed.
  Theorem C16_get_set_other : forall (m : list (string * exp)) k v k', k' <> k -> jget (jset m k v) k' = jget m k'.
  Proof. exact (jget_jset_other exp). Qed.
  Theorem C16_get_unset_same : forall (m : list (string * exp)) k, NoDup (keys m) -> jget (jdel m k) k = None.
  Proof. exact (jget_jdel_same exp). Qed.
  Theorem C16_get_unset_other : forall (m : list (string * exp)) k k', k' <> k -> jget (jdel m k) k' = jget m k'.
  Proof. exact (jget_jdel_other exp). Qed.

  (* for every history of set / conditional set / unset / batch / ApplyIf operations: *)
  Theorem C16_keys_unique : forall l (j : jobj V), NoDup (keys (j_props j)) -> NoDup (keys (j_props (j_run j l))).
  Proof. exact (keys_unique V). Qed.
  Theorem C16_flavour_preserved : forall l (j : jobj V), j_isb (j_run j l) = j_isb j.
  Proof. exact (flavour_preserved V). Qed.
  (* the batch form equals the same sets applied one by one *)
  Theorem C16_batch_equiv : forall (j : jobj V) l, j_batch j l = fold_left s_step (map (unbatch V) l) j.
  Proof. exact (batch_equiv V). Qed.

  (* rendering: the flavour's function, then each entry once, in map order, key as a quoted literal *)
  Theorem C16_render : forall isb (props : list (string * exp)),
    compile (EJson isb props) =
    WSeq [WKw (if isb then "jsonb_build_object(" else "json_build_object(")%string;
          WSeq (sep_by (WKw ","%string) (map (fun kv => WSeq [WLit (fst kv); WKw ","%string; compile (snd kv)]) props));
          WKw ")"%string].
  Proof. reflexivity. Qed.

  (* as a select's JSON selection: the stored object is the result of the same history *)
  Theorem C16_select_json : forall b m (l : list (jop V)),
    select_apply_json (Some (EJson b m)) l = Some (to_exp (j_run (mkJ b m) l)).
  Proof. reflexivity. Qed.

  (* API level: a call of Prop / PropIf / Unset on a JSON object value, as the constructor model of Model/Ctor.v
     composes it (compared call by call with the implementation, harness mode api), is one step of the map
     specification above; and so is every history of such calls starting at builder.JsonBuildObject(b) *)
  Theorem C16_api_call_is_map_step : forall (j : jobj V) o key args,
    sop_call V o = Some (key, args) -> meth key (to_exp j) args = Some (to_exp (s_step j o)).
  Proof. exact (json_meth_is_step V). Qed.
  Theorem C16_api_history : forall b (l : list (sop V)), forallb (plain_sop V) l = true ->
    fold_left (json_call V) l (ctor "JsonBuildObject" [ABool b]) = Some (to_exp (fold_left s_step l (@mkJ V b []))).
  Proof. exact (json_chain_result V). Qed.
End C16.

Print Assumptions C16_keys_unique.
Print Assumptions C16_flavour_preserved.
Print Assumptions C16_batch_equiv.
Print Assumptions C16_get_set_same.
Print Assumptions C16_keys_unset.
Print Assumptions C16_api_call_is_map_step.
Print Assumptions C16_api_history.
