(* C17 - fluent refinements are not forgotten when an operator is applied.  Statements only. *)
From Coq Require Import String List Bool ZArith.
From QRB Require Import Base.Bytes Model.W Model.Values Model.Compile Model.Handle.
From QRB Require Import Meta.GoAst Meta.SetSelf Gen.Ast Obl.SetSelf.
Import ListNotations.

Section C17.
  Variable V : Type.

  (* x.Exp = x as last statement re-establishes the handle, whatever was refined before *)
  Theorem C17_setself_establishes : forall (x old : exp V), self_of x = Some old -> Handle (set_self x).
  Proof. exact (set_self_establishes V). Qed.

  (* with a current handle, the operand inside the larger expression is exactly the refined value:
     the text starts with the standalone rendering of the value, unparenthesised *)
  Theorem C17_operand : forall (h : exp V) op r e,
    Handle h -> apply_op h op r = Some e -> exists rest, compile e = WSeq (compile h :: rest).
  Proof. exact (operand_is_refined_value V). Qed.
End C17.

(* on the current tree every function returning an operator-capable builder (a struct embedding
   ExpBase: constructors and all refinement methods, incl. wrappers in the root and fn packages) ends
   with  x.Exp = x  for the value it returns, or delegates to one that does *)
Theorem C17_current_tree : setself_ok all_funcs all_structs = true.
Proof. exact setself_everywhere. Qed.

(* what a forgotten line means: the refinement is present when rendered directly, absent on the operator path *)
Example C17_forgotten_line_is_visible :
  let h0 : exp nat := set_self (EFunc ENil "f" [] false "" []) in
  let forgot := match h0 with EFunc s n a _ al cd => EFunc s n a true al cd | e => e end in   (* WithOrdinality without x.Exp = x *)
  compile forgot <> match apply_op forgot "=" (EInt 1%Z) with
                    | Some (EBase (EOp l _ _ _)) => compile l | _ => WPanic end.
Proof. vm_compute. discriminate. Qed.

Print Assumptions C17_setself_establishes.
Print Assumptions C17_operand.
Print Assumptions C17_current_tree.
