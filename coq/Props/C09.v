(* C09 - validation reaches every name and type, failures are reported, not rendered.
   Statements only.  [idents] / [wtypes] are the names and cast types the rendering of a value visits. *)
From Coq Require Import String List Bool ZArith.
From QRB Require Import Model.Frame Model.Reach Base.Bytes Model.W Model.Values Model.Compile Model.WValid Model.CompileFacts.
Import ListNotations.

Section C09.
  Variable V : Type.
  Variables validI validT : string -> bool.
  Notation run := (run validI validT).

  (* rendering with validation succeeds without error only if every visited name and type is valid *)
  Theorem C09_only_if :
    forall p (e : exp V) s', run (von p) (compile_top e) sb0 = Some s' -> errs s' = [] ->
      Forall (fun x => validI x = true) (idents V (compile_top e)) /\
      Forall (fun x => validT x = true) (wtypes V (compile_top e)).
  Proof. intros p e. exact (no_error_means_all_valid V validI validT p (compile_top e)). Qed.

  (* the error list contains the name (type) sentinel with string x exactly for the visited, invalid x:
     every offender is reported, nothing else is *)
  Theorem C09_reports :
    forall p (e : exp V) s', run (von p) (compile_top e) sb0 = Some s' ->
      (forall x, In (EkIdent, x) (errs s') <-> In x (idents V (compile_top e)) /\ validI x = false) /\
      (forall x, In (EkType, x) (errs s') <-> In x (wtypes V (compile_top e)) /\ validT x = false).
  Proof.
    intros p e s'. exact (offenders_reported V validI validT p (compile_top e) s' (compile_plain_errs V e)).
  Qed.

  (* no offending item is emitted: every name / type chunk of the output is valid *)
  Theorem C09_not_emitted :
    forall p (e : exp V) s', run (von p) (compile_top e) sb0 = Some s' ->
      Forall (fun x => validI x = true) (out_idents (out s')) /\
      Forall (fun x => validT x = true) (out_types (out s')).
  Proof. intros p e. exact (emitted_names_are_valid V validI validT p (compile_top e)). Qed.

  (* the exact error list and the exact validated output of one rendering *)
  Theorem C09_exact :
    forall p (e : exp V) s', run (von p) (compile_top e) sb0 = Some s' ->
      errs s' = expected_errs V validI validT (compile_top e) /\
      out_idents (out s') = filter validI (idents V (compile_top e)) /\
      out_types (out s') = filter validT (wtypes V (compile_top e)).
  Proof. intros p e s' H. exact (validating_run V validI validT p (compile_top e) sb0 s' H). Qed.
  (* value level: an invalid name or cast type written anywhere inside the value - at any depth, in any slot the
     statement has - is reported *)
  Theorem C09_every_written_name_is_checked :
    forall p (e : exp V) s', run (von p) (compile_top e) sb0 = Some s' ->
      (forall self x, reaches V e (EIdent self x) -> validI x = false -> In (EkIdent, x) (errs s')) /\
      (forall x, reaches V e (EType x) -> validT x = false -> In (EkType, x) (errs s')).
  Proof.
    intros p e s' H.
    destruct (offenders_reported V validI validT p (compile_top e) s' (compile_plain_errs V e) H) as [RI RT].
    split.
    - intros self x Hr Hv. apply RI. split; [exact (reached_name_in_rendering V e self x Hr)|exact Hv].
    - intros x Hr Hv. apply RT. split; [exact (reached_type_in_rendering V e x Hr)|exact Hv].
  Qed.
End C09.

Local Open Scope string_scope.
(* non-vacuity: a name four levels down (CTE body -> sub-select in a function argument -> WHERE) is reached, and
   so is a cast type in an ON CONFLICT target *)
Definition nm (s : string) : exp nat := EIdent ENil s.
Definition sel1 (l : list (exp nat * string)) (wh : list (exp nat)) : exp nat :=
  ESelect [] [] (mkParts false [] None "" l [] wh false [] [] [] ENil ENil (mkLock "" [] "")).
Definition deep : exp nat :=
  ESelect [mkWithq false "w" [] None
             (sel1 [(EFuncExp ENil "f" [sel1 [(nm "a", "")] [EOp (nm "bad name") "=" (EArg 1) false]], "")] []) None]
    [] (mkParts false [] None "" [(nm "x", "")] [] [] false [] [] [] ENil ENil (mkLock "" [] "")).
Example C09_reaches_deep : reaches nat deep (nm "bad name").
Proof.
  eapply r_child; [cbn; left; reflexivity|].          (* the CTE body *)
  eapply r_child; [cbn; left; reflexivity|].          (* its select-list item: f(...) *)
  eapply r_child; [cbn; left; reflexivity|].          (* the sub-select argument *)
  eapply r_child; [cbn; right; left; reflexivity|].   (* its WHERE condition *)
  eapply r_child; [cbn; left; reflexivity|]. apply r_refl.
Qed.

(* finding D5: the ORDER BY of a set-operation branch is not a written child of the statement *)
Definition branch : parts (exp nat) :=
  mkParts false [] None "" [(nm "a", "")] [] [] false [] [] [mkObc (nm "bad name") "" ""] ENil ENil (mkLock "" [] "").
Definition last : parts (exp nat) :=
  mkParts false [] None "" [(nm "b", "")] [] [] false [] [] [] ENil ENil (mkLock "" [] "").
Example C09_D5_branch_tail_not_written :
  ~ In (inl (nm "bad name")) (wchildren nat (ESelect [] [mkComb branch "UNION" false] last)).
Proof. vm_compute. intro H. repeat (destruct H as [H|H]; [discriminate|]). exact H. Qed.

Print Assumptions C09_only_if.
Print Assumptions C09_every_written_name_is_checked.
Print Assumptions C09_reaches_deep.
Print Assumptions C09_D5_branch_tail_not_written.
Print Assumptions C09_reports.
Print Assumptions C09_not_emitted.
