(* C09 - validation reaches every name and type, failures are reported, not rendered.
   Statements only.  [idents] / [wtypes] are the names and cast types the rendering of a value visits. *)
From Coq Require Import String List Bool.
From QRB Require Import Base.Bytes Model.W Model.Values Model.Compile Model.WValid Model.CompileFacts.
Import ListNotations.

Section C09.
  Variable V : Type.
  Variables validI validT : string -> bool.
  Notation run := (run validI validT).

  (* rendering with validation succeeds without error only if every visited name and type is valid *)
  Theorem C09_only_if :
    forall p (e : exp V) s', run (von p) (compile_top e) sb0 = Some s' -> errs s' = [] ->
      Forall (fun x => validI x = true) (idents V (compile_top e)) /\
      Forall (fun x => validT x = true) (wtypes V (compile_top e)).
  Proof. intros p e. exact (no_error_means_all_valid V validI validT p (compile_top e)). Qed.

  (* the error list contains the name (type) sentinel with string x exactly for the visited, invalid x:
     every offender is reported, nothing else is *)
  Theorem C09_reports :
    forall p (e : exp V) s', run (von p) (compile_top e) sb0 = Some s' ->
      (forall x, In (EkIdent, x) (errs s') <-> In x (idents V (compile_top e)) /\ validI x = false) /\
      (forall x, In (EkType, x) (errs s') <-> In x (wtypes V (compile_top e)) /\ validT x = false).
  Proof.
    intros p e s'. exact (offenders_reported V validI validT p (compile_top e) s' (compile_plain_errs V e)).
  Qed.

  (* no offending item is emitted: every name / type chunk of the output is valid *)
  Theorem C09_not_emitted :
    forall p (e : exp V) s', run (von p) (compile_top e) sb0 = Some s' ->
      Forall (fun x => validI x = true) (out_idents (out s')) /\
      Forall (fun x => validT x = true) (out_types (out s')).
  Proof. intros p e. exact (emitted_names_are_valid V validI validT p (compile_top e)). Qed.

  (* the exact error list and the exact validated output of one rendering *)
  Theorem C09_exact :
    forall p (e : exp V) s', run (von p) (compile_top e) sb0 = Some s' ->
      errs s' = expected_errs V validI validT (compile_top e) /\
      out_idents (out s') = filter validI (idents V (compile_top e)) /\
      out_types (out s') = filter validT (wtypes V (compile_top e)).
  Proof. intros p e s' H. exact (validating_run V validI validT p (compile_top e) sb0 s' H). Qed.
End C09.

Print Assumptions C09_only_if.
Print Assumptions C09_reports.
Print Assumptions C09_not_emitted.
