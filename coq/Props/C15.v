(* C15 - pretty printing changes white space only.  Statements only (fragment level; the token-level
   corollary through the PostgreSQL lexer is in Props/C15Tokens.v). *)
From Coq Require Import String List.
From QRB Require Import Base.Bytes Model.W Model.Values Model.Compile Model.WModes.
Import ListNotations.

Section C15.
  Variable V : Type.
  Variables validI validT : string -> bool.
  Notation run := (run validI validT).

  (* for every value and validation setting: the pretty rendering succeeds iff the plain one does,
     the argument list, bind table and error list are equal, and the two chunk lists are equal
     position by position except that a pretty-dependent white-space chunk may differ *)
  Theorem C15_ws_only :
    forall v (e : exp V) a',
      run (pp v) (compile_top e) sb0 = Some a' ->
      exists b', run (pl v) (compile_top e) sb0 = Some b' /\ sb_rel V a' b'.
  Proof.
    intros v e a' H. apply (pretty_ws_only V validI validT v (compile_top e) sb0 sb0 a'); [|exact H].
    repeat split; constructor.
  Qed.

  (* ... and such a chunk consists of blanks and newlines in both modes: never part of a literal
     (literals are single CLit chunks) or of a quoted name *)
  Theorem C15_blank : forall k, all_blank (pws_pretty k) = true /\ all_blank (pws_plain k) = true.
  Proof. exact pws_blank. Qed.
End C15.

Print Assumptions C15_ws_only.
Print Assumptions C15_blank.
