(* C11 - builder values can be shared between goroutines.  Statements only.
   Partial: the Go memory model and scheduler are not modelled; what is proved is the ownership
   discipline from which race freedom follows, over an abstract trace of accesses. *)
From Coq Require Import String List Bool Arith Lia.
From QRB Require Import Meta.GoAst Meta.EffectIR Meta.Lower Gen.Ast Obl.Effects.
Import ListNotations.

(* an access of operation [op] (one derive or render call of some goroutine) to heap object [loc] *)
Record access := mkAcc { a_op : nat; a_loc : nat; a_write : bool }.

Section Race.
  Variable n0 : nat.                      (* objects 0 .. n0-1 exist before any of the operations starts (shared values) *)
  Variable owner : nat -> nat.            (* for objects allocated later: the operation that allocated them *)

  (* the discipline established per operation by C05_safe_sound: an operation writes only objects it
     allocated itself, and touches only shared objects or its own *)
  Definition disciplined (t : list access) : Prop :=
    forall a, In a t ->
      (a_write a = true -> n0 <= a_loc a /\ owner (a_loc a) = a_op a) /\
      (n0 <= a_loc a -> owner (a_loc a) = a_op a).

  (* then, in ANY interleaving (the trace is an arbitrary list), two accesses of different operations to
     the same object are both reads: there is no data race, and no operation can observe another's writes *)
  Theorem C11_no_conflicting_accesses :
    forall t, disciplined t ->
      forall a b, In a t -> In b t -> a_op a <> a_op b -> a_loc a = a_loc b ->
        a_write a = false /\ a_write b = false.
  Proof.
    intros t D a b Ha Hb Hop Hloc.
    destruct (D a Ha) as [Wa Oa]. destruct (D b Hb) as [Wb Ob].
    assert (Hs : a_loc a < n0).
    { destruct (Nat.lt_ge_cases (a_loc a) n0) as [L|G]; [assumption|].
      exfalso. apply Hop. rewrite <- (Oa G). rewrite Hloc in G. rewrite <- (Ob G). now rewrite Hloc. }
    split.
    - destruct (a_write a); [destruct (Wa eq_refl); lia|reflexivity].
    - destruct (a_write b); [destruct (Wb eq_refl) as [G _]; rewrite <- Hloc in G; lia|reflexivity].
  Qed.
End Race.

(* the premises hold for every value function of the current tree (C05: writes only to objects allocated
   during the call), for the render-local SQLBuilder (allocated inside ToSQL, never stored) and there is no
   package-level variable that is written after initialisation (the compiled patterns and the precedence
   table are only read; regexp.Regexp is documented as safe for concurrent use - trusted) *)
Theorem C11_premises_current_tree :
  all_value_fns_safe all_funcs = true /\ sb_local_ok all_funcs = true /\ no_global_writes all_funcs = true.
Proof. exact (conj value_fns_safe (conj sql_builder_local globals_never_written)). Qed.

Print Assumptions C11_no_conflicting_accesses.
Print Assumptions C11_premises_current_tree.
