(* C13 - executor adapters pass the rendered query through unchanged, exactly once.  Statements only. *)
From Coq Require Import String List Bool.
From QRB Require Import Meta.GoAst Meta.Cond Meta.Adapter Gen.Ast Obl.Adapter.
Import ListNotations.

(* what the check establishes for one method: when rendering succeeds there is exactly one executor
   call, of the corresponding method, with the caller's context, the rendered SQL and the rendered
   argument list spread as variadic arguments, and its results are returned unchanged *)
Theorem C13_forward_once_of_check :
  forall fs pkg name m extra, adapter_exec_ok fs pkg name m extra = true ->
  exists f ctx r0 rs,
    find_func fs pkg "ExecutiveQueryBuilder" name = Some f /\ fn_params f = [ctx] /\
    map pa_name (fn_results f) = r0 :: rs /\
    exists calls vals,
      exec_a (fn_recv_name f) (pa_name ctx) (r0 :: rs) false 10 (fn_body f) [] [] = Some (calls, vals) /\
      calls_eqb calls [mkCall m [SCtx; SSql; SArgs] true] = true /\
      avals_eqb vals (if extra then [SCallResult; SNil] else [SCallResult]) = true.
Proof.
  intros fs pkg name m extra H. unfold adapter_exec_ok in H.
  destruct (find_func fs pkg "ExecutiveQueryBuilder" name) as [f|]; [|discriminate].
  destruct (fn_params f) as [|ctx [|? ?]] eqn:Ep; try discriminate.
  destruct (map pa_name (fn_results f)) as [|r0 rs] eqn:Er; try discriminate.
  cbv zeta in H.
  destruct (exec_a (fn_recv_name f) (pa_name ctx) (r0 :: rs) true 10 (fn_body f) [] []) as [[c1 v1]|]; [|discriminate].
  destruct (exec_a (fn_recv_name f) (pa_name ctx) (r0 :: rs) false 10 (fn_body f) [] []) as [[c2 v2]|] eqn:E2; [|discriminate].
  apply andb_true_iff in H; destruct H as [H K4]. apply andb_true_iff in H; destruct H as [H K3].
  apply andb_true_iff in H; destruct H as [K1 K2].
  exists f, ctx, r0, rs. split; [reflexivity|]. split; [exact Ep|]. split; [exact Er|].
  exists c2, v2. split; [exact E2|]. split; assumption.
Qed.

(* on the current tree: all six methods; WithNamedArgs / WithoutValidation forward to the embedded
   query builder and return the receiver; both construction paths store qrb.Build(w) and the executor,
   so the (sql, args) that is forwarded is ToSQL of the same query, options and named arguments *)
Theorem C13_current_tree : adapter_execs_ok all_funcs = true /\ adapters_wiring_ok all_funcs = true.
Proof. exact (conj adapters_exec adapters_wiring). Qed.

Print Assumptions C13_forward_once_of_check.
Print Assumptions C13_current_tree.
