(* C14 - turning validation off changes nothing for valid queries.  Statements only. *)
From Coq Require Import String List.
From QRB Require Import Base.Bytes Model.W Model.Values Model.Compile Model.WModes Model.CompileFacts.
Import ListNotations.

Section C14.
  Variable V : Type.
  Variables validI validT : string -> bool.
  Notation run := (run validI validT).

  (* for every value, both pretty settings: if the validating rendering reports no validation
     error, the non-validating rendering is the same run: same text, arguments, bind table, errors *)
  Theorem C14_neutral :
    forall p (e : exp V) s1,
      run (on p) (compile_top e) sb0 = Some s1 -> vcount (errs s1) = 0 ->
      run (off p) (compile_top e) sb0 = Some s1.
  Proof.
    intros p e s1 H Hc.
    exact (validation_neutral V validI validT p (compile_top e) (compile_errv_ok V e) sb0 s1 H Hc).
  Qed.

  Corollary C14_neutral_to_sql :
    forall p sup (e : exp V) sql a,
      to_sql validI validT (on p) sup (compile_top e) = ROk sql a [] ->
      to_sql validI validT (off p) sup (compile_top e) = ROk sql a [].
  Proof.
    intros p sup e sql a. unfold to_sql.
    destruct (run (on p) (compile_top e) sb0) as [s1|] eqn:E; [|discriminate].
    intro H. assert (Hc : vcount (errs s1) = 0).
    { unfold finish in H. destruct (fill (named s1) sup (args s1)); [|discriminate].
      injection H as _ _ He. now rewrite He. }
    now rewrite (C14_neutral p e s1 E Hc).
  Qed.

  (* structural conflicts are reported in both modes *)
  Theorem C14_structural :
    forall p (e : exp V) s1 s2,
      run (on p) (compile_top e) sb0 = Some s1 -> run (off p) (compile_top e) sb0 = Some s2 ->
      structural (errs s1) = structural (errs s2).
  Proof.
    intros p e s1 s2 H1 H2.
    exact (structural_both_modes V validI validT p (compile_top e) (compile_errv_ok V e) sb0 sb0 s1 s2 H1 H2 eq_refl).
  Qed.
End C14.

(* non-vacuity: values+query conflict is reported with validation off, the invalid name is not *)
Local Open Scope string_scope.
Example C14_example :
  let e : exp nat := EInsert (mkIns [] (EIdent ENil "t") "" None false (Some [[EIdent ENil "1x"]])
                      (ESelect [] [] (mkParts false [] None "" [] [] [] false [] [] [] ENil ENil (mkLock "" [] "")))
                      [] [] "" "" [] [] []) in
  (match to_sql (fun s => String.eqb s "t") (fun _ => true) (off false) [] (compile_top e) with
   | ROk _ _ errs => errs | _ => [] end) = [(EkValuesQuery, ""%string)].
Proof. vm_compute. reflexivity. Qed.

Print Assumptions C14_neutral.
Print Assumptions C14_neutral_to_sql.
Print Assumptions C14_structural.
