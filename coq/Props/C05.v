(* C05 - builder values are immutable: deriving never changes an existing value.  Statements only.
   Immutability is a statement about Go memory, so it is stated over the effect IR (a heap of objects,
   slices / maps / pointers as access paths) into which every function of the library is lowered from
   the AST that is regenerated from /repo on every run. *)
From Coq Require Import String List Bool.
From QRB Require Import Meta.GoAst Meta.EffectIR Meta.Lower Gen.Ast Obl.Effects.
Import ListNotations.

(* the meta-theorem: a body accepted by the freshness checker, executed in ANY heap and environment,
   with loops running any number of times and append taking either the in-place or the reallocating
   branch, leaves every object that existed at entry unchanged (except the objects of the render-local
   SQLBuilder it was handed) *)
Theorem C05_safe_sound :
  forall (is_sb : nat -> bool) fuel body F' st st',
    chks fuel body [] = Some F' -> execs is_sb body st st' ->
    forall l, l < length (heap st) -> is_sb l = false -> nth_error (heap st') l = nth_error (heap st) l.
Proof. exact safe_sound. Qed.

(* on the current tree: every function and every method with a value receiver of the root, builder and fn
   packages (420 of them, incl. all 'modify the last item' methods and the slice map) is accepted;
   cloneSlice - the one helper that writes through a pointer parameter - has exactly the copying body;
   pointer receivers exist only on the render handle, the SQL builder, the JSON batch builder and the
   slice map's in-place setter; Start() clones and End() copies the batch builder's entries *)
Theorem C05_current_tree :
  all_value_fns_safe all_funcs = true /\ clone_slice_ok all_funcs = true /\ ptr_census_ok all_funcs = true /\
  batch_end_copies all_funcs = true.
Proof. exact (conj value_fns_safe (conj clone_slice_template (conj ptr_census batch_builder_copies))). Qed.

(* the checker really rejects the sharing bugs it is meant to exclude *)
Example C05_append_without_clone_rejected :
  (* newBuilder := b; newBuilder.items = append(newBuilder.items, x) *)
  chks 10 [IClobber ["newBuilder"]; IAppend ["newBuilder"; "items"] ["newBuilder"; "items"]]%string [] = None.
Proof. reflexivity. Qed.
Example C05_edit_last_without_clone_rejected :
  chks 10 [IClobber ["newBuilder"]; IWrite ["newBuilder"; "items"]]%string [] = None.
Proof. reflexivity. Qed.
Example C05_clone_then_append_accepted :
  chks 10 [IClobber ["newBuilder"]; IAlloc ["newBuilder"; "items"];
           IAppend ["newBuilder"; "items"] ["newBuilder"; "items"]; IWrite ["newBuilder"; "items"]]%string [] <> None.
Proof. discriminate. Qed.

Print Assumptions C05_safe_sound.
Print Assumptions C05_current_tree.
