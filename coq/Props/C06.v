(* C06 - literal values are data: emitted verbatim as one token, never as syntax.  Statements only.
   The oracle is the PostgreSQL lexer of coq/Pg/Lexer.v under both settings of
   standard_conforming_strings. *)
From Coq Require Import String List Ascii ZArith DecimalString.
From QRB Require Import Base.Bytes Model.W Pg.Lexer Pg.LexerFacts.
Import ListNotations.

(* Strings (string literals, interval specifications, JSON keys, ESCAPE characters all go through
   the model of pqQuoteLiteral, Model.W.quote_lit): for every byte string without NUL, in every lexer
   state [st] that is not inside a quoted construct - and, for the plain form only, in which a quote
   opens a string constant (i.e. not directly after a lone E / B / X / N / U& or a closed string) -
   and whatever text [post] follows, as long as its first non-blank character is not a quote:
   the lexer yields the pending tokens, ONE string constant whose value is exactly s, and then the
   tokens of [post] lexed on its own.  No content can terminate the literal, start a comment or add
   tokens, under either backslash setting. *)
Theorem C06_string :
  forall scs st ts0 s post,
    no_nul s ->
    close st = Some ts0 ->
    (contains_byte "\"%char s = false -> lstep scs st "'" = (LStr (negb scs) EmptyString, ts0)) ->
    follow_ok post = true ->
    lex_from scs st (append (quote_lit s) post) =
    option_map (fun t => ts0 ++ TStr s :: t) (lex_from scs LInit post).
Proof. exact quoted_literal_is_one_token. Qed.

(* at the start of a token (after a blank, '(' ',' '[' ...: state LInit) the side condition holds *)
Corollary C06_string_at_token_start :
  forall scs s post, no_nul s -> follow_ok post = true ->
    pg_lex scs (append (quote_lit s) post) = option_map (cons (TStr s)) (pg_lex scs post).
Proof.
  intros scs s post Hn Hf. unfold pg_lex.
  rewrite (quoted_literal_is_one_token scs LInit [] s post Hn eq_refl); [|intros _; reflexivity|exact Hf].
  destruct (lex_from scs LInit post); reflexivity.
Qed.

(* Integers: strconv.Itoa gives an optional minus sign and one numeric constant that reads back,
   in decimal, as exactly the Go value. *)
Theorem C06_int :
  forall scs z, exists ds,
    all_digits ds = true /\ ds <> EmptyString /\
    z_dec z = (if (z <? 0)%Z then String "-" ds else ds) /\
    pg_lex scs (z_dec z) = Some ((if (z <? 0)%Z then [TSelf "-"] else []) ++ [TNum ds]) /\
    option_map Z.of_int (NilZero.int_of_string (z_dec z)) = Some z.
Proof. exact int_literal. Qed.

(* Booleans are the words true / false *)
Example C06_bool : forall scs,
  pg_lex scs "true" = Some [TWord "true" false] /\ pg_lex scs "false" = Some [TWord "false" false].
Proof. intros [|]; split; reflexivity. Qed.

(* non-vacuity and the classic attack strings *)
Example C06_examples :
  pg_lex true (append "x = " (append (quote_lit "a'; DROP TABLE t; --") " AND y"))
    = Some [TWord "x" false; TSelf "="; TStr "a'; DROP TABLE t; --"; TWord "AND" false; TWord "y" false] /\
  pg_lex false (append "f(" (append (quote_lit "\' OR 1=1 /*") ")"))
    = Some [TWord "f" false; TSelf "("; TStr "\' OR 1=1 /*"; TSelf ")"] /\
  pg_lex true (append "f(" (append (quote_lit "\' OR 1=1 /*") ")"))
    = Some [TWord "f" false; TSelf "("; TStr "\' OR 1=1 /*"; TSelf ")"].
Proof. repeat split; vm_compute; reflexivity. Qed.

(* the hypothesis "no NUL" is necessary: a NUL byte ends the query text (known finding D9) *)
Example C06_refuted_nul : pg_lex true (quote_lit (String "a" (String (ascii_of_N 0) "b"))) = None.
Proof. vm_compute. reflexivity. Qed.

(* the side condition on the preceding state is necessary for the plain form: glued to a lone E the
   quote would open an escape string (never happens in qrb: see the context check of the C06 run) *)
Example C06_context_matters : pg_lex true (append "E" (quote_lit "a")) = Some [TStr "a"].
Proof. vm_compute. reflexivity. Qed.

Print Assumptions C06_string.
Print Assumptions C06_string_at_token_start.
Print Assumptions C06_int.
