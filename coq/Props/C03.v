(* C03 - positional placeholders and the argument list correspond one-to-one.
   Statements only; every proof is [exact] of a lemma of Model/WArgs.v. *)
From Coq Require Import String List.
From QRB Require Import Base.Bytes Model.W Model.Values Model.Compile Model.WArgs Model.Api Model.Ctor Model.CtorFacts.
Import ListNotations.

Section C03.
  Variable V : Type.                               (* argument values: abstract, no equality *)
  Variables validI validT : string -> bool.       (* the two validation patterns, arbitrary *)

  (* for every value of the library (any nesting depth), options and supplied map: *)
  Theorem C03_placeholders_enumerate :
    forall o sup (e : exp V) sql a errs,
      to_sql validI validT o sup (compile_top e) = ROk sql a errs ->
      firsts (params sql) = seq 1 (length a) /\
      (forall j, j < length a -> exists v, nth_error a j = Some (Some v)).
  Proof. intros o sup e. exact (placeholders_enumerate V validI validT o sup (compile_top e)). Qed.

  Theorem C03_substitution_restores_composition :
    forall o sup (e : exp V) sql a errs,
      to_sql validI validT o sup (compile_top e) = ROk sql a errs ->
      exists il, inline V validI validT o (compile_top e) = Some il /\
                 map (subst V a) sql = map (resolve V sup) il.
  Proof. intros o sup e. exact (substitution_is_inline V validI validT o sup (compile_top e)). Qed.

  (* the same for an arbitrary writer tree (what any future WriteSQL method can do) *)
  Theorem C03_any_writer :
    forall o sup (w : W V) sql a errs,
      to_sql validI validT o sup w = ROk sql a errs ->
      firsts (params sql) = seq 1 (length a) /\
      exists il, inline V validI validT o w = Some il /\ map (subst V a) sql = map (resolve V sup) il.
  Proof.
    intros o sup w sql a errs H. split.
    - exact (proj1 (placeholders_enumerate V validI validT o sup w sql a errs H)).
    - exact (substitution_is_inline V validI validT o sup w sql a errs H).
  Qed.

  (* the constructor level: Args(v1 .. vn) - as modelled in Model/Ctor.v and compared call by call with the
     implementation - binds exactly v1 .. vn, one slot each, in order, whether or not values repeat *)
  Theorem C03_args_one_slot_per_value :
    forall o sup (vs : list V) r,
      lookup_h V "Args" exp_ctors [AAnys vs] = Some r ->
      exists sql, to_sql validI validT o sup (compile r) = ROk sql (map Some vs) [].
  Proof. exact (args_one_slot_each V validI validT). Qed.
End C03.

(* non-vacuity: two equal values and a reused name really produce three slots *)
Example C03_example :
  to_sql (fun _ => true) (fun _ => true) (Build_opts true false) [("n"%string, 9)]
    (compile_top (EExprs [EArg 7; EBind "n"%string; EArg 7; EBind "n"%string]))
  = ROk [CKw "("; CParam 1; CKw ","; CParam 2; CKw ","; CParam 3; CKw ","; CParam 2; CKw ")"]
        [Some 7; Some 9; Some 7] [].
Proof. vm_compute. reflexivity. Qed.

Print Assumptions C03_placeholders_enumerate.
Print Assumptions C03_substitution_restores_composition.
Print Assumptions C03_any_writer.
Print Assumptions C03_args_one_slot_per_value.
Print Assumptions C03_example.
