(* C19 - conditional combinators are exactly if / else.  Statements only.
   The five bodies (SelectBuilder.ApplyIf, UpdateBuilder.ApplyIf, JsonBuildObjectBuilder.PropIf /
   ApplyIf, the batch builder's PropIf) are read from the current source (Gen.Ast) and run by the
   interpreter of Meta/Cond.v on the whole input space (condition x nil-ness of the function). *)
From Coq Require Import String List Bool.
From QRB Require Import Meta.GoAst Meta.Cond Gen.Ast Obl.Cond Model.Values Model.JsonMap Model.Api Model.ApiFacts.
Import ListNotations.

(* what the check establishes for one combinator *)
Theorem C19_law_of_check :
  forall fs s, cond_ok fs s = true ->
  exists f, find_func fs (cs_pkg s) (cs_recv s) (cs_name s) = Some f /\
    let run c nn := exec (fn_recv_name f) (first_param_name f)
                      (if cs_fn_param s then match rest_param_names f with [x] => Some x | _ => None end else None)
                      c nn 20 (fn_body f) [] in
    (* false condition: the receiver is returned, nothing is called *)
    (exists r, run false true = Some ([], r) /\ action_eqb r ARecv = true) /\
    (exists r, run false false = Some ([], r) /\ action_eqb r ARecv = true).
Proof.
  intros fs s H. unfold cond_ok in H.
  destruct (find_func fs (cs_pkg s) (cs_recv s) (cs_name s)) as [f|]; [|discriminate].
  exists f. split; [reflexivity|]. cbv zeta in *.
  repeat (apply andb_true_iff in H; destruct H as [H ?]).
  split.
  - match goal with K : context [exec _ _ _ false true] |- _ => revert K end.
    destruct (exec _ _ _ false true _ _ _) as [[e r]|]; [|discriminate]. intro K.
    destruct e; [|cbn in K; rewrite andb_false_r in K; discriminate]. exists r. split; [reflexivity|].
    now repeat (apply andb_true_iff in K; destruct K as [K _]).
  - match goal with K : context [exec _ _ _ false false] |- _ => revert K end.
    destruct (exec _ _ _ false false _ _ _) as [[e r]|]; [|discriminate]. intro K.
    destruct e; [|cbn in K; rewrite andb_false_r in K; discriminate]. exists r. split; [reflexivity|].
    now repeat (apply andb_true_iff in K; destruct K as [K _]).
Qed.

(* on the current tree: all five combinators satisfy the law (true condition: exactly one direct
   application / set; false condition: receiver, no call), and there is no sixth one *)
Theorem C19_current_tree :
  forallb (cond_ok all_funcs) cond_specs = true /\ cond_census_ok all_funcs = true.
Proof. exact (conj cond_fns_ok cond_census). Qed.

(* And / Or build the junction of nonNil(operands); nonNil is the order-preserving nil filter *)
Theorem C19_and_or_current_tree :
  junction_ctor_ok all_funcs "And" "AND" && junction_ctor_ok all_funcs "Or" "OR" = true /\
  nonnil_filter_ok all_funcs = true.
Proof. exact (conj and_or_ok nonnil_ok). Qed.

Section Nil.
  Variable V : Type.
  Definition non_nil (l : list (exp V)) : list (exp V) := filter (fun e => negb (is_nil e)) l.

  (* a nil operand at any position is skipped, the others keep their order *)
  Theorem C19_nil_skipped : forall l1 l2 : list (exp V), non_nil (l1 ++ ENil :: l2) = non_nil (l1 ++ l2).
  Proof. intros. unfold non_nil. now rewrite !filter_app. Qed.

  Theorem C19_order_kept : forall l : list (exp V), Forall (fun e => is_nil e = false) l -> non_nil l = l.
  Proof.
    unfold non_nil. induction 1 as [|x r Hx _ IH]; cbn [filter]; [reflexivity|]. rewrite Hx. cbn [negb]. now rewrite IH.
  Qed.

  (* the model-level laws used by the C16 histories *)
  Theorem C19_propif : forall (j : jobj V) k v,
    s_step j (SoPropIf true k v) = s_step j (SoProp k v) /\ s_step j (SoPropIf false k v) = j.
  Proof. intros. split; reflexivity. Qed.
  Theorem C19_applyif : forall (j : jobj V) l,
    j_step j (JApplyIf true l) = fold_left s_step l j /\ j_step j (JApplyIf false l) = j.
  Proof. intros. split; reflexivity. Qed.
End Nil.

(* the same law in the functional model of the builder methods (Model/Api.v, compared call by call with the
   implementation; [r] is what the function returns on the receiver, ENil a nil function): a false condition or a nil
   function returns the receiver, a true condition what the function returns *)
Theorem C19_api_applyif_select :
  forall (V : Type) w c p (r : exp V),
    call V "ApplyIf" [ABool false; AExp r] (Some (ESelect w c p)) = Some (ESelect w c p) /\
    call V "ApplyIf" [ABool true; AExp ENil] (Some (ESelect w c p)) = Some (ESelect w c p) /\
    (is_nil r = false -> call V "ApplyIf" [ABool true; AExp r] (Some (ESelect w c p)) = Some r).
Proof. intros V w c p r. repeat split. intro H. unfold call, opt_bind. cbn. now rewrite H. Qed.

Theorem C19_api_applyif_update :
  forall (V : Type) b (r : exp V),
    call V "ApplyIf" [ABool false; AExp r] (Some (EUpdate b)) = Some (EUpdate b) /\
    call V "ApplyIf" [ABool true; AExp ENil] (Some (EUpdate b)) = Some (EUpdate b) /\
    (is_nil r = false -> call V "ApplyIf" [ABool true; AExp r] (Some (EUpdate b)) = Some r).
Proof. intros V b r. repeat split. intro H. unfold call, opt_bind. cbn. now rewrite H. Qed.

Print Assumptions C19_law_of_check.
Print Assumptions C19_api_applyif_select.
Print Assumptions C19_api_applyif_update.
Print Assumptions C19_current_tree.
Print Assumptions C19_and_or_current_tree.
Print Assumptions C19_nil_skipped.
