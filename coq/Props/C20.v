(* C20 - rendering never panics and terminates.  Statements only.
   Termination: [run] and [compile] are structurally recursive Coq functions over finite values.
   No panic: well-formed values (Model/Wfe.v: no nil interface where a method is called, a plain
   grouping element has a set) render normally under every option combination and supplied map.
   Reachability: every statement value obtained from an entry point (Select, SelectJson, InsertInto, Update,
   DeleteFrom, With, WithRecursive) by
   any number of the modelled builder methods (Model/Api.v, compared call by call with the implementation) is
   well-formed, provided the expressions handed in are well-formed themselves - so no sequence of those calls
   can produce a value that makes the renderer panic (C20_reachable_no_panic). *)
From Coq Require Import String List ZArith.
From QRB Require Import Base.Bytes Model.W Model.Values Model.Compile Model.WModes Model.Wfe Model.CompileFacts Model.Handle Model.Api Model.ApiFacts Model.Ctor Model.CtorFacts.
Import ListNotations.

Section C20.
  Variable V : Type.
  Variables validI validT : string -> bool.

  Theorem C20_no_panic :
    forall o sup (e : exp V), wfe e = true -> to_sql validI validT o sup (compile_top e) <> RPanic.
  Proof.
    intros o sup e H. unfold to_sql.
    destruct (proj2 (run_total V validI validT o (compile_top e) sb0) (compile_no_panic V e H)) as [s' E].
    rewrite E. unfold finish. destruct (fill (named s') sup (args s')); discriminate.
  Qed.

  (* the outcome panic / no panic never depends on options, state or supplied values *)
  Theorem C20_outcome_static :
    forall o (w : W V) s, (exists s', run validI validT o w s = Some s') <-> panics V w = false.
  Proof. exact (run_total V validI validT). Qed.

  (* one modelled builder call keeps a statement value well-formed *)
  Theorem C20_builder_call_preserves_wf :
    forall rtype meth (recv : exp V) args r,
      wfe recv = true -> forallb (aarg_wfe V) args = true -> query_ok V (mkey rtype meth) args ->
      api rtype meth recv args = Some r -> wfe r = true.
  Proof. exact (api_wfe V). Qed.

  (* the expression side: every modelled constructor (Arg, Args, Bind, N, literals, Array, Exps, And, Or, Not, Neg, Exists,
     Any, All, Func, FuncExp, Agg, Coalesce, NullIf, Greatest, Least, RowsFrom) and every modelled method of an expression
     value (the 35 operators and predicates inherited from ExpBase, Escape, the refinements of FuncBuilder,
     AggExpBuilder, RowsFromBuilder) yields a well-formed value with a well-formed self handle ([hwf]) from well-formed
     arguments: expressions composed through them are fit to be handed to the statement builders above *)
  Theorem C20_constructor_preserves_wf :
    forall name args (r : exp V),
      forallb (aarg_wfe V) args = true -> lookup_h V name exp_ctors args = Some r -> hwf V r = true.
  Proof. exact (ctor_wfe V). Qed.

  Theorem C20_method_preserves_wf :
    forall key (recv : exp V) args r,
      hwf V recv = true -> forallb (aarg_wfe V) args = true ->
      lookup_h V key (exp_meth_handlers recv) args = Some r -> hwf V r = true.
  Proof. exact (meth_wfe V). Qed.

  (* the closure of all of it: a value built by any nesting of modelled constructors, expression methods, CASE chains
     (Case().When().Then()...[Else()].End(), whose handlers compose to the value - case_chain_result), entry points,
     statement-builder and WITH-builder methods - every expression argument being built the same way, hence never a nil
     interface - renders without panic under every option combination and supplied map *)
  Theorem C20_built_no_panic :
    forall o sup (e : exp V), built V e -> to_sql validI validT o sup (compile_top e) <> RPanic.
  Proof. intros o sup e H. apply C20_no_panic. exact (built_wfe V e H). Qed.

  (* ... hence every statement reachable through the modelled API renders without a panic, under every
     option combination and supplied map, whatever the length of the call chain *)
  Theorem C20_reachable_no_panic :
    forall o sup (e : exp V), reachable V e -> to_sql validI validT o sup (compile_top e) <> RPanic.
  Proof. intros o sup e H. apply C20_no_panic. exact (reachable_wfe V e H). Qed.
End C20.

(* a nil expression handed to the library is a panic site: the hypothesis is necessary *)
Example C20_nil_panics :
  to_sql (fun _ => true) (fun _ => true) (Build_opts true false) [] (compile_top (EExists (@ENil nat))) = RPanic.
Proof. vm_compute. reflexivity. Qed.

(* non-vacuity: Select(a).From(t).As("x").Where(a = 1).Limit(1) is reachable *)
Local Open Scope string_scope.
Example C20_reachable_example :
  let a := EIdent (@ENil nat) "a" in
  let chain := [("SelectSelectBuilder", "From", [AExp (EIdent ENil "t")]); ("FromSelectBuilder", "As", [AStr "x"]);
                ("FromSelectBuilder", "Where", [AExp (EOp a "=" (EInt 1%Z) false)]); ("SelectBuilder", "Limit", [AExp (EInt 1%Z)]);
                ("SelectBuilder", "Union", []); ("CombinationBuilder", "Select", [AExps [a]])] in
  exists e, run_chain nat (entry "Select" [AExps [a]]) chain = Some e /\ reachable nat e /\
    e = ESelect [] [mkComb (p_set_limit nat (p_set_where nat (p_set_from nat (p_set_list nat (empty_parts nat) [(a, "")])
                         [mkFromItem false false (EIdent ENil "t") "x" []]) [EOp a "=" (EInt 1%Z) false]) (EInt 1%Z)) "UNION" false]
                (p_set_list nat (empty_parts nat) [(a, "")]).
Proof.
  intros a chain. eexists. split; [vm_compute; reflexivity|]. split; [|reflexivity].
  apply (chain_reachable nat "Select" [AExps [a]] chain); vm_compute; reflexivity.
Qed.

(* ... and so is With("r").As(Select(a)).Select(a) *)
Example C20_reachable_with_example :
  let a := EIdent (@ENil nat) "a" in
  let q := ESelect [] [] (p_set_list nat (empty_parts nat) [(a, "")]) in
  reachable nat (ESelect [mkWithq false "r" [] None q None] [] (p_set_list nat (empty_parts nat) [(a, "")])).
Proof.
  intros a q.
  eapply (reach_with nat "Select" (WB [mkWithq false "r" [] None q None]) [AExps [a]]); [|reflexivity|vm_compute; reflexivity].
  eapply (rw_step nat "As" (WWB [mkWithq false "r" [] None ENil None]) [AExp q]); [|reflexivity|vm_compute; reflexivity].
  eapply (rw_entry nat "With" [AStr "r"]). vm_compute. reflexivity.
Qed.

(* non-vacuity of [built]: Select(N("a").Eq(Arg(7))).From(N("t")) in four levels *)
Example C20_built_example :
  let a := set_self (EIdent (@ENil nat) "a") in
  let t := set_self (EIdent (@ENil nat) "t") in
  let cond := EBase (EOp (EIdent ENil "a") "=" (EArg 7) false) in
  built nat (ESelect [] [] (p_set_from nat (p_set_list nat (empty_parts nat) [(cond, "")]) [mkFromItem false false t "" []])).
Proof.
  intros a t cond. exists 4.
  assert (Ha : fst (builtn nat 1) a) by (apply (bn_ctor nat 0 "N" [AStr "a"]); [apply Forall_cons; [exact I|apply Forall_nil]|reflexivity]).
  assert (Ht : fst (builtn nat 1) t) by (apply (bn_ctor nat 0 "N" [AStr "t"]); [apply Forall_cons; [exact I|apply Forall_nil]|reflexivity]).
  assert (H7 : fst (builtn nat 1) (EBase (EArg 7))) by (apply (bn_ctor nat 0 "Arg" [AAny 7]); [apply Forall_cons; [exact I|apply Forall_nil]|reflexivity]).
  assert (Hc : fst (builtn nat 2) cond).
  { apply (bn_meth nat 1 "ExpBase.Eq" a [AExp (EBase (EArg 7))]); [exact Ha|apply Forall_cons; [exact H7|apply Forall_nil]|reflexivity]. }
  assert (Hs : fst (builtn nat 3) (ESelect [] [] (p_set_list nat (empty_parts nat) [(cond, "")]))).
  { apply (bn_entry nat 2 "Select" [AExps [cond]]); [apply Forall_cons; [apply Forall_cons; [exact Hc|apply Forall_nil]|apply Forall_nil]|reflexivity]. }
  apply (bn_step nat 3 "SelectSelectBuilder" "From" (ESelect [] [] (p_set_list nat (empty_parts nat) [(cond, "")])) [AExp t]);
    [exact Hs|apply Forall_cons; [apply (bn_mono nat 1 3); [repeat constructor|exact Ht]|apply Forall_nil]|intro E; vm_compute in E; discriminate|reflexivity].
Qed.

(* the JSON object builder is inside [built] since its calls are modelled (Model/Ctor.v):
   JsonBuildObject(true).Prop("k", N("a")).Unset("z") in three levels *)
Example C20_built_json_example :
  let a := set_self (EIdent (@ENil nat) "a") in
  built nat (EJson true [("k"%string, a)]).
Proof.
  intros a. exists 3.
  assert (Ha : fst (builtn nat 1) a) by (apply (bn_ctor nat 0 "N" [AStr "a"]); [apply Forall_cons; [exact I|apply Forall_nil]|reflexivity]).
  assert (Hj : fst (builtn nat 1) (EJson true [])) by (apply (bn_ctor nat 0 "JsonBuildObject" [ABool true]); [apply Forall_cons; [exact I|apply Forall_nil]|reflexivity]).
  assert (Hp : fst (builtn nat 2) (EJson true [("k"%string, a)])).
  { apply (bn_meth nat 1 "JsonBuildObjectBuilder.Prop" (EJson true []) [AStr "k"; AExp a]);
      [exact Hj|apply Forall_cons; [exact I|apply Forall_cons; [exact Ha|apply Forall_nil]]|reflexivity]. }
  apply (bn_meth nat 2 "JsonBuildObjectBuilder.Unset" (EJson true [("k"%string, a)]) [AStr "z"]);
    [exact Hp|apply Forall_cons; [exact I|apply Forall_nil]|reflexivity].
Qed.

Print Assumptions C20_no_panic.
Print Assumptions C20_built_json_example.
Print Assumptions C20_built_no_panic.
Print Assumptions C20_built_example.
Print Assumptions C20_constructor_preserves_wf.
Print Assumptions C20_method_preserves_wf.
Print Assumptions C20_reachable_with_example.
Print Assumptions C20_builder_call_preserves_wf.
Print Assumptions C20_reachable_no_panic.
Print Assumptions C20_reachable_example.
Print Assumptions C20_outcome_static.
