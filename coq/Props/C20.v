(* C20 - rendering never panics and terminates.  Statements only.
   Termination: [run] and [compile] are structurally recursive Coq functions over finite values.
   No panic: well-formed values (Model/Wfe.v: no nil interface where a method is called, a plain
   grouping element has a set) render normally under every option combination and supplied map. *)
From Coq Require Import String List.
From QRB Require Import Base.Bytes Model.W Model.Values Model.Compile Model.WModes Model.Wfe Model.CompileFacts.
Import ListNotations.

Section C20.
  Variable V : Type.
  Variables validI validT : string -> bool.

  Theorem C20_no_panic :
    forall o sup (e : exp V), wfe e = true -> to_sql validI validT o sup (compile_top e) <> RPanic.
  Proof.
    intros o sup e H. unfold to_sql.
    destruct (proj2 (run_total V validI validT o (compile_top e) sb0) (compile_no_panic V e H)) as [s' E].
    rewrite E. unfold finish. destruct (fill (named s') sup (args s')); discriminate.
  Qed.

  (* the outcome panic / no panic never depends on options, state or supplied values *)
  Theorem C20_outcome_static :
    forall o (w : W V) s, (exists s', run validI validT o w s = Some s') <-> panics V w = false.
  Proof. exact (run_total V validI validT). Qed.
End C20.

(* a nil expression handed to the library is a panic site: the hypothesis is necessary *)
Example C20_nil_panics :
  to_sql (fun _ => true) (fun _ => true) (Build_opts true false) [] (compile_top (EExists (@ENil nat))) = RPanic.
Proof. vm_compute. reflexivity. Qed.

Print Assumptions C20_no_panic.
Print Assumptions C20_outcome_static.
