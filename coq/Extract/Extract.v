(* Extraction of the executable model for the correspondence check.
   Directives used: those of ExtrOcamlBasic and ExtrOcamlString only; nat, N, Z stay Coq datatypes. *)
From Coq Require Import ExtrOcamlBasic ExtrOcamlString.
From QRB Require Import Model.Sexp Model.Driver.
Extraction Language OCaml.
Extraction "model.ml" handle SAtom SList.
