(* PostgreSQL's expression grammar as far as operator precedence and associativity are concerned
   (gram.y: the %left / %right / %nonassoc table of a_expr), in two forms:
   - [Derives]: a stratified derivation relation (each construct yields the precedence level of its top
     operator; operands must sit strictly / weakly above the operator's level as the associativity
     demands).  It is the STRICT sub-grammar: whatever it derives, PostgreSQL parses to the same tree.
   - [parse_expr]: an executable precedence-climbing reader implementing the yacc table (incl. prefix
     operators in operand position), used to evaluate implementation output and to search for failing
     inputs.  No theorem depends on it. *)
From Coq Require Import String List Ascii Bool Arith NArith.
From QRB Require Import Base.Bytes Pg.Lexer.
Import ListNotations.
Local Open Scope string_scope.
Local Open Scope list_scope.

(* ---------------------------------------------------------------- precedence table (low to high) *)
Definition L_OR := 1. Definition L_AND := 2. Definition L_NOT := 3. Definition L_IS := 4.
Definition L_CMP := 5. Definition L_LIKE := 6. Definition L_OP := 8. Definition L_ADD := 9.
Definition L_MUL := 10. Definition L_POW := 11. Definition L_UMINUS := 14. Definition L_CAST := 17.
Definition L_MAX := 20.          (* atoms, parenthesised expressions, function calls *)

Inductive assoc := ALeft | ARight | ANon.

Definition upper (s : string) : string :=
  string_of_list (map (fun c => let n := N_of_ascii c in
                                if ((97 <=? n) && (n <=? 122))%N then ascii_of_N (n - 32) else c) (list_of_string s)).

Definition str_in (s : string) (l : list string) : bool := existsb (String.eqb s) l.

(* a binary operator given by its spelling (symbol or keyword) *)
Definition binop_level (op : string) : nat * assoc :=
  let u := upper op in
  if String.eqb u "OR" then (L_OR, ALeft) else if String.eqb u "AND" then (L_AND, ALeft)
  else if str_in u ["<"; ">"; "="; "<="; ">="; "<>"; "!="] then (L_CMP, ANon)
  else if str_in u ["LIKE"; "ILIKE"; "SIMILAR TO"; "NOT LIKE"; "NOT ILIKE"; "NOT SIMILAR TO"; "IN"; "NOT IN"; "BETWEEN";
                    "SIMILAR"] then (L_LIKE, ANon)
  else if str_in u ["IS"; "ISNULL"; "NOTNULL"] then (L_IS, ANon)
  else if str_in u ["+"; "-"] then (L_ADD, ALeft)
  else if str_in u ["*"; "/"; "%"] then (L_MUL, ALeft)
  else if String.eqb u "^" then (L_POW, ALeft)
  else if String.eqb u "::" then (L_CAST, ALeft)
  else if String.eqb u "NOT" then (L_NOT, ARight)
  else (L_OP, ALeft).

(* ---------------------------------------------------------------- expression trees *)
(* A: what an operand that is not itself an operator expression is (the theorems keep it abstract, the
   reader uses the operand's tokens); T: a type name *)
Inductive pexpr (A T : Type) :=
| PAtom (a : A)                               (* name path, literal, parameter, call, CASE, sub-select ... *)
| PCall (name : string) (args : list (pexpr A T))
| PList (l : list (pexpr A T))                (* ( a, b, c ) *)
| PBin (op : string) (l r : pexpr A T)        (* infix operators incl. AND OR LIKE ... IN, NOT IN; op upper-cased *)
| PPre (op : string) (e : pexpr A T)          (* NOT, unary minus *)
| PPost (op : string) (e : pexpr A T)         (* IS NULL, IS NOT NULL *)
| PCast (e : pexpr A T) (ty : T)
| PEsc (e : pexpr A T) (esc : A).             (* pattern-match expression with ESCAPE *)
Arguments PAtom {A T}. Arguments PCall {A T}. Arguments PList {A T}. Arguments PBin {A T}.
Arguments PPre {A T}. Arguments PPost {A T}. Arguments PCast {A T}. Arguments PEsc {A T}.

(* ---------------------------------------------------------------- the strict derivation relation *)
(* abstract tokens: operators by position, parentheses, opaque operands *)
Inductive xtok (A T : Type) :=
| XPre (s : string)          (* prefix operator: NOT, - *)
| XInf (raw : bool) (s : string)   (* infix operator, symbol or keyword(s); raw: how the writer emits it (no grammatical meaning) *)
| XSuf (s : string)          (* postfix: IS NULL, IS NOT NULL *)
| XCastT (ty : T)            (* :: type *)
| XEsc (c : A)               (* ESCAPE 'c' *)
| XOpen | XClose
| XAtomTok (a : A)
| XNegTok (a : A).         (* a numeric literal with its minus sign: two tokens, - and the number *)
Arguments XPre {A T}. Arguments XInf {A T}. Arguments XSuf {A T}. Arguments XCastT {A T}.
Arguments XEsc {A T}. Arguments XOpen {A T}. Arguments XClose {A T}. Arguments XAtomTok {A T}. Arguments XNegTok {A T}.

Definition like_family (op : string) : bool :=
  str_in (upper op) ["LIKE"; "ILIKE"; "SIMILAR TO"; "NOT LIKE"; "NOT ILIKE"; "NOT SIMILAR TO"].

Section Derives.
  Context {A T : Type}.
  Notation pexpr := (pexpr A T).
  Notation xtok := (xtok A T).

  (* [Derives p t k]: the token list t is an a_expr whose parse tree is p and whose top production has
     precedence level k.  Operand levels are constrained exactly as yacc resolves the shift/reduce
     conflicts of gram.y: the left operand of a left-associative operator may have the operator's own level,
     the right one must be strictly higher; both operands of a non-associative operator must be strictly
     higher; the operand of a prefix operator must reach the operator's level; a postfix test (IS NULL)
     takes any operand whose level reaches its own. *)
  Inductive Derives : pexpr -> list xtok -> nat -> Prop :=
  | DAtom a : Derives (PAtom a) [XAtomTok a] L_MAX
  | DNegLit a : Derives (PPre "-" (PAtom a)) [XNegTok a] L_UMINUS
  | DParen p t k : Derives p t k -> Derives p (XOpen :: t ++ [XClose]) L_MAX
  | DBinLeft raw op l r tl tr kl kr ko :
      binop_level op = (ko, ALeft) ->
      Derives l tl kl -> Derives r tr kr -> ko <= kl -> ko < kr ->
      Derives (PBin (upper op) l r) (tl ++ XInf raw op :: tr) ko
  | DBinNon raw op l r tl tr kl kr ko :
      binop_level op = (ko, ANon) ->
      Derives l tl kl -> Derives r tr kr -> ko < kl -> ko < kr ->
      Derives (PBin (upper op) l r) (tl ++ XInf raw op :: tr) ko
  | DEsc op l r t c :
      like_family op = true ->
      Derives (PBin (upper op) l r) t L_LIKE ->
      Derives (PEsc (PBin (upper op) l r) c) (t ++ [XEsc c]) L_LIKE
  | DNot e t k : Derives e t k -> L_NOT <= k -> Derives (PPre "NOT" e) (XPre "NOT" :: t) L_NOT
  | DNeg e t k : Derives e t k -> L_UMINUS <= k -> Derives (PPre "-" e) (XPre "-" :: t) L_UMINUS
  | DPost op e t k :
      (op = "IS NULL" \/ op = "IS NOT NULL") ->
      Derives e t k -> L_IS <= k -> Derives (PPost op e) (t ++ [XSuf op]) L_IS
  | DCast e t k ty : Derives e t k -> L_CAST <= k -> Derives (PCast e ty) (t ++ [XCastT ty]) L_CAST.
End Derives.

(* ---------------------------------------------------------------- the executable reader *)
Definition tok_word (t : token) : option string := match t with TWord s _ => Some (upper s) | _ => None end.

(* the infix operator (spelling, level, associativity) at the head of the token list, and what follows *)
Definition peek_binop (ts : list token) : option (string * list token) :=
  match ts with
  | TSelf c :: r => if in_chars c "+-*/%^<>=" then Some (String c EmptyString, r) else None
  | TOp s :: r => Some (s, r)
  | TCast :: r => Some ("::", r)
  | TWord w _ :: r =>
      let u := upper w in
      if str_in u ["AND"; "OR"; "LIKE"; "ILIKE"; "IN"] then Some (u, r)
      else if String.eqb u "SIMILAR" then
        match r with TWord t _ :: r' => if String.eqb (upper t) "TO" then Some ("SIMILAR TO", r') else None | _ => None end
      else if String.eqb u "NOT" then
        match r with
        | TWord t _ :: r' =>
            let v := upper t in
            if str_in v ["LIKE"; "ILIKE"; "IN"] then Some (("NOT " ++ v)%string, r')
            else if String.eqb v "SIMILAR" then
              match r' with TWord t2 _ :: r'' => if String.eqb (upper t2) "TO" then Some ("NOT SIMILAR TO", r'') else None | _ => None end
            else None
        | _ => None
        end
      else None
  | _ => None
  end.

Definition peek_postfix (ts : list token) : option (string * list token) :=
  match ts with
  | TWord a _ :: TWord b _ :: r =>
      if String.eqb (upper a) "IS" then
        if String.eqb (upper b) "NULL" then Some ("IS NULL", r)
        else if String.eqb (upper b) "NOT" then
          match r with TWord c _ :: r' => if String.eqb (upper c) "NULL" then Some ("IS NOT NULL", r') else None | _ => None end
        else None
      else None
  | _ => None
  end.

(* a type name after :: - a name path with optional ( digits ) and [ digits? ] groups *)
Fixpoint take_type (fuel : nat) (ts : list token) (acc : list token) (started : bool) : list token * list token :=
  match fuel with
  | O => (acc, ts)
  | S n =>
      match ts with
      | (TWord _ _ | TQIdent _ | TUIdent _) as t :: r => if started then (acc, ts) else take_type n r (acc ++ [t]) true
      | TSelf c :: (TWord _ _ | TQIdent _) as t2 :: r =>
          if Ascii.eqb c "." then take_type n (t2 :: r) (acc ++ [TSelf c]) false else (acc, ts)
      | TSelf "(" :: TNum d :: TSelf ")" :: r => if started then take_type n r (acc ++ [TSelf "("; TNum d; TSelf ")"]) true else (acc, ts)
      | TSelf "[" :: TSelf "]" :: r => if started then take_type n r (acc ++ [TSelf "["; TSelf "]"]) true else (acc, ts)
      | TSelf "[" :: TNum d :: TSelf "]" :: r => if started then take_type n r (acc ++ [TSelf "["; TNum d; TSelf "]"]) true else (acc, ts)
      | _ => (acc, ts)
      end
  end.

(* a dotted name path starting at the head *)
Fixpoint take_path (fuel : nat) (ts : list token) (acc : list token) : list token * list token :=
  match fuel with
  | O => (acc, ts)
  | S n =>
      match ts with
      | TSelf c :: ((TWord _ _ | TQIdent _ | TUIdent _) as t) :: r =>
          if Ascii.eqb c "." then take_path n r (acc ++ [TSelf c; t]) else (acc, ts)
      | TSelf c :: TSelf d :: r =>
          if Ascii.eqb c "." && Ascii.eqb d "*" then (acc ++ [TSelf c; TSelf d], r) else (acc, ts)
      | _ => (acc, ts)
      end
  end.

Definition rexpr := pexpr (list token) (list token).

(* the tokens up to the parenthesis closing the one already opened (depth counts open ones) *)
Fixpoint skip_balanced (ts : list token) (depth : nat) (acc : list token) : option (list token * list token) :=
  match ts with
  | [] => None
  | (TSelf c as t) :: r =>
      if Ascii.eqb c "(" || Ascii.eqb c "[" then skip_balanced r (S depth) (acc ++ [t])
      else if Ascii.eqb c ")" || Ascii.eqb c "]" then
        match depth with O => Some (acc, ts) | S d => skip_balanced r d (acc ++ [t]) end
      else skip_balanced r depth (acc ++ [t])
  | t :: r => skip_balanced r depth (acc ++ [t])
  end.

(* CASE ... END as one operand *)
Fixpoint skip_case (ts : list token) (depth : nat) (acc : list token) : option (list token * list token) :=
  match ts with
  | [] => None
  | (TWord w _ as t) :: r =>
      let u := upper w in
      if String.eqb u "CASE" then skip_case r (S depth) (acc ++ [t])
      else if String.eqb u "END" then
        match depth with O => Some (acc ++ [t], r) | S d => skip_case r d (acc ++ [t]) end
      else skip_case r depth (acc ++ [t])
  | t :: r => skip_case r depth (acc ++ [t])
  end.

(* FILTER ( ... ), WITHIN GROUP ( ... ), OVER ( ... ) | OVER name after a function call *)
Fixpoint call_suffix (fuel : nat) (ts : list token) (acc : list token) : list token * list token :=
  match fuel with
  | O => (acc, ts)
  | S n =>
      let grp (kw : list token) (r : list token) :=
        match r with
        | (TSelf c as o) :: r1 =>
            if Ascii.eqb c "(" then
              match skip_balanced r1 0 [] with
              | Some (inner, cl :: r2) => Some (kw ++ o :: inner ++ [cl], r2)
              | _ => None
              end
            else None
        | _ => None
        end in
      match ts with
      | (TWord w _ as t) :: r =>
          let u := upper w in
          if String.eqb u "FILTER" then
            match grp [t] r with Some (g, r2) => call_suffix n r2 (acc ++ g) | None => (acc, ts) end
          else if String.eqb u "OVER" then
            match grp [t] r with
            | Some (g, r2) => call_suffix n r2 (acc ++ g)
            | None => match r with (TWord _ _ as nm) :: r2 => call_suffix n r2 (acc ++ [t; nm]) | _ => (acc, ts) end
            end
          else if String.eqb u "WITHIN" then
            match r with
            | (TWord g _ as t2) :: r1 =>
                if String.eqb (upper g) "GROUP" then
                  match grp [t; t2] r1 with Some (gg, r2) => call_suffix n r2 (acc ++ gg) | None => (acc, ts) end
                else (acc, ts)
            | _ => (acc, ts)
            end
          else (acc, ts)
      | _ => (acc, ts)
      end
  end.

Definition with_suffix (ts : list token) (res : option (rexpr * list token)) : option (rexpr * list token) :=
  match res with
  | Some (p, rest) =>
      match call_suffix 4 rest [] with
      | ([], _) => res
      | (sfx, rest') => Some (PAtom (firstn (length ts - length rest) ts ++ sfx), rest')
      end
  | None => None
  end.

Fixpoint parse_expr (fuel : nat) (minl : nat) (ts : list token) {struct fuel} : option (rexpr * list token) :=
  match fuel with
  | O => None
  | S n =>
      match parse_prefix n ts with
      | Some (lhs, rest) => parse_loop n minl lhs rest
      | None => None
      end
  end
with parse_prefix (fuel : nat) (ts : list token) {struct fuel} : option (rexpr * list token) :=
  match fuel with
  | O => None
  | S n =>
      match ts with
      | TSelf c :: r =>
          if Ascii.eqb c "-" then
            match parse_expr n L_UMINUS r with Some (e, r') => Some (PPre "-" e, r') | None => None end
          else if Ascii.eqb c "+" then parse_expr n L_UMINUS r
          else if Ascii.eqb c "(" then
            let fallback := match skip_balanced r 0 [] with
                            | Some (inner, _ :: r') => Some (PAtom (TSelf c :: inner ++ [TSelf ")"]), r')
                            | _ => None
                            end in
            match parse_list n r with
            | Some ([e], TSelf d :: r') => if Ascii.eqb d ")" then Some (e, r') else fallback
            | Some (l, TSelf d :: r') => if Ascii.eqb d ")" then Some (PList l, r') else fallback
            | _ => fallback
            end
          else if Ascii.eqb c "*" then Some (PAtom [TSelf c], r)
          else None
      | (TWord w _ as t) :: r =>
          let u := upper w in
          if String.eqb u "NOT" then
            match parse_expr n L_NOT r with Some (e, r') => Some (PPre "NOT" e, r') | None => None end
          else if String.eqb u "CASE" then
            match skip_case r 0 [t] with Some (a, r') => Some (PAtom a, r') | None => None end
          else if String.eqb u "ARRAY" && match r with TSelf c :: _ => Ascii.eqb c "[" | _ => false end then
            (* ARRAY[ ... ] *)
            match r with
            | o :: r1 => match skip_balanced r1 0 [] with
                         | Some (inner, cl :: r2) => Some (PAtom (t :: o :: inner ++ [cl]), r2)
                         | _ => None
                         end
            | [] => None
            end
          else
            match r with
            | TSelf c :: r' =>
                if Ascii.eqb c "(" then
                  with_suffix ts (
                  let fallback := match skip_balanced r' 0 [] with
                                  | Some (inner, _ :: r3) => Some (PAtom (t :: TSelf c :: inner ++ [TSelf ")"]), r3)
                                  | _ => None
                                  end in
                  match r' with
                  | TSelf d :: r'' => if Ascii.eqb d ")" then Some (PCall w [], r'')
                                      else match parse_list n r' with
                                           | Some (l, TSelf e :: r3) => if Ascii.eqb e ")" then Some (PCall w l, r3) else fallback
                                           | _ => fallback
                                           end
                  | _ => match parse_list n r' with
                         | Some (l, TSelf e :: r3) => if Ascii.eqb e ")" then Some (PCall w l, r3) else fallback
                         | _ => fallback
                         end
                  end)
                else let (p, r2) := take_path n r [t] in Some (PAtom p, r2)
            | TStr s :: r' => if String.eqb u "INTERVAL" then Some (PAtom [t; TStr s], r') else Some (PAtom [t], r)
            | _ => Some (PAtom [t], r)
            end
      | ((TQIdent _ | TUIdent _) as t) :: r => let (p, r2) := take_path n r [t] in Some (PAtom p, r2)
      | ((TNum _ | TStr _ | TParam _) as t) :: r => Some (PAtom [t], r)
      | _ => None
      end
  end
with parse_list (fuel : nat) (ts : list token) {struct fuel} : option (list rexpr * list token) :=
  match fuel with
  | O => None
  | S n =>
      match parse_expr n 0 ts with
      | Some (e, TSelf c :: r) =>
          if Ascii.eqb c "," then
            match parse_list n r with Some (l, r') => Some (e :: l, r') | None => None end
          else Some ([e], TSelf c :: r)
      | Some (e, r) => Some ([e], r)
      | None => None
      end
  end
with parse_loop (fuel : nat) (minl : nat) (lhs : rexpr) (ts : list token) {struct fuel} : option (rexpr * list token) :=
  match fuel with
  | O => None
  | S n =>
      match peek_postfix ts with
      | Some (op, r) =>
          if Nat.ltb L_IS minl then Some (lhs, ts)
          else
            (* a complete "x IS NULL" is reduced before the next token is looked at: no conflict *)
            parse_loop n minl (PPost op lhs) r
      | None =>
          match peek_binop ts with
          | None => Some (lhs, ts)
          | Some (op, r) =>
              let (lvl, asc) := binop_level op in
              if Nat.ltb lvl minl then Some (lhs, ts)
              else if String.eqb op "::" then
                let (ty, r') := take_type n r [] false in
                match ty with [] => None | _ => parse_loop n minl (PCast lhs ty) r' end
              else
                let next := match asc with ARight => lvl | _ => S lvl end in
                match parse_expr n next r with
                | None => None
                | Some (rhs, r') =>
                    let node := PBin (upper op) lhs rhs in
                    (* ESCAPE belongs to the pattern-match expression just built *)
                    let '(node, r') :=
                      match r' with
                      | TWord w _ :: r2 =>
                          if String.eqb (upper w) "ESCAPE" && Nat.eqb lvl L_LIKE then
                            match r2 with
                            | (TStr _ as e) :: r3 => (PEsc node [e], r3)
                            | _ => (node, r')
                            end
                          else (node, r')
                      | _ => (node, r')
                      end in
                    match asc with
                    | ANon =>
                        (* a second operator of the same non-associative level is a syntax error *)
                        match peek_binop r' with
                        | Some (op2, _) => if Nat.eqb (fst (binop_level op2)) lvl then None else parse_loop n minl node r'
                        | None => parse_loop n minl node r'
                        end
                    | _ => parse_loop n minl node r'
                    end
                end
          end
      end
  end.

Definition pg_parse_expr (ts : list token) : option rexpr :=
  match parse_expr (4 * length ts + 20) 0 ts with
  | Some (e, []) => Some e
  | _ => None
  end.

(* ---------------------------------------------------------------- printing and the re-association normal form *)
Fixpoint join (sep : string) (l : list string) : string :=
  match l with [] => "" | [x] => x | x :: r => x ++ sep ++ join sep r end.

Definition tok_text (t : token) : string :=
  match t with
  | TWord s _ => s | TQIdent s => """" ++ s ++ """" | TUIdent s => "U&""" ++ s ++ """"
  | TStr s => "'" ++ s ++ "'" | TNum s => s | TParam _ => "$" | TOp s | TRun s _ => s
  | TSelf c | TBad c => String c "" | TCast => "::" | TDotDot => ".." | TColonEq => ":="
  end.

Fixpoint show (p : rexpr) : string :=
  match p with
  | PAtom ts => join " " (map tok_text ts)
  | PCall n a => n ++ "(" ++ join ", " ((fix go (l : list rexpr) := match l with [] => [] | x :: r => show x :: go r end) a) ++ ")"
  | PList a => "ROW(" ++ join ", " ((fix go (l : list rexpr) := match l with [] => [] | x :: r => show x :: go r end) a) ++ ")"
  | PBin op l r => "(" ++ show l ++ " " ++ op ++ " " ++ show r ++ ")"
  | PPre op e => "(" ++ op ++ " " ++ show e ++ ")"
  | PPost op e => "(" ++ show e ++ " " ++ op ++ ")"
  | PCast e ty => "(" ++ show e ++ "::" ++ join " " (map tok_text ty) ++ ")"
  | PEsc e c => "(" ++ show e ++ " ESCAPE " ++ join " " (map tok_text c) ++ ")"
  end.

(* re-association tolerance: chains of one and the same operator out of + * AND OR become n-ary *)
Definition tolerated (op : string) : bool := str_in op ["+"; "*"; "AND"; "OR"].
Definition items (op : string) (p : rexpr) : list rexpr :=
  match p with
  | PCall n a => if String.eqb n ("#" ++ op) then a else [p]
  | _ => [p]
  end.
Fixpoint norm (p : rexpr) : rexpr :=
  match p with
  | PAtom ts => PAtom ts
  | PCall n a => PCall n ((fix go (l : list rexpr) := match l with [] => [] | x :: r => norm x :: go r end) a)
  | PList a => PList ((fix go (l : list rexpr) := match l with [] => [] | x :: r => norm x :: go r end) a)
  | PBin op l r =>
      if tolerated op then PCall ("#" ++ op) (items op (norm l) ++ items op (norm r))
      else PBin op (norm l) (norm r)
  | PPre op e => PPre op (norm e)
  | PPost op e => PPost op (norm e)
  | PCast e ty => PCast (norm e) ty
  | PEsc e c => PEsc (norm e) c
  end.

