(* Facts about the lexer used by C06 (a quoted literal is exactly one string constant, whatever
   follows it and under both settings of standard_conforming_strings). *)
From Coq Require Import String List Ascii NArith Bool Lia.
From QRB Require Import Base.Bytes Model.W Pg.Lexer.
Import ListNotations.

Lemma lrun_app scs st a b :
  lrun scs st (append a b) =
  let (st1, t1) := lrun scs st a in let (st2, t2) := lrun scs st1 b in (st2, t1 ++ t2).
Proof.
  revert st. induction a as [|c a IH]; intro st; cbn [append lrun].
  - destruct (lrun scs st b). reflexivity.
  - destruct (lstep scs st c) as [s1 t1]. rewrite IH.
    destruct (lrun scs s1 a) as [s2 t2]. destruct (lrun scs s2 b) as [s3 t3]. now rewrite app_assoc.
Qed.

Definition no_nul (s : string) : Prop := contains_byte (ascii_of_N 0) s = false.

Lemma nb_zero c : (nb c =? 0)%N = Ascii.eqb (ascii_of_N 0) c.
Proof.
  unfold nb. destruct (Ascii.eqb (ascii_of_N 0) c) eqn:E.
  - apply Ascii.eqb_eq in E. subst. reflexivity.
  - apply N.eqb_neq. intro H. apply Ascii.eqb_neq in E. apply E.
    rewrite <- (ascii_N_embedding c). now rewrite H.
Qed.

(* the encoding pqQuoteLiteral applies to the content, character by character *)
Definition enc_plain (c : ascii) : string :=
  if Ascii.eqb "'"%char c then String "'" (String "'" EmptyString) else String c EmptyString.
Definition enc_esc (c : ascii) : string :=
  if Ascii.eqb "'"%char c then String "'" (String "'" EmptyString)
  else if Ascii.eqb "\"%char c then String "\" (String "\" EmptyString)
  else String c EmptyString.
Fixpoint smap (f : ascii -> string) (s : string) : string :=
  match s with EmptyString => EmptyString | String c r => append (f c) (smap f r) end.

Lemma replace_quote s : replace_byte "'"%char (String "'" (String "'" EmptyString)) s = smap enc_plain s.
Proof.
  induction s as [|c s IH]; cbn [replace_byte smap]; [reflexivity|]. unfold enc_plain.
  destruct (Ascii.eqb "'" c); cbn [append]; now rewrite IH.
Qed.

Lemma replace_byte_append c by_ a b :
  replace_byte c by_ (append a b) = append (replace_byte c by_ a) (replace_byte c by_ b).
Proof.
  induction a as [|d a IH]; cbn [append replace_byte]; [reflexivity|].
  destruct (Ascii.eqb c d); rewrite IH; [now rewrite append_assoc|reflexivity].
Qed.

Lemma contains_byte_append c a b : contains_byte c (append a b) = contains_byte c a || contains_byte c b.
Proof.
  induction a as [|d a IH]; cbn [append contains_byte]; [reflexivity|].
  destruct (Ascii.eqb c d); [reflexivity|exact IH].
Qed.

Lemma replace_bs_after_quote s :
  replace_byte "\"%char (String "\" (String "\" EmptyString)) (smap enc_plain s) = smap enc_esc s.
Proof.
  induction s as [|c s IH]; cbn [smap]; [reflexivity|]. rewrite replace_byte_append, IH. f_equal.
  unfold enc_plain, enc_esc. destruct (Ascii.eqb "'" c) eqn:E; [reflexivity|].
  cbn [replace_byte]. destruct (Ascii.eqb "\" c); reflexivity.
Qed.

Lemma contains_bs_smap s : contains_byte "\"%char (smap enc_plain s) = contains_byte "\"%char s.
Proof.
  induction s as [|c s IH]; cbn [smap]; [reflexivity|]. rewrite contains_byte_append, IH.
  cbn [contains_byte]. unfold enc_plain. destruct (Ascii.eqb "'" c) eqn:E.
  - apply Ascii.eqb_eq in E. subst c. reflexivity.
  - cbn [contains_byte]. destruct (Ascii.eqb "\" c); reflexivity.
Qed.

Lemma quote_lit_shape s :
  quote_lit s =
  if contains_byte "\"%char s
  then append (String " " (String "E" (String "'" EmptyString))) (append (smap enc_esc s) (String "'" EmptyString))
  else String "'" (append (smap enc_plain s) (String "'" EmptyString)).
Proof.
  unfold quote_lit. rewrite replace_quote, contains_bs_smap.
  destruct (contains_byte "\"%char s); [now rewrite replace_bs_after_quote|reflexivity].
Qed.

Section Lit.
  Variable scs : bool.
  Notation lstep := (lstep scs).
  Notation lrun := (lrun scs).

  (* the content of a plain literal (no backslash), read inside the quotes *)
  Lemma lrun_plain esc s : forall acc,
    no_nul s -> contains_byte "\"%char s = false ->
    lrun (LStr esc acc) (smap enc_plain s) = (LStr esc (append acc s), []).
  Proof.
    induction s as [|c s IH]; intros acc Hn Hb; cbn [smap lrun].
    - now rewrite append_nil_r.
    - unfold no_nul in Hn. cbn [contains_byte] in Hn, Hb.
      destruct (Ascii.eqb (ascii_of_N 0) c) eqn:E0; [discriminate|].
      destruct (Ascii.eqb "\" c) eqn:Eb; [discriminate|].
      unfold enc_plain. destruct (Ascii.eqb "'" c) eqn:Eq.
      + apply Ascii.eqb_eq in Eq. subst c. cbn [append lrun].
        unfold Lexer.lstep. cbn.
        rewrite (IH _ Hn Hb). unfold snoc. now rewrite append_assoc.
      + cbn [append lrun]. unfold Lexer.lstep at 1. rewrite nb_zero, E0.
        rewrite Ascii.eqb_sym, Eq. rewrite (Ascii.eqb_sym c "\"), Eb, andb_false_r.
        rewrite (IH _ Hn Hb). unfold snoc. now rewrite append_assoc.
  Qed.

  (* the content of an E'' literal *)
  Lemma lrun_esc s : forall acc,
    no_nul s -> lrun (LStr true acc) (smap enc_esc s) = (LStr true (append acc s), []).
  Proof.
    induction s as [|c s IH]; intros acc Hn; cbn [smap lrun].
    - now rewrite append_nil_r.
    - unfold no_nul in Hn. cbn [contains_byte] in Hn.
      destruct (Ascii.eqb (ascii_of_N 0) c) eqn:E0; [discriminate|].
      unfold enc_esc. destruct (Ascii.eqb "'" c) eqn:Eq.
      + apply Ascii.eqb_eq in Eq. subst c. cbn [append lrun].
        unfold Lexer.lstep. cbn.
        rewrite (IH _ Hn). unfold snoc. now rewrite append_assoc.
      + destruct (Ascii.eqb "\" c) eqn:Eb.
        * apply Ascii.eqb_eq in Eb. subst c. cbn [append lrun].
          unfold Lexer.lstep. cbn.
          rewrite (IH _ Hn). unfold snoc. now rewrite append_assoc.
        * cbn [append lrun]. unfold Lexer.lstep at 1. rewrite nb_zero, E0.
          rewrite Ascii.eqb_sym, Eq. rewrite (Ascii.eqb_sym c "\"), Eb, andb_false_r.
          rewrite (IH _ Hn). unfold snoc. now rewrite append_assoc.
  Qed.

  (* " E'" after any state that is not inside a quoted construct opens an escape string *)
  Lemma lrun_E_prefix st ts0 :
    close st = Some ts0 ->
    lrun st (String " " (String "E" (String "'" EmptyString))) = (LStr true EmptyString, ts0).
  Proof.
    intro H. destruct st; cbn [close] in H; try discriminate;
      try (destruct ne; [|discriminate]); injection H as <-; cbn; rewrite ?app_nil_r; reflexivity.
  Qed.

  (* what follows a closed literal: the first non-blank character is not a quote *)
  Fixpoint follow_ok (post : string) : bool :=
    match post with
    | EmptyString => true
    | String c r => if is_space c then follow_ok r else negb (Ascii.eqb c "'") && negb (nb c =? 0)%N
    end.

  Lemma lex_from_cons st c r :
    lex_from scs st (String c r) = let (s1, t1) := lstep st c in option_map (app t1) (lex_from scs s1 r).
  Proof.
    unfold lex_from. cbn [Lexer.lrun]. destruct (lstep st c) as [s1 t1].
    destruct (Lexer.lrun scs s1 r) as [s2 t2]. destruct (close s2); cbn; [now rewrite app_assoc|reflexivity].
  Qed.

  Lemma space_facts c : is_space c = true -> Ascii.eqb c "'" = false /\ (nb c =? 0)%N = false.
  Proof.
    intro H. split.
    - destruct (Ascii.eqb c "'") eqn:E; [|reflexivity]. apply Ascii.eqb_eq in E. subst. discriminate.
    - destruct (nb c =? 0)%N eqn:E; [|reflexivity]. rewrite nb_zero in E. apply Ascii.eqb_eq in E. subst. discriminate.
  Qed.

  Lemma step_init_space c : is_space c = true -> lstep LInit c = (LInit, []).
  Proof. intro H. destruct (space_facts c H) as [_ Hz]. unfold Lexer.lstep. rewrite Hz. unfold start. now rewrite H. Qed.

  Lemma step_strq_space esc s c : is_space c = true -> lstep (LStrQ esc s) c = (LStrWs esc s (is_newline c), []).
  Proof. intro H. destruct (space_facts c H) as [Hq Hz]. unfold Lexer.lstep. now rewrite Hz, Hq, H. Qed.

  Lemma step_strws_space esc s nl c :
    is_space c = true -> lstep (LStrWs esc s nl) c = (LStrWs esc s (nl || is_newline c), []).
  Proof. intro H. destruct (space_facts c H) as [Hq Hz]. unfold Lexer.lstep. now rewrite Hz, H. Qed.

  Lemma step_strq_other esc s c :
    is_space c = false -> Ascii.eqb c "'" = false -> (nb c =? 0)%N = false ->
    lstep (LStrQ esc s) c = let (s1, t1) := lstep LInit c in (s1, TStr s :: t1).
  Proof.
    intros H Hq Hz. unfold Lexer.lstep. rewrite Hz, Hq, H. unfold restart. cbn [close].
    destruct (start scs c). reflexivity.
  Qed.

  Lemma step_strws_other esc s nl c :
    is_space c = false -> Ascii.eqb c "'" = false -> (nb c =? 0)%N = false ->
    lstep (LStrWs esc s nl) c = let (s1, t1) := lstep LInit c in (s1, TStr s :: t1).
  Proof.
    intros H Hq Hz. unfold Lexer.lstep. rewrite Hz, Hq, H. unfold restart. cbn [close].
    destruct (start scs c). reflexivity.
  Qed.

  Lemma lex_from_after_string esc s post :
    follow_ok post = true ->
    (lex_from scs (LStrQ esc s) post = option_map (cons (TStr s)) (lex_from scs LInit post)) /\
    (forall nl, lex_from scs (LStrWs esc s nl) post = option_map (cons (TStr s)) (lex_from scs LInit post)).
  Proof.
    induction post as [|c r IH]; intro H.
    - split; [|intro nl]; reflexivity.
    - cbn [follow_ok] in H. destruct (is_space c) eqn:Es.
      + destruct (IH H) as [_ IH2]. split; [|intro nl]; rewrite !lex_from_cons.
        * rewrite step_strq_space, step_init_space by assumption. cbn [app option_map].
          rewrite IH2. destruct (lex_from scs LInit r); reflexivity.
        * rewrite step_strws_space, step_init_space by assumption. cbn [app option_map].
          rewrite IH2. destruct (lex_from scs LInit r); reflexivity.
      + apply andb_true_iff in H. destruct H as [Hq Hz]. apply negb_true_iff in Hq, Hz.
        split; [|intro nl]; rewrite !lex_from_cons.
        * rewrite step_strq_other by assumption. destruct (lstep LInit c) as [s1 t1].
          destruct (lex_from scs s1 r); reflexivity.
        * rewrite step_strws_other by assumption. destruct (lstep LInit c) as [s1 t1].
          destruct (lex_from scs s1 r); reflexivity.
  Qed.

  (* C06 for strings: in any lexer state that is not inside a quoted construct (and, for the plain
     form, in which a quote starts a new string constant), the quoted literal followed by any text whose
     first non-blank character is not a quote lexes as the pending tokens, then exactly one string
     constant with value s, then the tokens of the rest. *)
  Theorem quoted_literal_is_one_token st ts0 s post :
    no_nul s ->
    close st = Some ts0 ->
    (contains_byte "\"%char s = false -> lstep st "'" = (LStr (negb scs) EmptyString, ts0)) ->
    follow_ok post = true ->
    lex_from scs st (append (quote_lit s) post) =
    option_map (fun t => ts0 ++ TStr s :: t) (lex_from scs LInit post).
  Proof.
    intros Hn Hc Hq Hf. rewrite quote_lit_shape.
    destruct (contains_byte "\"%char s) eqn:Eb.
    - (* E'' form *)
      unfold lex_from. rewrite !append_assoc, lrun_app, (lrun_E_prefix st ts0 Hc).
      rewrite lrun_app, (lrun_esc s EmptyString Hn). cbn [append].
      pose proof (proj1 (lex_from_after_string true s post Hf)) as K. unfold lex_from in K.
      cbn [Lexer.lrun append]. unfold Lexer.lstep at 1. cbn.
      destruct (Lexer.lrun scs (LStrQ true s) post) as [s2 t2].
      destruct (Lexer.lrun scs LInit post) as [s3 t3].
      destruct (close s2), (close s3); cbn in *; try discriminate; try reflexivity.
      injection K as K. now rewrite <- app_assoc, K.
    - (* plain form *)
      specialize (Hq eq_refl). cbn [append]. rewrite lex_from_cons, Hq. rewrite append_assoc.
      unfold lex_from. rewrite lrun_app, (lrun_plain (negb scs) s EmptyString Hn Eb). cbn [append].
      pose proof (proj1 (lex_from_after_string (negb scs) s post Hf)) as K. unfold lex_from in K.
      cbn [Lexer.lrun append]. unfold Lexer.lstep at 1. cbn.
      destruct (Lexer.lrun scs (LStrQ (negb scs) s) post) as [s2 t2].
      destruct (Lexer.lrun scs LInit post) as [s3 t3].
      destruct (close s2), (close s3); cbn in *; try discriminate; try reflexivity.
      injection K as K. cbn [app]. now rewrite <- ?app_assoc, K.
  Qed.
End Lit.

(* ---------------------------------------------------------------- numeric literals *)
From Coq Require Import ZArith DecimalString DecimalZ DecimalPos DecimalFacts.

Fixpoint all_digits (s : string) : bool :=
  match s with EmptyString => true | String c r => is_digit c && all_digits r end.

Lemma uint_digits d : all_digits (NilEmpty.string_of_uint d) = true.
Proof. induction d; cbn; auto. Qed.

Lemma digit_facts c : is_digit c = true ->
  (nb c =? 0)%N = false /\ Ascii.eqb c "." = false /\ Ascii.eqb c "e" = false /\ Ascii.eqb c "E" = false /\
  is_ident_start c = false /\ is_space c = false.
Proof.
  unfold is_digit, is_ident_start, is_space, nb. intro H. apply andb_true_iff in H. destruct H as [H1 H2].
  apply N.leb_le in H1, H2.
  assert (E : forall d, (N_of_ascii d < 48 \/ 57 < N_of_ascii d)%N -> Ascii.eqb c d = false).
  { intros d Hd. destruct (Ascii.eqb c d) eqn:E; [|reflexivity]. apply Ascii.eqb_eq in E. subst.
    revert H1 H2 Hd. generalize (N_of_ascii d). intros n; lia. }
  revert H1 H2. generalize (N_of_ascii c). intros n H1 H2.
  repeat split.
  - apply N.eqb_neq. lia.
  - apply E. cbn. lia.
  - apply E. cbn. lia.
  - apply E. cbn. lia.
  - repeat (apply orb_false_iff; split); try (apply andb_false_iff); try (apply N.eqb_neq; lia).
    + left. apply N.leb_gt. lia.
    + left. apply N.leb_gt. lia.
    + apply N.leb_gt. lia.
  - repeat (apply orb_false_iff; split); apply N.eqb_neq; lia.
Qed.

Section Num.
  Variable scs : bool.

  Lemma lrun_digits ds : forall acc,
    all_digits ds = true -> lrun scs (LInt acc) ds = (LInt (append acc ds), []).
  Proof.
    induction ds as [|c r IH]; intros acc H; cbn [lrun].
    - now rewrite append_nil_r.
    - cbn [all_digits] in H. apply andb_true_iff in H. destruct H as [Hc Hr].
      destruct (digit_facts c Hc) as (Hz & _). unfold lstep at 1. rewrite Hz, Hc.
      rewrite (IH _ Hr). unfold snoc. now rewrite append_assoc.
  Qed.

  (* a non-empty digit string lexes as exactly one numeric constant *)
  Lemma lex_digits c r :
    all_digits (String c r) = true -> pg_lex scs (String c r) = Some [TNum (String c r)].
  Proof.
    intro H. cbn [all_digits] in H. apply andb_true_iff in H. destruct H as [Hc Hr].
    destruct (digit_facts c Hc) as (Hz & _ & _ & _ & Hi & Hs).
    unfold pg_lex, lex_from. cbn [lrun]. unfold lstep at 1. rewrite Hz. unfold start. rewrite Hs, Hi, Hc.
    rewrite (lrun_digits r _ Hr). reflexivity.
  Qed.

  Lemma expand_cons_str s t : expand_ops (TStr s :: t) = TStr s :: expand_ops t.
  Proof. reflexivity. Qed.

  Lemma lex_neg_digits c r :
    all_digits (String c r) = true ->
    pg_lex scs (String "-" (String c r)) = Some [TSelf "-"; TNum (String c r)].
  Proof.
    intro H. cbn [all_digits] in H. apply andb_true_iff in H. destruct H as [Hc Hr].
    destruct (digit_facts c Hc) as (Hz & _ & _ & _ & Hi & Hs).
    unfold pg_lex, lex_from. cbn [lrun]. unfold lstep at 1. cbn.
    unfold lstep at 1. rewrite Hz.
    assert (Ho : is_op_char c = false).
    { unfold is_op_char, in_chars. unfold is_digit, nb in Hc. apply andb_true_iff in Hc. destruct Hc as [H1 H2].
      apply N.leb_le in H1, H2.
      assert (E : forall d, (N_of_ascii d < 48 \/ 57 < N_of_ascii d)%N -> Ascii.eqb c d = false).
      { intros d Hd. destruct (Ascii.eqb c d) eqn:E; [|reflexivity]. apply Ascii.eqb_eq in E. subst.
        revert H1 H2 Hd. generalize (N_of_ascii d). intros n; lia. }
      cbn [contains_byte]. rewrite !E by (cbn; lia). reflexivity. }
    rewrite Ho. unfold restart. cbn [close]. unfold start. rewrite Hs, Hi.
    rewrite Hc. rewrite (lrun_digits r _ Hr). reflexivity.
  Qed.
End Num.

Lemma pos_uint_nonnil p : Pos.to_uint p <> Decimal.Nil.
Proof.
  intro H. pose proof (DecimalPos.Unsigned.of_to p) as K. rewrite H in K. discriminate.
Qed.

Lemma nzstring_pos p : NilZero.string_of_uint (Pos.to_uint p) = NilEmpty.string_of_uint (Pos.to_uint p).
Proof. pose proof (pos_uint_nonnil p). destruct (Pos.to_uint p); [contradiction|reflexivity..]. Qed.

(* strconv.Itoa: the text is an optional minus sign and a non-empty digit string, lexes as [-] and
   one numeric constant, and reads back (decimal) as exactly z *)
Theorem int_literal scs (z : Z) :
  exists ds, all_digits ds = true /\ ds <> EmptyString /\
    z_dec z = (if (z <? 0)%Z then String "-" ds else ds) /\
    pg_lex scs (z_dec z) = Some ((if (z <? 0)%Z then [TSelf "-"] else []) ++ [TNum ds]) /\
    option_map Z.of_int (NilZero.int_of_string (z_dec z)) = Some z.
Proof.
  assert (RT : option_map Z.of_int (NilZero.int_of_string (z_dec z)) = Some z).
  { unfold z_dec. rewrite NilZero.isi.
    - cbn. now rewrite DecimalZ.of_to.
    - destruct z; cbn; try discriminate. intro H. injection H as H. now apply pos_uint_nonnil in H.
    - destruct z; cbn; try discriminate. intro H. injection H as H. now apply pos_uint_nonnil in H. }
  destruct z as [|p|p]; unfold z_dec; cbn [Z.to_int Z.ltb Z.compare NilZero.string_of_int].
  - exists (String "0" EmptyString). repeat split; try reflexivity; try discriminate.
  - exists (NilZero.string_of_uint (Pos.to_uint p)). rewrite nzstring_pos.
    pose proof (pos_uint_nonnil p) as Hn. pose proof (uint_digits (Pos.to_uint p)) as Hd.
    destruct (NilEmpty.string_of_uint (Pos.to_uint p)) as [|c r] eqn:E.
    { destruct (Pos.to_uint p); try contradiction; discriminate. }
    repeat split; try assumption; try discriminate.
    + now apply lex_digits.
    + unfold z_dec in RT. cbn [Z.to_int NilZero.string_of_int] in RT. now rewrite nzstring_pos, E in RT.
  - exists (NilZero.string_of_uint (Pos.to_uint p)). rewrite nzstring_pos.
    pose proof (pos_uint_nonnil p) as Hn. pose proof (uint_digits (Pos.to_uint p)) as Hd.
    destruct (NilEmpty.string_of_uint (Pos.to_uint p)) as [|c r] eqn:E.
    { destruct (Pos.to_uint p); try contradiction; discriminate. }
    repeat split; try assumption; try discriminate.
    + now apply lex_neg_digits.
    + unfold z_dec in RT. cbn [Z.to_int NilZero.string_of_int] in RT. now rewrite nzstring_pos, E in RT.
Qed.
