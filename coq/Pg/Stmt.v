(* A clause-level reader of PostgreSQL statements (SELECT with set operations, INSERT, UPDATE, DELETE,
   optionally preceded by WITH), written from gram.y: it splits a token list into the grammatical slots -
   CTEs, set-operation branches, DISTINCT [ON], target list with aliases, FROM items with aliases and joins
   with their qualifiers, WHERE, GROUP BY elements (plain, (sets), ROLLUP / CUBE / GROUPING SETS), HAVING,
   ORDER BY items, LIMIT, OFFSET, locking, VALUES rows, ON CONFLICT, SET items, USING, RETURNING - and
   rejects what the grammar rejects at that level (clauses out of order, CROSS JOIN with ON, LATERAL before a
   plain relation, ONLY before a sub-select, ROLLUP without parentheses, an alias that is not a name ...).
   Expressions inside a slot are read by the precedence reader of Pg/Expr.v and put in normal form.
   The result is a canonical tree [cn]; executable; used to evaluate emitted text.  No theorem depends on it. *)
From Coq Require Import String List Ascii Bool Arith.
From QRB Require Import Base.Bytes Pg.Lexer Pg.Expr.
Import ListNotations.
Local Open Scope string_scope.
Local Open Scope list_scope.

Inductive cn := CN (label : string) (kids : list cn) | CS (s : string).

Fixpoint sjoin (sep : string) (l : list string) : string :=
  match l with [] => "" | [x] => x | x :: r => (x ++ sep ++ sjoin sep r)%string end.

Fixpoint show_cn (c : cn) : string :=
  match c with
  | CS s => ("<" ++ s ++ ">")%string
  | CN l k => ("(" ++ l ++ (fix go (k : list cn) : string :=
                              match k with [] => "" | x :: r => (" " ++ show_cn x ++ go r)%string end) k ++ ")")%string
  end.

(* ------------------------------------------------------------------ token helpers *)
Definition ttext (t : token) : string :=
  match t with
  | TWord s _ => s | TQIdent s => ("""" ++ s ++ """")%string | TUIdent s => ("U&""" ++ s ++ """")%string
  | TStr s => ("'" ++ s ++ "'")%string | TNum s => s | TParam _ => "$" | TOp s | TRun s _ => s
  | TSelf c | TBad c => String c "" | TCast => "::" | TDotDot => ".." | TColonEq => ":="
  end.
Definition toks_text (ts : list token) : string := sjoin " " (map ttext ts).

Definition is_kw (t : token) (k : string) : bool :=
  match t with TWord w _ => String.eqb (upper w) k | _ => false end.
Definition is_sym (t : token) (c : ascii) : bool := match t with TSelf d => Ascii.eqb c d | _ => false end.
Definition opens (t : token) : bool := is_sym t "(" || is_sym t "[".
Definition closes (t : token) : bool := is_sym t ")" || is_sym t "]".

(* do the tokens start with this keyword sequence? *)
Fixpoint starts_kws (ks : list string) (ts : list token) : option (list token) :=
  match ks with
  | [] => Some ts
  | k :: ks' => match ts with t :: r => if is_kw t k then starts_kws ks' r else None | [] => None end
  end.

(* split at depth-0 tokens satisfying [sep]; None when parentheses are unbalanced *)
Fixpoint split0 (sep : token -> bool) (ts : list token) (depth : nat) (cur : list token) (acc : list (list token))
  : option (list (list token)) :=
  match ts with
  | [] => match depth with O => Some (rev (rev cur :: acc)) | _ => None end
  | t :: r =>
      if opens t then split0 sep r (S depth) (t :: cur) acc
      else if closes t then match depth with O => None | S d => split0 sep r d (t :: cur) acc end
      else if Nat.eqb depth 0 && sep t then split0 sep r depth [] (rev cur :: acc)
      else split0 sep r depth (t :: cur) acc
  end.
Definition commas (ts : list token) : option (list (list token)) :=
  match ts with [] => Some [] | _ => split0 (fun t => is_sym t ",") ts 0 [] [] end.

(* first depth-0 position where one of the keyword sequences starts: (before, which, after) *)
Fixpoint find0 (kss : list (list string)) (ts : list token) (depth : nat) (before : list token)
  : option (list token * list string * list token) :=
  match ts with
  | [] => None
  | t :: r =>
      if opens t then find0 kss r (S depth) (t :: before)
      else if closes t then find0 kss r (pred depth) (t :: before)
      else
        match (if Nat.eqb depth 0
               then find (fun ks => match starts_kws ks ts with Some _ => true | None => false end) kss
               else None) with
        | Some ks => match starts_kws ks ts with Some rest => Some (rev before, ks, rest) | None => None end
        | None => find0 kss r depth (t :: before)
        end
  end.

(* cut a token list into labelled segments at depth-0 clause keywords; the part before the first marker is
   labelled "" *)
Fixpoint segments (fuel : nat) (kss : list (list string)) (label : string) (ts : list token) : list (string * list token) :=
  match fuel with
  | O => [(label, ts)]
  | S n =>
      match find0 kss ts 0 [] with
      | Some (before, ks, rest) => (label, before) :: segments n kss (sjoin " " ks) rest
      | None => [(label, ts)]
      end
  end.

(* the labels must come in the grammar's order, each at most once *)
Fixpoint in_order (order : list string) (labels : list string) : bool :=
  match labels with
  | [] => true
  | l :: r =>
      (fix skip (o : list string) : bool :=
         match o with
         | [] => false
         | x :: o' => if String.eqb x l then in_order o' r else skip o'
         end) order
  end.

Definition seg (label : string) (sg : list (string * list token)) : option (list token) :=
  match find (fun p => String.eqb (fst p) label) sg with Some p => Some (snd p) | None => None end.

(* the contents of a leading ( ... ) and what follows *)
Definition parenthesised (ts : list token) : option (list token * list token) :=
  match ts with
  | t :: r => if is_sym t "(" then
                match skip_balanced r 0 [] with
                | Some (inner, _ :: rest) => Some (inner, rest)
                | _ => None
                end
              else None
  | [] => None
  end.

(* ------------------------------------------------------------------ expressions and names *)
Definition parse_or_atom (ts : list token) : rexpr :=
  match pg_parse_expr ts with Some p => p | None => PAtom ts end.
Definition canon_expr (ts : list token) : cn :=
  match ts with
  | [] => CS "?empty"
  | _ => CS (show (norm (parse_or_atom ts)))
  end.

(* a (possibly qualified) name, nothing else *)
Fixpoint is_name_path (ts : list token) : bool :=
  match ts with
  | [(TWord _ _ | TQIdent _ | TUIdent _)] => true
  | (TWord _ _ | TQIdent _ | TUIdent _) :: d :: r => is_sym d "." && is_name_path r
  | _ => false
  end.
Definition is_name1 (ts : list token) : bool :=
  match ts with [(TWord _ _ | TQIdent _ | TUIdent _)] => true | _ => false end.
(* U&"..." UESCAPE 'c' also is one name *)
Definition is_alias (ts : list token) : bool :=
  is_name1 ts || match ts with [TUIdent _; u; TStr _] => is_kw u "UESCAPE" | _ => false end.

Definition names_list (ts : list token) : option (list cn) :=
  match commas ts with
  | Some l => if forallb is_alias l then Some (map (fun x => CS (toks_text x)) l) else None
  | None => None
  end.

Definition opt_bind {A B} (o : option A) (f : A -> option B) : option B := match o with Some x => f x | None => None end.
Fixpoint all_some {A} (l : list (option A)) : option (list A) :=
  match l with
  | [] => Some []
  | Some x :: r => match all_some r with Some r' => Some (x :: r') | None => None end
  | None :: _ => None
  end.

(* expr [AS alias]: the last depth-0 AS *)
Fixpoint last_as (ts : list token) (depth : nat) (seen : list token) (best : option (list token * list token))
  : option (list token * list token) :=
  match ts with
  | [] => best
  | t :: r =>
      if opens t then last_as r (S depth) (t :: seen) best
      else if closes t then last_as r (pred depth) (t :: seen) best
      else if Nat.eqb depth 0 && is_kw t "AS" then last_as r depth (t :: seen) (Some (rev seen, r))
      else last_as r depth (t :: seen) best
  end.

Definition read_target (ts : list token) : option cn :=
  match last_as ts 0 [] None with
  | Some (e, a) => if is_alias a then Some (CN "t" [canon_expr e; CS (toks_text a)]) else None
  | None => match ts with [] => None | _ => Some (CN "t" [canon_expr ts; CS ""]) end
  end.
Definition read_targets (ts : list token) : option (list cn) :=
  match ts with
  | [] => Some []                                  (* opt_target_list *)
  | _ => opt_bind (commas ts) (fun l => all_some (map read_target l))
  end.

Definition read_exprs (ts : list token) : option (list cn) :=
  opt_bind (commas ts) (fun l => if existsb (fun x => match x with [] => true | _ => false end) l then None
                                 else Some (map canon_expr l)).

(* ------------------------------------------------------------------ FROM items *)
(* what may follow LATERAL: a sub-select, a function call, ROWS FROM *)
Definition lateral_ok (ts : list token) : bool :=
  match ts with
  | t :: r => is_sym t "(" ||
              is_kw t "ROWS FROM" ||
              (match t with TWord _ _ | TQIdent _ => true | _ => false end &&
               (fix call (r : list token) : bool :=
                  match r with
                  | d :: n :: r' => if is_sym d "." then
                                      match n with TWord _ _ | TQIdent _ => call r' | _ => false end
                                    else is_sym d "("
                  | [d] => is_sym d "("
                  | [] => false
                  end) r)
  | [] => false
  end.

(* source [WITH ORDINALITY] [[AS] alias [(cols / coldefs)] | AS (coldefs)] *)
Definition read_item_body (ts : list token) : option (list cn) :=
  let (src, al) := match find0 [["AS"]] ts 0 [] with
                   | Some (b, _, a) => (b, Some a)
                   | None => (ts, None)
                   end in
  match src with
  | [] => None
  | _ =>
      let alias_part :=
        match al with
        | None => Some [CS ""; CN "cols" []]
        | Some a =>
            match a with
            | t :: _ =>
                if is_sym t "(" then
                  match parenthesised a with
                  | Some (inner, []) => Some [CS ""; CN "cols" [CS (toks_text inner)]]
                  | _ => None
                  end
                else
                      (* alias name, then optionally ( ... ) *)
                      let nm := (fix take (a : list token) (acc : list token) : list token * list token :=
                                   match a with
                                   | t :: r => if is_sym t "(" then (rev acc, a) else take r (t :: acc)
                                   | [] => (rev acc, [])
                                   end) a [] in
                      if is_alias (fst nm) then
                        match snd nm with
                        | [] => Some [CS (toks_text (fst nm)); CN "cols" []]
                        | rest => match parenthesised rest with
                                  | Some (inner, []) => Some [CS (toks_text (fst nm)); CN "cols" [CS (toks_text inner)]]
                                  | _ => None
                                  end
                        end
                      else None
            | [] => None
            end
        end in
      opt_bind alias_part (fun ap => Some (CS (toks_text src) :: ap))
  end.

Definition read_item (ts : list token) : option cn :=
  let (only, ts1) := match ts with t :: r => if is_kw t "ONLY" then (true, r) else (false, ts) | [] => (false, ts) end in
  let (lat, ts2) := match ts1 with t :: r => if is_kw t "LATERAL" then (true, r) else (false, ts1) | [] => (false, ts1) end in
  if only && lat then None
  else if lat && negb (lateral_ok ts2) then None
  else
    match read_item_body ts2 with
    | Some (CS src :: rest) =>
        (* ONLY takes a relation name *)
        if only && negb (is_name_path (match find0 [["AS"]] ts2 0 [] with Some (b, _, _) => b | None => ts2 end)) then None
        else Some (CN "item" (CS (if only then "ONLY" else "") :: CS (if lat then "LATERAL" else "") :: CS src :: rest))
    | _ => None
    end.

Definition join_kws : list (list string) :=
  [["CROSS"; "JOIN"]; ["LEFT"; "OUTER"; "JOIN"]; ["LEFT"; "JOIN"]; ["RIGHT"; "OUTER"; "JOIN"]; ["RIGHT"; "JOIN"];
   ["FULL"; "OUTER"; "JOIN"]; ["FULL"; "JOIN"]; ["INNER"; "JOIN"]; ["NATURAL"; "JOIN"]; ["JOIN"]].

(* item { join-type item [ON cond | USING (cols)] } *)
Definition read_join (label : string) (ts : list token) : option cn :=
  let (itm, qual) := match find0 [["ON"]; ["USING"]] ts 0 [] with
                     | Some (b, k, a) => (b, Some (k, a))
                     | None => (ts, None)
                     end in
  match read_item itm with
  | None => None
  | Some it =>
      let cross := String.eqb label "CROSS JOIN" in
      match qual with
      | None => if cross || String.eqb label "NATURAL JOIN" then Some (CN "join" [CS label; it; CN "on" []]) else None
      | Some (k, a) =>
          if cross then None
          else if String.eqb (sjoin " " k) "ON" then
            match a with [] => None | _ => Some (CN "join" [CS label; it; CN "on" [canon_expr a]]) end
          else match parenthesised a with
               | Some (inner, []) => option_map (fun n => CN "join" [CS label; it; CN "using" n]) (names_list inner)
               | _ => None
               end
      end
  end.

Definition read_from_group (ts : list token) : option cn :=
  match segments 64 join_kws "" ts with
  | (_, first) :: joins =>
      match read_item first, all_some (map (fun p => read_join (fst p) (snd p)) joins) with
      | Some it, Some js => Some (CN "group" (it :: js))
      | _, _ => None
      end
  | [] => None
  end.
Definition read_from (ts : list token) : option (list cn) :=
  opt_bind (commas ts) (fun l => all_some (map read_from_group l)).

(* ------------------------------------------------------------------ GROUP BY *)
Definition read_set_or_expr (ts : list token) : option cn :=
  match parenthesised ts with
  | Some (inner, []) =>
      (* ( ) or ( a, b ): a grouping set; ( a ) alone is just a parenthesised expression *)
      match inner with
      | [] => Some (CN "set" [])
      | t0 :: _ =>
          if is_kw t0 "SELECT" || is_kw t0 "WITH" || is_kw t0 "VALUES" then Some (canon_expr ts)   (* a sub-select *)
          else
          match commas inner with
             | Some [_] => Some (canon_expr ts)
             | Some l => option_map (CN "set") (read_exprs inner)
             | None => None
             end
      end
  | _ => match ts with [] => None | _ => Some (canon_expr ts) end
  end.

Definition read_group_elem (ts : list token) : option cn :=
  let typed (name : string) (rest : list token) :=
    match parenthesised rest with
    | Some (inner, []) =>
        opt_bind (commas inner) (fun l => option_map (fun e => CN "ge" (CS name :: e)) (all_some (map read_set_or_expr l)))
    | _ => None
    end in
  match ts with
  | t :: r =>
      if is_kw t "ROLLUP" then typed "ROLLUP" r
      else if is_kw t "CUBE" then typed "CUBE" r
      else match starts_kws ["GROUPING"; "SETS"] ts with
           | Some r' => typed "GROUPING SETS" r'
           | None => option_map (fun e => CN "ge" [CS ""; e]) (read_set_or_expr ts)
           end
  | [] => None
  end.

Definition read_group_by (ts : list token) : option cn :=
  let (d, ts') := match ts with t :: r => if is_kw t "DISTINCT" then (true, r) else (false, ts) | [] => (false, ts) end in
  opt_bind (commas ts') (fun l =>
    option_map (fun e => CN "groupby" (CS (if d then "DISTINCT" else "") :: e)) (all_some (map read_group_elem l))).

(* ------------------------------------------------------------------ ORDER BY, locking *)
Definition read_order_item (ts : list token) : option cn :=
  let (ts1, nulls) := match find0 [["NULLS"; "FIRST"]; ["NULLS"; "LAST"]] ts 0 [] with
                      | Some (b, k, []) => (b, sjoin " " k)
                      | _ => (ts, "")
                      end in
  let (ts2, dir) := match rev ts1 with
                    | t :: r => if is_kw t "ASC" then (rev r, "ASC") else if is_kw t "DESC" then (rev r, "DESC") else (ts1, "")
                    | [] => (ts1, "")
                    end in
  match ts2 with [] => None | _ => Some (CN "o" [canon_expr ts2; CS dir; CS nulls]) end.
Definition read_order (ts : list token) : option (list cn) :=
  opt_bind (commas ts) (fun l => all_some (map read_order_item l)).

Definition read_lock (ts : list token) : option cn :=
  (* after FOR: strength [OF names] [NOWAIT | SKIP LOCKED] *)
  let strengths := [["NO"; "KEY"; "UPDATE"]; ["KEY"; "SHARE"]; ["UPDATE"]; ["SHARE"]] in
  match find (fun ks => match starts_kws ks ts with Some _ => true | None => false end) strengths with
  | None => None
  | Some ks =>
      match starts_kws ks ts with
      | None => None
      | Some r =>
          let (ofp, r2) := match r with
                           | t :: r' => if is_kw t "OF" then
                                          match find0 [["NOWAIT"]; ["SKIP"; "LOCKED"]] r' 0 [] with
                                          | Some (b, k, a) => (Some b, (map (fun s => TWord s false) k) ++ a)
                                          | None => (Some r', [])
                                          end
                                        else (None, r)
                           | [] => (None, [])
                           end in
          let wait := toks_text r2 in
          if negb (str_in (upper wait) [""; "NOWAIT"; "SKIP LOCKED"]) then None
          else match ofp with
               | None => Some (CN "lock" [CS (sjoin " " ks); CN "of" []; CS (upper wait)])
               | Some o => match commas o with
                           | Some l => if forallb is_name_path l
                                       then Some (CN "lock" [CS (sjoin " " ks); CN "of" (map (fun x => CS (toks_text x)) l); CS (upper wait)])
                                       else None
                           | None => None
                           end
               end
      end
  end.

(* ------------------------------------------------------------------ SELECT *)
Definition core_order : list string := [""; "FROM"; "WHERE"; "GROUP BY"; "HAVING"; "ORDER BY"; "LIMIT"; "OFFSET"; "FOR"].
Definition core_kws : list (list string) := [["FROM"]; ["WHERE"]; ["GROUP"; "BY"]; ["HAVING"]; ["ORDER"; "BY"]; ["LIMIT"]; ["OFFSET"]; ["FOR"]].

Definition opt_slot (sg : list (string * list token)) (label : string) (f : list token -> option (list cn)) : option cn :=
  match seg label sg with
  | None => Some (CN label [])
  | Some [] => None                               (* the keyword without anything after it *)
  | Some ts => option_map (CN label) (f ts)
  end.

Definition one (f : list token -> cn) (ts : list token) : option (list cn) := Some [f ts].

(* one branch: SELECT [DISTINCT [ON (..)]] targets [FROM ..] [WHERE ..] [GROUP BY ..] [HAVING ..] + tail clauses;
   returns (core, tail) *)
Definition read_branch (ts : list token) : option (cn * list cn) :=
  match ts with
  | t :: body =>
      if negb (is_kw t "SELECT") then None
      else
        let sg := segments 16 core_kws "" body in
        if negb (in_order core_order (map fst sg)) then None
        else
          match seg "" sg with
          | None => None
          | Some hd =>
              let (dist, hd1) := match hd with x :: r => if is_kw x "DISTINCT" then (true, r) else (false, hd) | [] => (false, hd) end in
              let on_part := if dist then
                               match hd1 with
                               | x :: r => if is_kw x "ON" then
                                             match parenthesised r with
                                             | Some (inner, rest) => match read_exprs inner with
                                                                     | Some l => Some (l, rest)
                                                                     | None => None
                                                                     end
                                             | None => None
                                             end
                                           else Some ([], hd1)
                               | [] => Some ([], hd1)
                               end
                             else Some ([], hd1) in
              match on_part with
              | None => None
              | Some (on_l, tg) =>
                  match read_targets tg,
                        opt_slot sg "FROM" read_from,
                        opt_slot sg "WHERE" (one canon_expr),
                        opt_slot sg "GROUP BY" (fun x => option_map (fun g => [g]) (read_group_by x)),
                        opt_slot sg "HAVING" (one canon_expr),
                        opt_slot sg "ORDER BY" read_order,
                        opt_slot sg "LIMIT" (one canon_expr),
                        opt_slot sg "OFFSET" (one canon_expr),
                        opt_slot sg "FOR" (fun x => option_map (fun g => [g]) (read_lock x)) with
                  | Some tl, Some f, Some w, Some g, Some h, Some o, Some l, Some off, Some lk =>
                      Some (CN "core" [CN "distinct" [CS (if dist then "T" else "F")]; CN "on" on_l; CN "targets" tl; f; w; g; h],
                            [o; l; off; lk])
                  | _, _, _, _, _, _, _, _, _ => None
                  end
              end
          end
  | [] => None
  end.

Definition setop_kws : list (list string) :=
  [["UNION"; "ALL"]; ["UNION"]; ["INTERSECT"; "ALL"]; ["INTERSECT"]; ["EXCEPT"; "ALL"]; ["EXCEPT"]].

Definition empty_tail : list cn := [CN "ORDER BY" []; CN "LIMIT" []; CN "OFFSET" []; CN "FOR" []].
Definition tail_empty (t : list cn) : bool := String.eqb (show_cn (CN "" t)) (show_cn (CN "" empty_tail)).

(* SELECT ... { UNION | INTERSECT | EXCEPT [ALL] SELECT ... } [ORDER BY ..] [LIMIT ..] [OFFSET ..] [FOR ..] *)
Definition read_select_body (ts : list token) : option (list cn) :=
  let sg := segments 64 setop_kws "" ts in
  match all_some (map (fun p => read_branch (snd p)) sg) with
  | None => None
  | Some bs =>
      (* ORDER BY / LIMIT / OFFSET / FOR may only follow the last branch *)
      let inner := removelast bs in
      if negb (forallb (fun b => tail_empty (snd b)) inner) then None
      else
        match rev bs with
        | last :: _ =>
            Some (CN "branches" (map fst bs) :: CN "ops" (map (fun p => CS (fst p)) (tl sg)) :: snd last)
        | [] => None
        end
  end.

(* ------------------------------------------------------------------ statements *)
Definition read_returning (sg : list (string * list token)) : option cn := opt_slot sg "RETURNING" read_targets.

Definition read_set_items (ts : list token) : option (list cn) :=
  opt_bind (commas ts) (fun l =>
    all_some (map (fun it => match it with
                             | n :: e :: v => if is_alias [n] && is_sym e "=" then
                                                match v with [] => None | _ => Some (CN "set" [CS (ttext n); canon_expr v]) end
                                              else None
                             | _ => None
                             end) l)).

(* table [AS alias] *)
Definition read_table (ts : list token) : option (list cn) :=
  match find0 [["AS"]] ts 0 [] with
  | Some (b, _, a) => if is_name_path b && is_alias a then Some [CS (toks_text b); CS (toks_text a)] else None
  | None => if is_name_path ts then Some [CS (toks_text ts); CS ""] else None
  end.

Fixpoint read_stmt (fuel : nat) (ts : list token) {struct fuel} : option cn :=
  match fuel with
  | O => None
  | S n =>
      match ts with
      | [] => None
      | t :: r =>
          if is_kw t "WITH" then
            let (recu, r1) := match r with x :: r' => if is_kw x "RECURSIVE" then (true, r') else (false, r) | [] => (false, r) end in
            match read_ctes n r1 with
            | Some (ctes, rest) =>
                option_map (fun s => match s with
                                     | CN l k => CN l (CN "with" (CS (if recu then "RECURSIVE" else "") :: ctes) :: k)
                                     | c => c end) (read_main n rest)
            | None => None
            end
          else option_map (fun s => match s with CN l k => CN l (CN "with" [] :: k) | c => c end) (read_main n ts)
      end
  end
with read_ctes (fuel : nat) (ts : list token) {struct fuel} : option (list cn * list token) :=
  match fuel with
  | O => None
  | S n =>
      (* name [(cols)] AS [[NOT] MATERIALIZED] ( stmt ) [SEARCH ...] [, ...] *)
      match find0 [["AS"]] ts 0 [] with
      | None => None
      | Some (hd, _, a) =>
          let name_cols :=
            match hd with
            | nm :: rest =>
                if is_alias [nm] then
                  match rest with
                  | [] => Some (ttext nm, [])
                  | _ => match parenthesised rest with
                         | Some (inner, []) => option_map (fun c => (ttext nm, c)) (names_list inner)
                         | _ => None
                         end
                  end
                else None
            | [] => None
            end in
          let (mat, a1) := match starts_kws ["NOT"; "MATERIALIZED"] a with
                           | Some r => ("NOT MATERIALIZED", r)
                           | None => match starts_kws ["MATERIALIZED"] a with
                                     | Some r => ("MATERIALIZED", r)
                                     | None => ("", a)
                                     end
                           end in
          match name_cols, parenthesised a1 with
          | Some (nm, cols), Some (inner, rest) =>
              match read_stmt n inner with
              | None => None
              | Some body =>
                  (* optional SEARCH clause, then a comma (another CTE) or the main statement *)
                  let (search, rest1) :=
                    match starts_kws ["SEARCH"] rest with
                    | Some r1 =>
                        match find0 [["SET"]] r1 0 [] with
                        | Some (spec, _, after) =>
                            match after with
                            | c :: rest' => (Some (CN "search" [CS (toks_text spec); CS (ttext c)]), rest')
                            | [] => (None, rest)
                            end
                        | None => (None, rest)
                        end
                    | None => (Some (CN "search" []), rest)
                    end in
                  match search with
                  | None => None
                  | Some se =>
                      let this := CN "cte" [CS nm; CN "cols" cols; CS mat; body; se] in
                      match rest1 with
                      | c :: more => if is_sym c "," then
                                       match read_ctes n more with
                                       | Some (l, rest2) => Some (this :: l, rest2)
                                       | None => None
                                       end
                                     else Some ([this], rest1)
                      | [] => None
                      end
                  end
              end
          | _, _ => None
          end
      end
  end
with read_main (fuel : nat) (ts : list token) {struct fuel} : option cn :=
  match fuel with
  | O => None
  | S n =>
      match ts with
      | t :: r =>
          if is_kw t "SELECT" then option_map (CN "select") (read_select_body ts)
          else if is_kw t "INSERT" then
            match r with
            | i :: r1 =>
                if negb (is_kw i "INTO") then None
                else
                  (* head: table [AS alias] [(cols)] up to VALUES / DEFAULT VALUES / SELECT / WITH *)
                  match find0 [["DEFAULT"; "VALUES"]; ["VALUES"]; ["SELECT"]; ["WITH"]] r1 0 [] with
                  | None => None
                  | Some (hd, k, after) =>
                      let (tbl, cols) :=
                            (fix take (a : list token) (acc : list token) : list token * list token :=
                               match a with
                               | x :: r' => if is_sym x "(" then (rev acc, a) else take r' (x :: acc)
                               | [] => (rev acc, [])
                               end) hd [] in
                      let colsr := match cols with
                                   | [] => Some (CN "cols" [CS "-"])
                                   | _ => match parenthesised cols with
                                          | Some (inner, []) => option_map (CN "cols") (names_list inner)
                                          | _ => None
                                          end
                                   end in
                      let key := sjoin " " k in
                      let body_rest :=
                        if String.eqb key "SELECT" || String.eqb key "WITH" then
                          (* the query runs up to ON CONFLICT / RETURNING *)
                          let q := (map (fun s => TWord s false) k) ++ after in
                          match find0 [["ON"; "CONFLICT"]; ["RETURNING"]] q 0 [] with
                          | Some (b, k2, a2) => (option_map (fun s => CN "query" [s]) (read_stmt n b), (map (fun s => TWord s false) k2) ++ a2)
                          | None => (option_map (fun s => CN "query" [s]) (read_stmt n q), [])
                          end
                        else if String.eqb key "DEFAULT VALUES" then (Some (CN "default" []), after)
                        else
                          let (rows, rest) := match find0 [["ON"; "CONFLICT"]; ["RETURNING"]] after 0 [] with
                                              | Some (b, k2, a2) => (b, (map (fun s => TWord s false) k2) ++ a2)
                                              | None => (after, [])
                                              end in
                          (opt_bind (commas rows) (fun l =>
                             option_map (CN "values")
                               (all_some (map (fun row => match parenthesised row with
                                                          | Some (inner, []) => option_map (CN "row") (read_exprs inner)
                                                          | _ => None
                                                          end) l))), rest) in
                      let sg := segments 8 [["ON"; "CONFLICT"]; ["RETURNING"]] "" (snd body_rest) in
                      let conflict :=
                        match seg "ON CONFLICT" sg with
                        | None => Some (CN "conflict" [])
                        | Some c =>
                            (* [(targets)] [WHERE ..] [ON CONSTRAINT name] DO NOTHING | DO UPDATE SET .. [WHERE ..] *)
                            match find0 [["DO"; "NOTHING"]; ["DO"; "UPDATE"; "SET"]] c 0 [] with
                            | None => None
                            | Some (tgt, act, upd) =>
                                let tsg := segments 4 [["WHERE"]; ["ON"; "CONSTRAINT"]] "" tgt in
                                let targets := match seg "" tsg with
                                               | Some [] | None => Some (CN "targets" [])
                                               | Some tg0 => match parenthesised tg0 with
                                                            | Some (inner, []) => option_map (CN "targets") (read_exprs inner)
                                                            | _ => None
                                                            end
                                               end in
                                let constraint := match seg "ON CONSTRAINT" tsg with
                                                  | None => Some (CN "constraint" [])
                                                  | Some cn_ => if is_alias cn_ then Some (CN "constraint" [CS (toks_text cn_)]) else None
                                                  end in
                                (* a constraint name and an inference specification exclude each other *)
                                let both := match seg "ON CONSTRAINT" tsg, seg "" tsg with
                                            | Some _, Some (_ :: _) => true
                                            | Some _, _ => match seg "WHERE" tsg with Some _ => true | None => false end
                                            | _, _ => false
                                            end in
                                if both then None
                                else
                                  let action :=
                                    if String.eqb (sjoin " " act) "DO NOTHING" then
                                      match upd with [] => Some (CN "do" [CS "NOTHING"]) | _ => None end
                                    else
                                      let usg := segments 4 [["WHERE"]] "" upd in
                                      match opt_bind (seg "" usg) read_set_items, opt_slot usg "WHERE" (one canon_expr) with
                                      | Some items, Some w => Some (CN "do" [CS "UPDATE"; CN "set" items; w])
                                      | _, _ => None
                                      end in
                                  match targets, opt_slot tsg "WHERE" (one canon_expr), constraint, action with
                                  | Some tg, Some tw, Some cs, Some ac => Some (CN "conflict" [tg; tw; cs; ac])
                                  | _, _, _, _ => None
                                  end
                            end
                        end in
                      match read_table tbl, colsr, fst body_rest, conflict, read_returning sg,
                            in_order [""; "ON CONFLICT"; "RETURNING"] (map fst sg), seg "" sg with
                      | Some tb, Some cl, Some bd, Some cf, Some rt, true, Some [] =>
                          Some (CN "insert" [CN "table" tb; cl; bd; cf; rt])
                      | _, _, _, _, _, _, _ => None
                      end
                  end
            | [] => None
            end
          else if is_kw t "UPDATE" then
            let sg := segments 8 [["SET"]; ["FROM"]; ["WHERE"]; ["RETURNING"]] "" r in
            if negb (in_order [""; "SET"; "FROM"; "WHERE"; "RETURNING"] (map fst sg)) then None
            else
              match opt_bind (seg "" sg) read_table, opt_bind (seg "SET" sg) read_set_items,
                    opt_slot sg "FROM" read_from, opt_slot sg "WHERE" (one canon_expr), read_returning sg with
              | Some tb, Some items, Some f, Some w, Some rt => Some (CN "update" [CN "table" tb; CN "set" items; f; w; rt])
              | _, _, _, _, _ => None
              end
          else if is_kw t "DELETE" then
            match r with
            | f :: r1 =>
                if negb (is_kw f "FROM") then None
                else
                  let sg := segments 8 [["USING"]; ["WHERE"]; ["RETURNING"]] "" r1 in
                  if negb (in_order [""; "USING"; "WHERE"; "RETURNING"] (map fst sg)) then None
                  else
                    match opt_bind (seg "" sg) read_table, opt_slot sg "USING" read_from,
                          opt_slot sg "WHERE" (one canon_expr), read_returning sg with
                    | Some tb, Some u, Some w, Some rt => Some (CN "delete" [CN "table" tb; u; w; rt])
                    | _, _, _, _ => None
                    end
            | [] => None
            end
          else None
      | [] => None
      end
  end.

(* ROWS FROM ( ... ) is one construct: its FROM is not a clause keyword *)
Fixpoint merge_rows_from (ts : list token) : list token :=
  match ts with
  | (TWord a ua as t) :: r =>
      match r with
      | TWord b _ :: r' => if String.eqb (upper a) "ROWS" && String.eqb (upper b) "FROM"
                           then TWord (a ++ " " ++ b) ua :: merge_rows_from r'
                           else t :: merge_rows_from r
      | _ => t :: merge_rows_from r
      end
  | t :: r => t :: merge_rows_from r
  | [] => []
  end.

Definition pg_read_stmt (ts : list token) : option cn := read_stmt 64 (merge_rows_from ts).
