(* PostgreSQL's lexer (src/backend/parser/scan.l, PostgreSQL 15) as a streaming transducer:
   [lstep : lstate -> byte -> lstate * list token], [lfinish], [pg_lex = fold].  Written from
   scan.l and the manual (4.1 Lexical Structure), independently of qrb.

   Constructs the query builder must never emit drive the transducer into [LErr]: comments, dollar
   quoting, B'' / X'' / N'' / U&'' strings, backslash escapes other than the simple ones, trailing
   junk after numbers and parameters (an error since PostgreSQL 15).  So "lexes successfully" already
   says "contains none of them".  No proofs in this file. *)
From Coq Require Import String List Ascii NArith Bool.
From QRB Require Import Base.Bytes.
Import ListNotations.
Local Open Scope N_scope.

Inductive token :=
| TWord (s : string)        (* {identifier}: unquoted identifier or keyword, spelling kept *)
| TQIdent (s : string)      (* "..." with "" undoubled *)
| TUIdent (s : string)      (* U&"..." (escapes are decoded later, by the parser) *)
| TStr (s : string)         (* string constant, decoded value *)
| TNum (s : string)         (* numeric constant, spelling *)
| TParam (s : string)       (* $n, digits *)
| TOp (s : string)          (* operator, incl. <= >= <> != => *)
| TSelf (c : ascii)         (* , ( ) [ ] . ; : + - * / % ^ < > = *)
| TCast                     (* :: *)
| TDotDot                   (* .. *)
| TColonEq                  (* := *)
| TBad (c : ascii).         (* any other character: always a syntax error *)

Definition nb (c : ascii) : N := N_of_ascii c.
Definition is_space (c : ascii) : bool :=
  let n := nb c in (n =? 32) || (n =? 9) || (n =? 10) || (n =? 13) || (n =? 12).
Definition is_newline (c : ascii) : bool := let n := nb c in (n =? 10) || (n =? 13).
Definition is_digit (c : ascii) : bool := let n := nb c in (48 <=? n) && (n <=? 57).
Definition is_ident_start (c : ascii) : bool :=
  let n := nb c in ((65 <=? n) && (n <=? 90)) || ((97 <=? n) && (n <=? 122)) || (128 <=? n) || (n =? 95).
Definition is_ident_cont (c : ascii) : bool := is_ident_start c || is_digit c || (nb c =? 36).
Definition in_chars (c : ascii) (s : string) : bool := contains_byte c s.
Definition is_self (c : ascii) : bool := in_chars c ",()[].;:+-*/%^<>=".
Definition is_op_char (c : ascii) : bool := in_chars c "~!@#^&|`?+-*/%<>=".
Definition is_op_special (c : ascii) : bool := in_chars c "~!@#^&|`?%".

(* what is known about the word read so far, for the one-letter prefixes of quoted constructs *)
Inductive wkind := WkE | WkB | WkN | WkU | WkOther.
Definition wkind_of_first (c : ascii) : wkind :=
  let n := nb c in
  if (n =? 69) || (n =? 101) then WkE
  else if (n =? 66) || (n =? 98) || (n =? 88) || (n =? 120) then WkB
  else if (n =? 78) || (n =? 110) then WkN
  else if (n =? 85) || (n =? 117) then WkU
  else WkOther.

Inductive lstate :=
| LInit
| LWord (k : wkind) (acc : string)        (* acc: characters read, in order *)
| LUAmp (u : ascii)                       (* read U& *)
| LQIdent (acc : string) | LQIdentQ (acc : string)
| LUIdent (acc : string) | LUIdentQ (acc : string)
| LStr (esc : bool) (acc : string)        (* inside '...'; esc: backslash is an escape character *)
| LStrEsc (acc : string)                  (* after a backslash inside an escape string *)
| LStrQ (esc : bool) (acc : string)       (* after a quote inside a string: end or first half of '' *)
| LStrWs (esc : bool) (acc : string) (nl : bool)  (* white space after a closed string: continuation? *)
| LInt (acc : string) | LIntDot (acc : string) | LFrac (acc : string)
| LNumE (acc : string) | LNumESign (acc : string) | LExp (acc : string)
| LDot
| LDollar | LParam (acc : string)
| LColon
| LOp (acc : string)
| LErr.

Definition snoc (s : string) (c : ascii) : string := append s (String c EmptyString).
Definition last_is (s : string) (c : ascii) : bool :=
  match list_of_string s with
  | [] => false
  | l => Ascii.eqb (List.last l c) c && negb (Nat.eqb (List.length l) 0)
  end.

(* the {operator} rule: strip trailing + and - unless a "special" character occurs; what is
   stripped is pushed back and re-lexed, which yields single + / - tokens *)
Fixpoint strip_pm (rev_acc : list ascii) (n : nat) : list ascii * list ascii :=
  (* rev_acc: operator reversed; returns (kept reversed, pushed back in order) *)
  match n with
  | O => (rev_acc, [])
  | S n' =>
      match rev_acc with
      | c :: (_ :: _) as r =>
          if (Ascii.eqb c "+" || Ascii.eqb c "-")%char then
            let (k, p) := strip_pm (List.tl rev_acc) n' in (k, p ++ [c])
          else (rev_acc, [])
      | _ => (rev_acc, [])
      end
  end.

Definition op_token (s : string) : token :=
  match s with
  | String c EmptyString => if is_self c then TSelf c else TOp s
  | _ => TOp s
  end.

Definition close_op (acc : string) : list token :=
  let l := list_of_string acc in
  if existsb is_op_special l then [op_token acc]
  else
    let (k, p) := strip_pm (rev l) (List.length l) in
    op_token (string_of_list (rev k)) :: map (fun c => TSelf c) p.

Definition num_token (acc : string) : list token := [TNum acc].

(* the token(s) completed when the pending construct ends; None = lexical error *)
Definition close (st : lstate) : option (list token) :=
  match st with
  | LInit => Some []
  | LWord _ acc => Some [TWord acc]
  | LUAmp u => Some [TWord (String u EmptyString); TOp "&"]
  | LQIdentQ acc => match acc with EmptyString => None | _ => Some [TQIdent acc] end
  | LUIdentQ acc => match acc with EmptyString => None | _ => Some [TUIdent acc] end
  | LStrQ _ acc | LStrWs _ acc _ => Some [TStr acc]
  | LInt acc | LFrac acc | LExp acc => Some (num_token acc)
  | LIntDot acc => Some (num_token (snoc acc "."))
  | LDot => Some [TSelf "."]
  | LDollar => Some [TBad "$"]
  | LParam acc => Some [TParam acc]
  | LColon => Some [TSelf ":"]
  | LOp acc => Some (close_op acc)
  | LQIdent _ | LUIdent _ | LStr _ _ | LStrEsc _ | LNumE _ | LNumESign _ | LErr => None
  end.

Section Lex.
  Variable scs : bool.                       (* standard_conforming_strings *)

  (* first character of a token *)
  Definition start (c : ascii) : lstate * list token :=
    if is_space c then (LInit, [])
    else if is_ident_start c then (LWord (wkind_of_first c) (String c EmptyString), [])
    else if is_digit c then (LInt (String c EmptyString), [])
    else if Ascii.eqb c """" then (LQIdent EmptyString, [])
    else if Ascii.eqb c "'" then (LStr (negb scs) EmptyString, [])
    else if Ascii.eqb c "." then (LDot, [])
    else if Ascii.eqb c "$" then (LDollar, [])
    else if Ascii.eqb c ":" then (LColon, [])
    else if is_op_char c then (LOp (String c EmptyString), [])
    else if is_self c then (LInit, [TSelf c])
    else (LInit, [TBad c]).

  (* close the pending construct, then start a new token with c *)
  Definition restart (st : lstate) (c : ascii) : lstate * list token :=
    match close st with
    | None => (LErr, [])
    | Some ts => let (st', ts') := start c in (st', ts ++ ts')
    end.

  Definition simple_escape (c : ascii) : option ascii :=
    let n := nb c in
    if n =? 92 then Some c                                  (* \\ *)
    else if n =? 39 then Some c                             (* \' *)
    else if n =? 110 then Some (ascii_of_N 10)              (* \n *)
    else if n =? 116 then Some (ascii_of_N 9)               (* \t *)
    else if n =? 114 then Some (ascii_of_N 13)              (* \r *)
    else if n =? 98 then Some (ascii_of_N 8)                (* \b *)
    else if n =? 102 then Some (ascii_of_N 12)              (* \f *)
    else if is_digit c || (n =? 120) || (n =? 117) || (n =? 85) then None  (* octal, hex, unicode *)
    else Some c.

  (* a NUL byte cannot occur in a query: the text is a C string and ends there *)
  Definition lstep (st : lstate) (c : ascii) : lstate * list token :=
    if nb c =? 0 then (LErr, []) else
    match st with
    | LErr => (LErr, [])
    | LInit => start c
    | LWord k acc =>
        if is_ident_cont c then (LWord WkOther (snoc acc c), [])
        else if Ascii.eqb c "'" then
          match k with
          | WkE => (LStr true EmptyString, [])               (* E'...' *)
          | WkB | WkN => (LErr, [])                          (* B'' X'' N'': never emitted by qrb *)
          | _ => restart st c
          end
        else if Ascii.eqb c "&" then
          match k, acc with
          | WkU, String u EmptyString => (LUAmp u, [])
          | _, _ => restart st c
          end
        else restart st c
    | LUAmp u =>
        if Ascii.eqb c """" then (LUIdent EmptyString, [])
        else if Ascii.eqb c "'" then (LErr, [])              (* U&'...' *)
        else
          (* the word U, then an operator starting with & *)
          if is_op_char c then (LOp (String "&" (String c EmptyString)), [TWord (String u EmptyString)])
          else let (st', ts') := start c in (st', [TWord (String u EmptyString); TOp "&"] ++ ts')
    | LQIdent acc => if Ascii.eqb c """" then (LQIdentQ acc, []) else (LQIdent (snoc acc c), [])
    | LQIdentQ acc => if Ascii.eqb c """" then (LQIdent (snoc acc c), []) else restart st c
    | LUIdent acc => if Ascii.eqb c """" then (LUIdentQ acc, []) else (LUIdent (snoc acc c), [])
    | LUIdentQ acc => if Ascii.eqb c """" then (LUIdent (snoc acc c), []) else restart st c
    | LStr esc acc =>
        if Ascii.eqb c "'" then (LStrQ esc acc, [])
        else if esc && Ascii.eqb c "\" then (LStrEsc acc, [])
        else (LStr esc (snoc acc c), [])
    | LStrEsc acc =>
        match simple_escape c with
        | Some d => (LStr true (snoc acc d), [])
        | None => (LErr, [])
        end
    | LStrQ esc acc =>
        if Ascii.eqb c "'" then (LStr esc (snoc acc c), [])
        else if is_space c then (LStrWs esc acc (is_newline c), [])
        else restart st c
    | LStrWs esc acc nl =>
        if is_space c then (LStrWs esc acc (nl || is_newline c), [])
        else if Ascii.eqb c "'" then
          if nl then (LStr esc acc, [])                      (* continuation across a newline *)
          else restart st c
        else restart st c
    | LInt acc =>
        if is_digit c then (LInt (snoc acc c), [])
        else if Ascii.eqb c "." then (LIntDot acc, [])
        else if (Ascii.eqb c "e" || Ascii.eqb c "E")%char then (LNumE (snoc acc c), [])
        else if is_ident_start c then (LErr, [])             (* trailing junk after numeric literal *)
        else restart st c
    | LIntDot acc =>
        if is_digit c then (LFrac (snoc (snoc acc ".") c), [])
        else if Ascii.eqb c "." then (LInit, [TNum acc; TDotDot])
        else if (Ascii.eqb c "e" || Ascii.eqb c "E")%char then (LNumE (snoc (snoc acc ".") c), [])
        else if is_ident_start c then (LErr, [])
        else
          match start c with (st', ts') => (st', TNum (snoc acc ".") :: ts') end
    | LFrac acc =>
        if is_digit c then (LFrac (snoc acc c), [])
        else if (Ascii.eqb c "e" || Ascii.eqb c "E")%char then (LNumE (snoc acc c), [])
        else if is_ident_start c then (LErr, [])
        else restart st c
    | LNumE acc =>
        if is_digit c then (LExp (snoc acc c), [])
        else if (Ascii.eqb c "+" || Ascii.eqb c "-")%char then (LNumESign (snoc acc c), [])
        else (LErr, [])
    | LNumESign acc => if is_digit c then (LExp (snoc acc c), []) else (LErr, [])
    | LExp acc =>
        if is_digit c then (LExp (snoc acc c), [])
        else if is_ident_start c then (LErr, [])
        else restart st c
    | LDot =>
        if is_digit c then (LFrac (String "." (String c EmptyString)), [])
        else if Ascii.eqb c "." then (LInit, [TDotDot])
        else restart st c
    | LDollar =>
        if is_digit c then (LParam (String c EmptyString), [])
        else if is_ident_start c || Ascii.eqb c "$" then (LErr, [])   (* dollar quoting *)
        else restart st c
    | LParam acc =>
        if is_digit c then (LParam (snoc acc c), [])
        else if is_ident_start c then (LErr, [])             (* trailing junk after parameter *)
        else restart st c
    | LColon =>
        if Ascii.eqb c ":" then (LInit, [TCast])
        else if Ascii.eqb c "=" then (LInit, [TColonEq])
        else restart st c
    | LOp acc =>
        if is_op_char c then
          if (last_is acc "-" && Ascii.eqb c "-") || (last_is acc "/" && Ascii.eqb c "*") then (LErr, [])  (* comment *)
          else (LOp (snoc acc c), [])
        else restart st c
    end.

  Fixpoint lrun (st : lstate) (s : string) : lstate * list token :=
    match s with
    | EmptyString => (st, [])
    | String c r => let (st1, t1) := lstep st c in let (st2, t2) := lrun st1 r in (st2, t1 ++ t2)
    end.

  (* lexing [s] to the end, starting in state [st] *)
  Definition lex_from (st : lstate) (s : string) : option (list token) :=
    let (st', ts) := lrun st s in
    match close st' with Some t => Some (ts ++ t) | None => None end.

  Definition pg_lex (s : string) : option (list token) := lex_from LInit s.
End Lex.
