(* PostgreSQL's lexer (src/backend/parser/scan.l, PostgreSQL 15) as a streaming transducer:
   [lstep : lstate -> byte -> lstate * list token], [lfinish], [pg_lex = fold].  Written from
   scan.l and the manual (4.1 Lexical Structure), independently of qrb.

   Constructs the query builder must never emit drive the transducer into [LErr]: comments, dollar
   quoting, B'' / X'' / N'' / U&'' strings, backslash escapes other than the simple ones, trailing
   junk after numbers and parameters (an error since PostgreSQL 15).  So "lexes successfully" already
   says "contains none of them".  No proofs in this file. *)
From Coq Require Import String List Ascii NArith Bool.
From QRB Require Import Base.Bytes.
Import ListNotations.
Local Open Scope N_scope.

Inductive token :=
| TWord (s : string) (ue : bool)   (* {identifier}: unquoted identifier or keyword, spelling kept; ue: it spells UESCAPE *)
| TQIdent (s : string)      (* "..." with "" undoubled *)
| TUIdent (s : string)      (* U&"..." (escapes are decoded later, by the parser) *)
| TStr (s : string)         (* string constant, decoded value *)
| TNum (s : string)         (* numeric constant, spelling *)
| TParam (s : string)       (* $n, digits *)
| TOp (s : string)          (* operator, incl. <= >= <> != => *)
| TRun (s : string) (star : bool)  (* raw lexer only: a maximal run of operator characters (star: it is exactly "*");
                               [expand_ops] applies the {operator} rule to it *)
| TSelf (c : ascii)         (* , ( ) [ ] . ; : + - * / % ^ < > = *)
| TCast                     (* :: *)
| TDotDot                   (* .. *)
| TColonEq                  (* := *)
| TBad (c : ascii).         (* any other character: always a syntax error *)

Definition nb (c : ascii) : N := N_of_ascii c.
Definition is_space (c : ascii) : bool :=
  let n := nb c in (n =? 32) || (n =? 9) || (n =? 10) || (n =? 13) || (n =? 12).
Definition is_newline (c : ascii) : bool := let n := nb c in (n =? 10) || (n =? 13).
Definition is_digit (c : ascii) : bool := let n := nb c in (48 <=? n) && (n <=? 57).
Definition is_ident_start (c : ascii) : bool :=
  let n := nb c in ((65 <=? n) && (n <=? 90)) || ((97 <=? n) && (n <=? 122)) || (128 <=? n) || (n =? 95).
Definition is_ident_cont (c : ascii) : bool := is_ident_start c || is_digit c || (nb c =? 36).
Definition in_chars (c : ascii) (s : string) : bool := contains_byte c s.
Definition is_self (c : ascii) : bool := in_chars c ",()[].;:+-*/%^<>=".
Definition is_op_char (c : ascii) : bool := in_chars c "~!@#^&|`?+-*/%<>=".
Definition is_op_special (c : ascii) : bool := in_chars c "~!@#^&|`?%".

(* what is known about the word read so far, for the one-letter prefixes of quoted constructs *)
Inductive wkind := WkE | WkB | WkN | WkU | WkOther.
Definition wkind_of_first (c : ascii) : wkind :=
  let n := nb c in
  if (n =? 69) || (n =? 101) then WkE
  else if (n =? 66) || (n =? 98) || (n =? 88) || (n =? 120) then WkB
  else if (n =? 78) || (n =? 110) then WkN
  else if (n =? 85) || (n =? 117) then WkU
  else WkOther.

Inductive opl := OlDash | OlSlash | OlOther.
Definition opl_of (c : ascii) : opl :=
  if Ascii.eqb c "-" then OlDash else if Ascii.eqb c "/" then OlSlash else OlOther.

(* progress through the keyword UESCAPE, case-insensitively *)
Definition lower (c : ascii) : ascii :=
  let n := nb c in if (65 <=? n) && (n <=? 90) then ascii_of_N (n + 32) else c.
Definition uescape_kw : string := "uescape".
Definition ue_next (ue : option nat) (c : ascii) : option nat :=
  match ue with
  | Some n => match String.get n uescape_kw with
              | Some d => if Ascii.eqb (lower c) d then Some (S n) else None
              | None => None
              end
  | None => None
  end.
Definition ue_done (ue : option nat) : bool := match ue with Some 7%nat => true | _ => false end.

Inductive lstate :=
| LInit
| LWord (k : wkind) (one : bool) (ue : option nat) (acc : string)
    (* acc: characters read, in order; one: exactly one character so far; ue: acc is (case-insensitively)
       the first ue characters of "uescape".  Control never inspects acc itself. *)
| LUAmp (u : ascii)                       (* read U& *)
| LQIdent (ne : bool) (acc : string) | LQIdentQ (ne : bool) (acc : string)   (* ne: acc is not empty *)
| LUIdent (ne : bool) (acc : string) | LUIdentQ (ne : bool) (acc : string)
| LStr (esc : bool) (acc : string)        (* inside '...'; esc: backslash is an escape character *)
| LStrEsc (acc : string)                  (* after a backslash inside an escape string *)
| LStrQ (esc : bool) (acc : string)       (* after a quote inside a string: end or first half of '' *)
| LStrWs (esc : bool) (acc : string) (nl : bool)  (* white space after a closed string: continuation? *)
| LInt (acc : string) | LIntDot (acc : string) | LFrac (acc : string)
| LNumE (acc : string) | LNumESign (acc : string) | LExp (acc : string)
| LDot
| LDollar | LParam (acc : string)
| LColon
| LOp (star : bool) (last : opl) (acc : string)   (* star: acc = "*"; last: class of the last character *)
| LErr.

Definition snoc (s : string) (c : ascii) : string := append s (String c EmptyString).

(* the {operator} rule: strip trailing + and - unless a "special" character occurs; what is
   stripped is pushed back and re-lexed, which yields single + / - tokens *)
Fixpoint strip_pm (rev_acc : list ascii) (n : nat) : list ascii * list ascii :=
  (* rev_acc: operator reversed; returns (kept reversed, pushed back in order) *)
  match n with
  | O => (rev_acc, [])
  | S n' =>
      match rev_acc with
      | c :: (_ :: _) as r =>
          if (Ascii.eqb c "+" || Ascii.eqb c "-")%char then
            let (k, p) := strip_pm (List.tl rev_acc) n' in (k, p ++ [c])
          else (rev_acc, [])
      | _ => (rev_acc, [])
      end
  end.

Definition op_token (s : string) : token :=
  match s with
  | String c EmptyString => if is_self c then TSelf c else TOp s
  | _ => TOp s
  end.

Definition close_op (acc : string) : list token :=
  let l := list_of_string acc in
  if existsb is_op_special l then [op_token acc]
  else
    let (k, p) := strip_pm (rev l) (List.length l) in
    op_token (string_of_list (rev k)) :: map (fun c => TSelf c) p.

Definition num_token (acc : string) : list token := [TNum acc].

(* the token(s) completed when the pending construct ends; None = lexical error *)
Definition close (st : lstate) : option (list token) :=
  match st with
  | LInit => Some []
  | LWord _ _ ue acc => Some [TWord acc (ue_done ue)]
  | LUAmp u => Some [TWord (String u EmptyString) false; TRun "&" false]
  | LQIdentQ ne acc => if ne then Some [TQIdent acc] else None
  | LUIdentQ ne acc => if ne then Some [TUIdent acc] else None
  | LStrQ _ acc | LStrWs _ acc _ => Some [TStr acc]
  | LInt acc | LFrac acc | LExp acc => Some (num_token acc)
  | LIntDot acc => Some (num_token (snoc acc "."))
  | LDot => Some [TSelf "."]
  | LDollar => Some [TBad "$"]
  | LParam acc => Some [TParam acc]
  | LColon => Some [TSelf ":"]
  | LOp star _ acc => Some [TRun acc star]
  | LQIdent _ _ | LUIdent _ _ | LStr _ _ | LStrEsc _ | LNumE _ | LNumESign _ | LErr => None
  end.

Section Lex.
  Variable scs : bool.                       (* standard_conforming_strings *)

  (* first character of a token *)
  Definition start (c : ascii) : lstate * list token :=
    if is_space c then (LInit, [])
    else if is_ident_start c then (LWord (wkind_of_first c) true (ue_next (Some 0%nat) c) (String c EmptyString), [])
    else if is_digit c then (LInt (String c EmptyString), [])
    else if Ascii.eqb c """" then (LQIdent false EmptyString, [])
    else if Ascii.eqb c "'" then (LStr (negb scs) EmptyString, [])
    else if Ascii.eqb c "." then (LDot, [])
    else if Ascii.eqb c "$" then (LDollar, [])
    else if Ascii.eqb c ":" then (LColon, [])
    else if is_op_char c then (LOp (Ascii.eqb c "*") (opl_of c) (String c EmptyString), [])
    else if is_self c then (LInit, [TSelf c])
    else (LInit, [TBad c]).

  (* close the pending construct, then start a new token with c *)
  Definition restart (st : lstate) (c : ascii) : lstate * list token :=
    match close st with
    | None => (LErr, [])
    | Some ts => let (st', ts') := start c in (st', ts ++ ts')
    end.

  Definition simple_escape (c : ascii) : option ascii :=
    let n := nb c in
    if n =? 92 then Some c                                  (* \\ *)
    else if n =? 39 then Some c                             (* \' *)
    else if n =? 110 then Some (ascii_of_N 10)              (* \n *)
    else if n =? 116 then Some (ascii_of_N 9)               (* \t *)
    else if n =? 114 then Some (ascii_of_N 13)              (* \r *)
    else if n =? 98 then Some (ascii_of_N 8)                (* \b *)
    else if n =? 102 then Some (ascii_of_N 12)              (* \f *)
    else if is_digit c || (n =? 120) || (n =? 117) || (n =? 85) then None  (* octal, hex, unicode *)
    else Some c.

  (* a NUL byte cannot occur in a query: the text is a C string and ends there *)
  Definition lstep (st : lstate) (c : ascii) : lstate * list token :=
    if nb c =? 0 then (LErr, []) else
    match st with
    | LErr => (LErr, [])
    | LInit => start c
    | LWord k one ue acc =>
        if is_ident_cont c then (LWord WkOther false (ue_next ue c) (snoc acc c), [])
        else if Ascii.eqb c "'" then
          match k with
          | WkE => (LStr true EmptyString, [])               (* E'...' *)
          | WkB | WkN => (LErr, [])                          (* B'' X'' N'': never emitted by qrb *)
          | _ => restart st c
          end
        else if Ascii.eqb c "&" then
          match k, one with
          | WkU, true => (LUAmp (match acc with String u _ => u | EmptyString => "U"%char end), [])
          | _, _ => restart st c
          end
        else restart st c
    | LUAmp u =>
        if Ascii.eqb c """" then (LUIdent false EmptyString, [])
        else if Ascii.eqb c "'" then (LErr, [])              (* U&'...' *)
        else
          (* the word U, then an operator starting with & *)
          if is_op_char c then
            (LOp false (opl_of c) (String "&" (String c EmptyString)), [TWord (String u EmptyString) false])
          else let (st', ts') := start c in (st', [TWord (String u EmptyString) false; TRun "&" false] ++ ts')
    | LQIdent ne acc => if Ascii.eqb c """" then (LQIdentQ ne acc, []) else (LQIdent true (snoc acc c), [])
    | LQIdentQ ne acc => if Ascii.eqb c """" then (LQIdent true (snoc acc c), []) else restart st c
    | LUIdent ne acc => if Ascii.eqb c """" then (LUIdentQ ne acc, []) else (LUIdent true (snoc acc c), [])
    | LUIdentQ ne acc => if Ascii.eqb c """" then (LUIdent true (snoc acc c), []) else restart st c
    | LStr esc acc =>
        if Ascii.eqb c "'" then (LStrQ esc acc, [])
        else if esc && Ascii.eqb c "\" then (LStrEsc acc, [])
        else (LStr esc (snoc acc c), [])
    | LStrEsc acc =>
        match simple_escape c with
        | Some d => (LStr true (snoc acc d), [])
        | None => (LErr, [])
        end
    | LStrQ esc acc =>
        if Ascii.eqb c "'" then (LStr esc (snoc acc c), [])
        else if is_space c then (LStrWs esc acc (is_newline c), [])
        else restart st c
    | LStrWs esc acc nl =>
        if is_space c then (LStrWs esc acc (nl || is_newline c), [])
        else if Ascii.eqb c "'" then
          if nl then (LStr esc acc, [])                      (* continuation across a newline *)
          else restart st c
        else restart st c
    | LInt acc =>
        if is_digit c then (LInt (snoc acc c), [])
        else if Ascii.eqb c "." then (LIntDot acc, [])
        else if (Ascii.eqb c "e" || Ascii.eqb c "E")%char then (LNumE (snoc acc c), [])
        else if is_ident_start c then (LErr, [])             (* trailing junk after numeric literal *)
        else restart st c
    | LIntDot acc =>
        if is_digit c then (LFrac (snoc (snoc acc ".") c), [])
        else if Ascii.eqb c "." then (LInit, [TNum acc; TDotDot])
        else if (Ascii.eqb c "e" || Ascii.eqb c "E")%char then (LNumE (snoc (snoc acc ".") c), [])
        else if is_ident_start c then (LErr, [])
        else
          match start c with (st', ts') => (st', TNum (snoc acc ".") :: ts') end
    | LFrac acc =>
        if is_digit c then (LFrac (snoc acc c), [])
        else if (Ascii.eqb c "e" || Ascii.eqb c "E")%char then (LNumE (snoc acc c), [])
        else if is_ident_start c then (LErr, [])
        else restart st c
    | LNumE acc =>
        if is_digit c then (LExp (snoc acc c), [])
        else if (Ascii.eqb c "+" || Ascii.eqb c "-")%char then (LNumESign (snoc acc c), [])
        else (LErr, [])
    | LNumESign acc => if is_digit c then (LExp (snoc acc c), []) else (LErr, [])
    | LExp acc =>
        if is_digit c then (LExp (snoc acc c), [])
        else if is_ident_start c then (LErr, [])
        else restart st c
    | LDot =>
        if is_digit c then (LFrac (String "." (String c EmptyString)), [])
        else if Ascii.eqb c "." then (LInit, [TDotDot])
        else restart st c
    | LDollar =>
        if is_digit c then (LParam (String c EmptyString), [])
        else if is_ident_start c || Ascii.eqb c "$" then (LErr, [])   (* dollar quoting *)
        else restart st c
    | LParam acc =>
        if is_digit c then (LParam (snoc acc c), [])
        else if is_ident_start c then (LErr, [])             (* trailing junk after parameter *)
        else restart st c
    | LColon =>
        if Ascii.eqb c ":" then (LInit, [TCast])
        else if Ascii.eqb c "=" then (LInit, [TColonEq])
        else restart st c
    | LOp star last acc =>
        if is_op_char c then
          match last with
          | OlDash => if Ascii.eqb c "-" then (LErr, []) else (LOp false (opl_of c) (snoc acc c), [])   (* -- comment *)
          | OlSlash => if Ascii.eqb c "*" then (LErr, []) else (LOp false (opl_of c) (snoc acc c), [])  (* /* comment *)
          | OlOther => (LOp false (opl_of c) (snoc acc c), [])
          end
        else restart st c
    end.

  Fixpoint lrun (st : lstate) (s : string) : lstate * list token :=
    match s with
    | EmptyString => (st, [])
    | String c r => let (st1, t1) := lstep st c in let (st2, t2) := lrun st1 r in (st2, t1 ++ t2)
    end.

  (* lexing [s] to the end, starting in state [st] *)
  Definition lex_from (st : lstate) (s : string) : option (list token) :=
    let (st', ts) := lrun st s in
    match close st' with Some t => Some (ts ++ t) | None => None end.

  (* the {operator} rule applied to every run of operator characters *)
  Definition expand_ops (ts : list token) : list token :=
    flat_map (fun t => match t with TRun acc _ => close_op acc | _ => [t] end) ts.

  Definition pg_lex (s : string) : option (list token) := option_map expand_ops (lex_from LInit s).
End Lex.
