(* Corollaries of compile_wall used by the property files. *)
From Coq Require Import String List Ascii ZArith Bool Lia.
From QRB Require Import Base.Bytes Model.W Model.WInd Model.WModes Model.Values Model.Compile Model.Wall Model.Wfe.
Import ListNotations.

Section Facts.
  Variable V : Type.

  (* AddError under "if sb.Validating()" is only ever a validation error, an unconditional AddError
     of a sentinel is only ever a structural one *)
  Theorem compile_errv_ok (e : exp V) : errv_ok V (compile_top e) = true.
  Proof.
    apply Wall_errv_ok. apply compile_top_wall; cbn; try tauto; try reflexivity.
  Qed.

  (* a well-formed value has no panic site *)
  Theorem compile_no_panic (e : exp V) : wfe e = true -> panics V (compile_top e) = false.
  Proof.
    intro H. apply Wall_no_panic. apply compile_top_wall; try discriminate. now right.
  Qed.

  Theorem compile_no_panic_sub (e : exp V) : wfe e = true -> panics V (compile e) = false.
  Proof.
    intro H. apply Wall_no_panic. apply compile_wall; try discriminate. now right.
  Qed.
End Facts.
