(* Corollaries of compile_wall used by the property files. *)
From Coq Require Import String List Ascii ZArith Bool Lia.
From QRB Require Import Base.Bytes Model.W Model.WInd Model.WModes Model.WValid Model.Values Model.Compile Model.Wall Model.Wfe.
Import ListNotations.

Section Facts.
  Variable V : Type.

  (* AddError under "if sb.Validating()" is only ever a validation error, an unconditional AddError
     of a sentinel is only ever a structural one *)
  Theorem compile_errv_ok (e : exp V) : errv_ok V (compile_top e) = true.
  Proof.
    apply Wall_errv_ok. apply compile_top_wall; cbn; try tauto; try reflexivity.
  Qed.

  (* a well-formed value has no panic site *)
  Theorem compile_no_panic (e : exp V) : wfe e = true -> panics V (compile_top e) = false.
  Proof.
    intro H. apply Wall_no_panic. apply compile_top_wall; try discriminate. now right.
  Qed.

  Definition plain_node (x : W V) : Prop :=
    match x with
    | WErr k | WErrV k => ekind_eqb k EkIdent = false /\ ekind_eqb k EkType = false
    | _ => True
    end.

  Lemma Wall_plain_errs w : Wall plain_node w -> plain_errs V w = true.
  Proof.
    induction w as [t|t|t|t|v|n|t|t|k|k|pk|l IH|] using W_ind'; intro K; try reflexivity.
    - inversion K as [|? _ Hq]; subst. cbn in Hq. destruct Hq as [H1 H2]. cbn. now rewrite H1, H2.
    - inversion K as [|? _ Hq]; subst. cbn in Hq. destruct Hq as [H1 H2]. cbn. now rewrite H1, H2.
    - apply Wall_seq_inv in K. rewrite plain_errs_seq. induction IH as [|x r Hx _ IHr]; [reflexivity|].
      inversion K; subst. cbn [forallb]. rewrite Hx by assumption. now apply IHr.
  Qed.

  (* the sentinels for names and types are only ever added by the two validating primitives *)
  Theorem compile_plain_errs (e : exp V) : plain_errs V (compile_top e) = true.
  Proof.
    apply Wall_plain_errs. apply compile_top_wall; cbn; try tauto; try (split; reflexivity).
  Qed.

  Theorem compile_no_panic_sub (e : exp V) : wfe e = true -> panics V (compile e) = false.
  Proof.
    intro H. apply Wall_no_panic. apply compile_wall; try discriminate. now right.
  Qed.
End Facts.
