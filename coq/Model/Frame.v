(* C01 at the level of the writer: what a statement writes is exactly its composed parts - every
   expression, name and alias held in the builder record, each once, in grammatical slot order - with
   nothing but keywords and punctuation between them ([Frame]).  The slot order [stmt_parts] is a
   specification read off PostgreSQL's synopsis, not off the code. *)
From Coq Require Import String List Ascii ZArith Bool.
From QRB Require Import Base.Bytes Model.W Model.WInd Model.Values Model.Compile Model.XExp.
Import ListNotations.
Local Open Scope string_scope.
Local Open Scope list_scope.

Section Frame.
  Variable V : Type.
  Notation exp := (exp V).
  Notation W := (W V).
  Notation compile := (@compile V).
  Notation wflat := (@wflat V).

  Inductive part :=
  | PExp (e : exp)          (* an expression / sub-statement, written by its own WriteSQL *)
  | PInner (q : exp)        (* the query of INSERT ... SELECT: written without the sub-select parentheses *)
  | PName (s : string).     (* a caller-supplied name: alias, column, CTE name, constraint *)

  Definition pleaves (p : part) : list W :=
    match p with
    | PExp e => wflat (compile e)
    | PInner q => wflat (select_inner V q)
    | PName s => [WRaw s]
    end.

  (* keywords, punctuation, white space, error reports: never a composed part *)
  Definition is_sep (w : W) : bool :=
    match w with WKw _ | WPretty _ | WErr _ | WErrV _ | WPanic => true | _ => false end.

  Inductive Frame : list W -> list part -> Prop :=
  | F_nil : Frame [] []
  | F_sep k l ps : is_sep k = true -> Frame l ps -> Frame (k :: l) ps
  | F_part p l ps : Frame l ps -> Frame (pleaves p ++ l) (p :: ps).

  Lemma Frame_app a pa b pb : Frame a pa -> Frame b pb -> Frame (a ++ b) (pa ++ pb).
  Proof.
    induction 1 as [|k l ps Hk _ IH|p l ps _ IH]; intro Hb; cbn [app]; [assumption| |].
    - apply F_sep; [assumption|]. now apply IH.
    - rewrite <- app_assoc. apply F_part. now apply IH.
  Qed.

  Definition FrameW (w : W) (ps : list part) : Prop := Frame (wflat w) ps.

  Lemma fw_eq w ps ps' : FrameW w ps' -> ps' = ps -> FrameW w ps.
  Proof. now intros H <-. Qed.
  Lemma fw_sep w : is_sep w = true -> FrameW w [].
  Proof. intro H. unfold FrameW. destruct w; try discriminate; cbn [XExp.wflat]; apply F_sep; try reflexivity; apply F_nil. Qed.
  Lemma fw_kw s : FrameW (WKw s) []. Proof. now apply fw_sep. Qed.
  Lemma fw_raw s : FrameW (WRaw s) [PName s].
  Proof. unfold FrameW. cbn [XExp.wflat]. apply (F_part (PName s) [] []). apply F_nil. Qed.
  Lemma fw_exp e : FrameW (compile e) [PExp e].
  Proof. unfold FrameW. rewrite <- (app_nil_r (wflat (compile e))). apply (F_part (PExp e) [] []). apply F_nil. Qed.
  Lemma fw_inner q : FrameW (select_inner V q) [PInner q].
  Proof. unfold FrameW. rewrite <- (app_nil_r (wflat (select_inner V q))). apply (F_part (PInner q) [] []). apply F_nil. Qed.

  Lemma wflat_seq (l : list W) : wflat (WSeq l) = flat_map wflat l.
  Proof. cbn [XExp.wflat]. induction l as [|x r IH]; cbn [flat_map]; [reflexivity|now rewrite IH]. Qed.

  Lemma fw_seq_nil : FrameW (WSeq []) []. Proof. apply F_nil. Qed.
  Lemma fw_seq_cons a r pa pr : FrameW a pa -> FrameW (WSeq r) pr -> FrameW (WSeq (a :: r)) (pa ++ pr).
  Proof. unfold FrameW. rewrite !wflat_seq. cbn [flat_map]. apply Frame_app. Qed.
  Lemma fw_seq_app a b pa pb : FrameW (WSeq a) pa -> FrameW (WSeq b) pb -> FrameW (WSeq (a ++ b)) (pa ++ pb).
  Proof. unfold FrameW. rewrite !wflat_seq, flat_map_app. apply Frame_app. Qed.
  Lemma fw_when (b : bool) l ps : FrameW (WSeq l) ps -> FrameW (when V b l) (if b then ps else []).
  Proof. destruct b; cbn [when]; [trivial|intros _; apply fw_seq_nil]. Qed.
  Lemma fw_paren (b : bool) w ps : FrameW w ps -> FrameW (paren_if V b w) ps.
  Proof.
    destruct b; cbn [paren_if]; [|trivial]. intro H.
    apply (fw_eq _ _ ([] ++ ps ++ [] ++ [])); [|now rewrite !app_nil_r].
    apply fw_seq_cons; [apply fw_kw|]. apply fw_seq_cons; [exact H|]. apply fw_seq_cons; [apply fw_kw|apply fw_seq_nil].
  Qed.

  (* a list written with separators: the parts of its elements, concatenated *)
  Lemma fw_sep_by (sep : W) (ws : list W) (pss : list (list part)) :
    FrameW sep [] -> Forall2 FrameW ws pss -> FrameW (WSeq (sep_by sep ws)) (concat pss).
  Proof.
    intros Hs H. induction H as [|w ps ws' pss' Hw Hr IH]; [apply fw_seq_nil|].
    destruct ws' as [|w2 ws2].
    - inversion Hr; subst. cbn [sep_by concat]. apply fw_seq_cons; [exact Hw|apply fw_seq_nil].
    - change (sep_by sep (w :: w2 :: ws2)) with (w :: sep :: sep_by sep (w2 :: ws2)). cbn [concat].
      apply fw_seq_cons; [exact Hw|]. apply (fw_seq_cons sep _ [] _ Hs IH).
  Qed.
  Lemma fw_map {A} (g : A -> W) (pg : A -> list part) (l : list A) :
    (forall x, FrameW (g x) (pg x)) -> Forall2 FrameW (map g l) (map pg l).
  Proof. intro H. induction l as [|x r IH]; cbn [map]; constructor; [apply H|exact IH]. Qed.
  Lemma fw_list {A} (sep : W) (g : A -> W) (pg : A -> list part) (l : list A) :
    FrameW sep [] -> (forall x, FrameW (g x) (pg x)) -> FrameW (WSeq (sep_by sep (map g l))) (flat_map pg l).
  Proof. intros Hs H. rewrite flat_map_concat_map. apply fw_sep_by; [exact Hs|now apply fw_map]. Qed.
  Lemma fw_seq_map {A} (g : A -> W) (pg : A -> list part) (l : list A) :
    (forall x, FrameW (g x) (pg x)) -> FrameW (WSeq (map g l)) (flat_map pg l).
  Proof.
    intro H. induction l as [|x r IH]; cbn [map flat_map]; [apply fw_seq_nil|]. apply fw_seq_cons; [apply H|exact IH].
  Qed.

  Ltac seps := first [apply fw_kw | apply fw_sep; reflexivity].
  Ltac fw :=
    repeat first
      [ apply fw_seq_nil | seps | apply fw_raw | apply fw_exp | apply fw_inner
      | eapply fw_seq_cons | eapply fw_when | eapply fw_paren ].
  Ltac leq :=
    repeat match goal with |- context [if ?b then _ else _] => destruct b end;
    cbn [app]; rewrite ?app_nil_r, <- ?app_assoc; reflexivity.

  (* ------------------------------------------------------------------ the slot order (specification) *)
  Definition names (l : list string) : list part := map PName l.
  Definition exps (l : list exp) : list part := map PExp l.
  Definition opt_name (s : string) : list part := if nonempty s then [PName s] else [].
  Definition opt_exp (e : exp) : list part := if is_nil e then [] else [PExp e].

  Definition parts_obc (o : obc exp) : list part := [PExp (ob_exp o)].
  Definition parts_fromitem (i : fromitem exp) : list part :=
    PExp (fi_from i) :: opt_name (fi_alias i) ++ names (fi_colaliases i).
  Definition parts_grouping (g : grouping exp) : list part :=
    if nonempty (ge_type g) then flat_map exps (ge_sets g)
    else match ge_sets g with s :: _ => exps s | [] => [] end.
  Definition parts_outlist (l : list (exp * string)) : list part :=
    flat_map (fun x => PExp (fst x) :: opt_name (snd x)) l.
  Definition parts_core (p : parts exp) : list part :=
    (if p_distinct p then exps (p_distinctOn p) else []) ++
    (match p_json p with Some j => PExp j :: opt_name (p_jsonAlias p) | None => [] end) ++
    parts_outlist (p_list p) ++
    flat_map parts_fromitem (p_from p) ++
    exps (p_where p) ++
    flat_map parts_grouping (p_groupBys p) ++
    exps (p_having p).
  Definition parts_tail (p : parts exp) : list part :=
    flat_map parts_obc (p_orderBys p) ++ opt_exp (p_limit p) ++ opt_exp (p_offset p) ++
    (if nonempty (lk_strength (p_lock p)) then names (lk_of (p_lock p)) else []).
  Definition parts_withq (q : withq exp) : list part :=
    PName (wq_name q) :: names (wq_cols q) ++ [PExp (wq_query q)] ++
    match wq_search q with Some s => exps (ws_by s) ++ [PName (ws_set s)] | None => [] end.
  Definition parts_withs (l : list (withq exp)) : list part := flat_map parts_withq l.
  Definition parts_setitems (l : list (string * exp)) : list part :=
    flat_map (fun x => [PName (fst x); PExp (snd x)]) l.

  (* SELECT: CTEs, then every branch of the set-operation chain (core clauses only: PostgreSQL has no slot for
     ORDER BY / LIMIT on an unparenthesised branch), then the last branch with the tail clauses *)
  Definition parts_select (w : list (withq exp)) (c : list (comb exp)) (p : parts exp) : list part :=
    parts_withs w ++ flat_map (fun b => parts_core (cb_parts b)) c ++ parts_core p ++ parts_tail p.

  Definition parts_insert (b : insb exp) : list part :=
    parts_withs (i_with b) ++ [PExp (i_table b)] ++ opt_name (i_alias b) ++
    (match i_cols b with Some cols => names cols | None => [] end) ++
    (if is_nil (i_query b)
     then match i_values b with Some rows => flat_map exps rows | None => [] end
     else [PInner (i_query b)]) ++
    (if nonempty (i_caction b)
     then opt_name (i_cconstraint b) ++ exps (i_ctargets b) ++ exps (i_ctwhere b) ++
          (if String.eqb (i_caction b) "DO UPDATE" then parts_setitems (i_cset b) ++ exps (i_cwhere b) else [])
     else []) ++
    parts_outlist (i_returning b).
  Definition parts_update (b : updb exp) : list part :=
    parts_withs (u_with b) ++ [PExp (u_table b)] ++ opt_name (u_alias b) ++ parts_setitems (u_set b) ++
    flat_map parts_fromitem (u_from b) ++ exps (u_where b) ++ parts_outlist (u_returning b).
  Definition parts_delete (b : delb exp) : list part :=
    parts_withs (d_with b) ++ [PExp (d_table b)] ++ opt_name (d_alias b) ++
    flat_map parts_fromitem (d_using b) ++ exps (d_where b) ++ parts_outlist (d_returning b).

  Definition stmt_parts (e : exp) : list part :=
    match e with
    | ESelect w c p => parts_select w c p
    | EInsert b => parts_insert b
    | EUpdate b => parts_update b
    | EDelete b => parts_delete b
    | _ => [PExp e]
    end.

  (* ------------------------------------------------------------------ each clause writer meets its slot list *)
  Lemma map_flat {A} (f : A -> part) (l : list A) : map f l = flat_map (fun x => [f x]) l.
  Proof. induction l as [|x r IH]; cbn; congruence. Qed.

  Lemma fw_raws sep l : FrameW (raws V sep l) (names l).
  Proof. unfold raws, names. rewrite map_flat. apply fw_list; [apply fw_kw|intro; apply fw_raw]. Qed.

  Lemma fw_junction l op : FrameW (c_junction V compile l op) (exps l).
  Proof.
    unfold c_junction, exps. destruct l as [|x [|y r]].
    - apply fw_seq_nil.
    - apply fw_exp.
    - rewrite map_flat. apply fw_list.
      + apply (fw_eq _ _ ([] ++ [] ++ [] ++ [])); [fw|reflexivity].
      + intro e. apply fw_paren, fw_exp.
  Qed.

  Lemma fw_obc o : FrameW (c_obc V compile o) (parts_obc o).
  Proof. unfold c_obc, parts_obc. eapply fw_eq; [fw|]. leq. Qed.

  Lemma fw_fromitem i : FrameW (c_fromitem V compile i) (parts_fromitem i).
  Proof.
    unfold c_fromitem, parts_fromitem, opt_name.
    eapply fw_eq.
    - eapply fw_seq_cons; [eapply fw_when; fw|]. eapply fw_seq_cons; [eapply fw_when; fw|].
      eapply fw_seq_cons; [eapply fw_when; fw|]. eapply fw_seq_cons; [apply fw_exp|].
      eapply fw_seq_cons; [eapply fw_when; fw|].
      eapply fw_seq_cons; [|apply fw_seq_nil].
      eapply fw_when. eapply fw_seq_cons; [eapply fw_when; fw|]. eapply fw_seq_cons; [apply fw_kw|].
      eapply fw_seq_cons; [apply fw_raws|]. fw.
    - destruct (fi_lateral i && fi_only i), (fi_only i), (fi_lateral i), (nonempty (fi_alias i));
        cbn [app]; rewrite ?app_nil_r; destruct (fi_colaliases i); cbn; reflexivity.
  Qed.

  Lemma fw_set l : FrameW (c_set V compile l) (exps l).
  Proof.
    unfold c_set, exps. destruct l as [|x [|y r]].
    - eapply fw_eq; [fw|reflexivity].
    - apply fw_exp.
    - rewrite map_flat.
      apply (fw_eq _ _ ([] ++ flat_map (fun e => [PExp e]) (x :: y :: r) ++ [] ++ [])); [|now rewrite !app_nil_r].
      apply fw_seq_cons; [apply fw_kw|]. apply fw_seq_cons; [|fw].
      apply fw_list; [apply fw_kw|intro; apply fw_exp].
  Qed.

  Lemma fw_grouping g : FrameW (c_grouping V compile g) (parts_grouping g).
  Proof.
    unfold c_grouping, parts_grouping. destruct (nonempty (ge_type g)); cbn [negb].
    - eapply fw_eq.
      + eapply fw_seq_cons; [apply fw_kw|]. eapply fw_seq_cons; [destruct (ge_sets g) as [|? [|? ?]]; apply fw_kw|].
        eapply fw_seq_cons; [apply (fw_list (kw V ",") (c_set V compile) exps); [apply fw_kw|apply fw_set]|]. fw.
      + destruct (ge_sets g) as [|? [|? ?]]; cbn [app]; now rewrite ?app_nil_r.
    - destruct (ge_sets g) as [|s r]; [apply fw_sep; reflexivity|apply fw_set].
  Qed.

  Lemma fw_outlist l : FrameW (c_outlist V compile l) (parts_outlist l).
  Proof.
    unfold c_outlist, parts_outlist. apply fw_list; [apply fw_kw|]. intro x. unfold opt_name.
    eapply fw_eq; [fw|]. leq.
  Qed.

  Lemma fw_from_list l : FrameW (WSeq (c_from_list V compile l)) (flat_map parts_fromitem l).
  Proof.
    unfold c_from_list. destruct l as [|x r]; [apply fw_seq_nil|]. cbn [flat_map].
    apply fw_seq_cons; [apply fw_fromitem|]. apply fw_seq_map. intro i.
    apply (fw_eq _ _ ([] ++ parts_fromitem i ++ [])); [|now rewrite app_nil_r].
    apply fw_seq_cons; [destruct (is_join (fi_from i)); apply fw_kw|]. apply fw_seq_cons; [apply fw_fromitem|apply fw_seq_nil].
  Qed.

  Lemma fw_core p : FrameW (c_parts V compile p) (parts_core p).
  Proof.
    unfold c_parts, parts_core.
    eapply fw_eq.
    - eapply fw_seq_cons; [apply fw_kw|].
      eapply fw_seq_cons.
      { eapply fw_when. eapply fw_seq_cons; [apply fw_kw|]. eapply fw_seq_cons; [|apply fw_seq_nil].
        eapply fw_when. eapply fw_seq_cons; [apply fw_kw|].
        eapply fw_seq_cons; [apply (fw_list (kw V ",") compile (fun e => [PExp e])); [apply fw_kw|apply fw_exp]|]. fw. }
      eapply fw_seq_cons.
      { instantiate (1 := match p_json p with Some j => PExp j :: opt_name (p_jsonAlias p) | None => [] end).
        destruct (p_json p) as [j|]; [|apply fw_seq_nil]. unfold opt_name.
        eapply fw_eq; [fw|]. leq. }
      eapply fw_seq_cons; [apply fw_outlist|].
      eapply fw_seq_cons; [eapply fw_when; eapply fw_seq_cons; [apply fw_kw|]; eapply fw_seq_cons; [apply fw_from_list|apply fw_seq_nil]|].
      eapply fw_seq_cons; [eapply fw_when; eapply fw_seq_cons; [apply fw_kw|]; eapply fw_seq_cons; [apply fw_junction|apply fw_seq_nil]|].
      eapply fw_seq_cons.
      { eapply fw_when. eapply fw_seq_cons; [apply fw_kw|]. eapply fw_seq_cons; [eapply fw_when; fw|].
        eapply fw_seq_cons; [apply (fw_list (kw V ",") (c_grouping V compile) parts_grouping); [apply fw_kw|apply fw_grouping]|apply fw_seq_nil]. }
      eapply fw_seq_cons; [eapply fw_when; eapply fw_seq_cons; [apply fw_kw|]; eapply fw_seq_cons; [apply fw_junction|apply fw_seq_nil]|].
      apply fw_seq_nil.
    - unfold exps.
      rewrite <- (map_flat PExp (p_distinctOn p)).
      destruct (p_distinct p), (p_distinctOn p), (p_from p), (p_where p), (p_groupBys p), (p_having p), (p_gbDistinct p);
        cbn [nonnil app map flat_map]; rewrite ?app_nil_r, <- ?app_assoc; cbn [app]; reflexivity.
  Qed.

  Lemma fw_lock l : FrameW (c_lock V l) (names (lk_of l)).
  Proof.
    unfold c_lock. eapply fw_eq.
    - eapply fw_seq_cons; [apply fw_kw|]. eapply fw_seq_cons; [apply fw_kw|].
      eapply fw_seq_cons; [eapply fw_when; eapply fw_seq_cons; [apply fw_kw|]; eapply fw_seq_cons; [apply fw_raws|apply fw_seq_nil]|].
      eapply fw_seq_cons; [eapply fw_when; fw|apply fw_seq_nil].
    - destruct (lk_of l), (nonempty (lk_wait l)); cbn [nonnil app names map]; rewrite ?app_nil_r; reflexivity.
  Qed.

  Lemma fw_tail p :
    FrameW (WSeq [when V (nonnil (p_orderBys p))
                    [kw V " ORDER BY "; WSeq (sep_by (kw V ",") (map (c_obc V compile) (p_orderBys p)))];
                  when V (negb (is_nil (p_limit p))) [kw V " LIMIT "; compile (p_limit p)];
                  when V (negb (is_nil (p_offset p))) [kw V " OFFSET "; compile (p_offset p)];
                  when V (nonempty (lk_strength (p_lock p))) [kw V " "; c_lock V (p_lock p)]])
           (parts_tail p).
  Proof.
    unfold parts_tail, opt_exp. eapply fw_eq.
    - eapply fw_seq_cons; [eapply fw_when; eapply fw_seq_cons; [apply fw_kw|];
                           eapply fw_seq_cons; [apply (fw_list (kw V ",") (c_obc V compile) parts_obc); [apply fw_kw|apply fw_obc]|apply fw_seq_nil]|].
      eapply fw_seq_cons; [eapply fw_when; fw|]. eapply fw_seq_cons; [eapply fw_when; fw|].
      eapply fw_seq_cons; [eapply fw_when; eapply fw_seq_cons; [apply fw_kw|]; eapply fw_seq_cons; [apply fw_lock|apply fw_seq_nil]|apply fw_seq_nil].
    - destruct (p_orderBys p), (is_nil (p_limit p)), (is_nil (p_offset p)), (nonempty (lk_strength (p_lock p)));
        cbn [nonnil negb app flat_map]; rewrite ?app_nil_r, <- ?app_assoc; reflexivity.
  Qed.

  Lemma fw_withq q : FrameW (c_withq V compile q) (parts_withq q).
  Proof.
    unfold c_withq, parts_withq. eapply fw_eq.
    - eapply fw_seq_cons; [apply fw_raw|].
      eapply fw_seq_cons; [eapply fw_when; eapply fw_seq_cons; [apply fw_kw|]; eapply fw_seq_cons; [apply fw_raws|fw]|].
      eapply fw_seq_cons; [apply fw_kw|].
      eapply fw_seq_cons; [instantiate (1 := []); destruct (wq_mat q) as [[|]|]; (eapply fw_eq; [fw|reflexivity])|].
      eapply fw_seq_cons; [apply fw_exp|].
      eapply fw_seq_cons; [|apply fw_seq_nil].
      instantiate (1 := match wq_search q with Some s => exps (ws_by s) ++ [PName (ws_set s)] | None => [] end).
      destruct (wq_search q) as [s|]; [|apply fw_seq_nil].
      unfold c_wsearch, exps. rewrite map_flat. eapply fw_eq.
      + eapply fw_seq_cons; [apply fw_kw|]. eapply fw_seq_cons; [apply fw_kw|]. eapply fw_seq_cons; [apply fw_kw|].
        eapply fw_seq_cons; [apply (fw_list (kw V ",") compile (fun e => [PExp e])); [apply fw_kw|apply fw_exp]|]. fw.
      + cbn [app]. now rewrite ?app_nil_r.
    - destruct (wq_cols q); cbn [nonnil app names map]; rewrite ?app_nil_r; reflexivity.
  Qed.

  Lemma fw_withs l : FrameW (c_withs V compile l) (parts_withs l).
  Proof.
    unfold c_withs, parts_withs. destruct l as [|q r]; [apply fw_seq_nil|]. cbn [nonnil when].
    apply (fw_eq _ _ ([] ++ (if existsb (@wq_rec exp) (q :: r) then [] else []) ++ flat_map parts_withq (q :: r) ++ [] ++ []));
      [|destruct (existsb _ _); cbn [app]; now rewrite !app_nil_r].
    apply fw_seq_cons; [apply fw_kw|]. apply fw_seq_cons; [apply fw_when; fw|].
    apply fw_seq_cons; [apply fw_list; [apply fw_kw|apply fw_withq]|fw].
  Qed.

  Lemma fw_comb c : FrameW (c_comb V compile c) (parts_core (cb_parts c)).
  Proof.
    unfold c_comb. eapply fw_eq; [eapply fw_seq_cons; [apply fw_core|fw]|]. leq.
  Qed.

  Lemma fw_select_inner w c p : FrameW (c_select_inner V compile w c p) (parts_select w c p).
  Proof.
    unfold c_select_inner, parts_select.
    apply (fw_seq_cons _ _ _ _ (fw_withs w)).
    apply fw_seq_cons; [apply fw_seq_map; apply fw_comb|].
    apply fw_seq_cons; [apply fw_core|]. apply fw_tail.
  Qed.

  Lemma fw_returning l : FrameW (c_returning V compile l) (parts_outlist l).
  Proof.
    unfold c_returning. destruct l as [|x r]; [apply fw_seq_nil|]. cbn [nonnil when].
    apply (fw_eq _ _ ([] ++ parts_outlist (x :: r) ++ [])); [|now rewrite app_nil_r].
    apply fw_seq_cons; [apply fw_kw|]. apply fw_seq_cons; [apply fw_outlist|apply fw_seq_nil].
  Qed.

  Lemma fw_setitems l : FrameW (c_setitems V compile l) (parts_setitems l).
  Proof.
    unfold c_setitems, parts_setitems. apply fw_list; [apply fw_kw|]. intro x. eapply fw_eq; [fw|]. reflexivity.
  Qed.

  Lemma fw_update b : FrameW (c_update_inner V compile b) (parts_update b).
  Proof.
    unfold c_update_inner, parts_update, opt_name. eapply fw_eq.
    - eapply fw_seq_cons; [apply fw_withs|]. eapply fw_seq_cons; [apply fw_kw|]. eapply fw_seq_cons; [apply fw_exp|].
      eapply fw_seq_cons; [eapply fw_when; fw|]. eapply fw_seq_cons; [apply fw_kw|]. eapply fw_seq_cons; [apply fw_setitems|].
      eapply fw_seq_cons; [eapply fw_when; eapply fw_seq_cons; [apply fw_kw|];
                           eapply fw_seq_cons; [apply (fw_list (kw V ",") (c_fromitem V compile) parts_fromitem); [apply fw_kw|apply fw_fromitem]|apply fw_seq_nil]|].
      eapply fw_seq_cons; [eapply fw_when; eapply fw_seq_cons; [apply fw_kw|]; eapply fw_seq_cons; [apply fw_junction|apply fw_seq_nil]|].
      eapply fw_seq_cons; [apply fw_returning|apply fw_seq_nil].
    - destruct (nonempty (u_alias b)), (u_from b), (u_where b); cbn [nonnil app flat_map exps map]; rewrite ?app_nil_r, <- ?app_assoc; reflexivity.
  Qed.

  Lemma fw_delete b : FrameW (c_delete V compile b) (parts_delete b).
  Proof.
    unfold c_delete, parts_delete, opt_name. eapply fw_eq.
    - eapply fw_seq_cons; [apply fw_withs|]. eapply fw_seq_cons; [apply fw_kw|]. eapply fw_seq_cons; [apply fw_exp|].
      eapply fw_seq_cons; [eapply fw_when; fw|].
      eapply fw_seq_cons; [eapply fw_when; eapply fw_seq_cons; [apply fw_kw|];
                           eapply fw_seq_cons; [apply (fw_list (kw V ",") (c_fromitem V compile) parts_fromitem); [apply fw_kw|apply fw_fromitem]|apply fw_seq_nil]|].
      eapply fw_seq_cons; [eapply fw_when; eapply fw_seq_cons; [apply fw_kw|]; eapply fw_seq_cons; [apply fw_junction|apply fw_seq_nil]|].
      eapply fw_seq_cons; [apply fw_returning|apply fw_seq_nil].
    - destruct (nonempty (d_alias b)), (d_using b), (d_where b); cbn [nonnil app flat_map exps map]; rewrite ?app_nil_r, <- ?app_assoc; reflexivity.
  Qed.

  Lemma fw_insert b : FrameW (c_insert_inner V compile (select_inner V) b) (parts_insert b).
  Proof.
    unfold c_insert_inner, parts_insert, opt_name.
    set (head := [c_withs V compile (i_with b); kw V "INSERT INTO "; compile (i_table b);
                  when V (nonempty (i_alias b)) [kw V " AS "; WRaw (i_alias b)];
                  match i_cols b with
                  | Some cols => WSeq [kw V " ("; WSeq (sep_by (WSeq [kw V ","; WPretty PwComma]) (map (@WRaw V) cols)); kw V ")"]
                  | None => WSeq []
                  end]).
    assert (Hhead : FrameW (WSeq head)
                      (parts_withs (i_with b) ++ [PExp (i_table b)] ++ (if nonempty (i_alias b) then [PName (i_alias b)] else []) ++
                       match i_cols b with Some cols => names cols | None => [] end)).
    { unfold head. eapply fw_eq.
      - eapply fw_seq_cons; [apply fw_withs|]. eapply fw_seq_cons; [apply fw_kw|]. eapply fw_seq_cons; [apply fw_exp|].
        eapply fw_seq_cons; [eapply fw_when; fw|]. eapply fw_seq_cons; [|apply fw_seq_nil].
        instantiate (1 := match i_cols b with Some cols => names cols | None => [] end).
        destruct (i_cols b) as [cols|]; [|apply fw_seq_nil].
        apply (fw_eq _ _ ([] ++ names cols ++ [] ++ [])); [|now rewrite !app_nil_r].
        apply fw_seq_cons; [apply fw_kw|]. apply fw_seq_cons; [|fw]. unfold names. rewrite map_flat.
        apply fw_list; [|intro; apply fw_raw]. apply (fw_eq _ _ ([] ++ [] ++ [])); [fw|reflexivity].
      - destruct (nonempty (i_alias b)); cbn [app]; rewrite ?app_nil_r, <- ?app_assoc; reflexivity. }
    assert (Hbody : FrameW (if negb (is_nil (i_query b)) then WSeq [kw V " "; select_inner V (i_query b)]
                            else match i_values b with
                                 | Some rows =>
                                     WSeq [WPretty PwBreak; kw V "VALUES ";
                                           WSeq (sep_by (WSeq [kw V ","; WPretty PwRow])
                                                   (map (fun row => WSeq [kw V "(";
                                                                          WSeq (sep_by (WSeq [kw V ","; WPretty PwComma]) (map compile row));
                                                                          kw V ")"]) rows))]
                                 | None => when V (i_default b) [kw V " DEFAULT VALUES"]
                                 end)
                      (if is_nil (i_query b)
                       then match i_values b with Some rows => flat_map exps rows | None => [] end
                       else [PInner (i_query b)])).
    { destruct (is_nil (i_query b)); cbn [negb].
      - destruct (i_values b) as [rows|].
        + apply (fw_eq _ _ ([] ++ [] ++ flat_map exps rows ++ [])); [|now rewrite app_nil_r].
          apply fw_seq_cons; [apply fw_sep; reflexivity|]. apply fw_seq_cons; [apply fw_kw|].
          apply fw_seq_cons; [|apply fw_seq_nil]. apply fw_list.
          * apply (fw_eq _ _ ([] ++ [] ++ [])); [|reflexivity]. apply fw_seq_cons; [apply fw_kw|]. apply fw_seq_cons; [apply fw_sep; reflexivity|apply fw_seq_nil].
          * intro row. apply (fw_eq _ _ ([] ++ exps row ++ [] ++ [])); [|now rewrite !app_nil_r].
            apply fw_seq_cons; [apply fw_kw|]. apply fw_seq_cons; [|fw]. unfold exps. rewrite map_flat.
            apply fw_list; [|intro; apply fw_exp].
            apply (fw_eq _ _ ([] ++ [] ++ [])); [|reflexivity]. apply fw_seq_cons; [apply fw_kw|]. apply fw_seq_cons; [apply fw_sep; reflexivity|apply fw_seq_nil].
        + apply (fw_eq _ _ (if i_default b then [] ++ [] else [])); [apply fw_when; fw|now destruct (i_default b)].
      - apply (fw_eq _ _ ([] ++ [PInner (i_query b)] ++ [])); [|reflexivity].
        apply fw_seq_cons; [apply fw_kw|]. apply fw_seq_cons; [apply fw_inner|apply fw_seq_nil]. }
    set (body := if negb (is_nil (i_query b)) then _ else _) in *.
    set (conflict := when V (opt_nonnil (i_values b) && negb (is_nil (i_query b))) [WErr EkValuesQuery]).
    assert (Hconf : FrameW conflict []).
    { unfold conflict. apply (fw_eq _ _ (if opt_nonnil (i_values b) && negb (is_nil (i_query b)) then [] ++ [] else [])).
      - apply fw_when. fw.
      - now destruct (_ && _). }
    destruct (nonempty (i_caction b)); cbn [negb].
    - (* ON CONFLICT ... *)
      rewrite <- !app_assoc.
      eapply fw_eq.
      + apply fw_seq_app; [exact Hhead|].
        eapply fw_seq_cons; [exact Hconf|]. eapply fw_seq_cons; [exact Hbody|].
        eapply fw_seq_cons; [apply fw_sep; reflexivity|]. eapply fw_seq_cons; [apply fw_kw|].
        eapply fw_seq_cons; [eapply fw_when; fw|].
        eapply fw_seq_cons; [eapply fw_when; fw|].
        eapply fw_seq_cons; [eapply fw_when; eapply fw_seq_cons; [apply fw_kw|];
                             eapply fw_seq_cons; [apply (fw_list (kw V ",") compile (fun e => [PExp e])); [apply fw_kw|apply fw_exp]|fw]|].
        eapply fw_seq_cons; [eapply fw_when; eapply fw_seq_cons; [apply fw_kw|]; eapply fw_seq_cons; [apply fw_junction|apply fw_seq_nil]|].
        eapply fw_seq_cons; [apply fw_kw|]. eapply fw_seq_cons; [apply fw_kw|].
        eapply fw_seq_cons.
        { eapply fw_when.
          eapply fw_seq_cons; [eapply fw_when; eapply fw_seq_cons; [apply fw_sep; reflexivity|]; eapply fw_seq_cons; [apply fw_kw|];
                               eapply fw_seq_cons; [apply fw_setitems|apply fw_seq_nil]|].
          eapply fw_seq_cons; [eapply fw_when; eapply fw_seq_cons; [apply fw_sep; reflexivity|]; eapply fw_seq_cons; [apply fw_kw|];
                               eapply fw_seq_cons; [apply fw_junction|apply fw_seq_nil]|apply fw_seq_nil]. }
        eapply fw_seq_cons; [apply fw_returning|apply fw_seq_nil].
      + rewrite <- (map_flat PExp (i_ctargets b)). fold (exps (i_ctargets b)).
        destruct (nonempty (i_alias b)), (nonempty (i_cconstraint b) && nonnil (i_ctargets b)), (nonempty (i_cconstraint b)),
          (i_ctargets b), (i_ctwhere b), (String.eqb (i_caction b) "DO UPDATE"), (i_cset b), (i_cwhere b);
          cbn [nonnil app exps map flat_map parts_setitems]; rewrite ?app_nil_r, <- ?app_assoc; cbn [app]; reflexivity.
    - eapply fw_eq.
      + apply fw_seq_app; [exact Hhead|].
        eapply fw_seq_cons; [exact Hconf|]. eapply fw_seq_cons; [exact Hbody|].
        eapply fw_seq_cons; [apply fw_returning|apply fw_seq_nil].
      + destruct (nonempty (i_alias b)); cbn [app]; rewrite ?app_nil_r, <- ?app_assoc; cbn [app]; reflexivity.
  Qed.

  (* ------------------------------------------------------------------ the statement theorem *)
  Theorem statement_frame (e : exp) : Frame (wflat (compile_top e)) (stmt_parts e).
  Proof.
    destruct e; try (apply fw_exp).
    - apply fw_select_inner.
    - apply fw_insert.
    - apply fw_update.
    - apply fw_delete.
  Qed.
End Frame.
