(* C02, the tolerated case: a chain of one and the same associative operator (plus or times), bracketed in
   any way by the caller, is written as the flat chain, which PostgreSQL reads left-nested: the operands are
   kept, in order; only the bracketing inside the chain changes. *)
From Coq Require Import String List Ascii ZArith Bool Arith Lia.
From QRB Require Import Base.Bytes Model.W Model.Values Model.Compile Pg.Lexer Pg.Expr Model.XExp Model.XExpFacts.
Import ListNotations.
Local Open Scope string_scope.
Local Open Scope list_scope.

Section Chain.
  Variable V : Type.
  Notation xe := (xe V).
  Notation Derives := (@Derives (xatom V) string).
  Variable op : string.
  Variable ko : nat.
  Hypothesis Hlevel : binop_level op = (ko, ALeft).
  Hypothesis Hupper : upper op = op.

  (* the operands of a chain, left to right, each with the side on which it hangs (true = right operand) *)
  Inductive ops : xe -> bool -> list (xe * bool) -> Prop :=
  | o_leaf e side : (forall l r, e <> XOp l op r) -> ops e side [(e, side)]
  | o_node l r side ls rs : ops l false ls -> ops r true rs -> ops (XOp l op r) side (ls ++ rs).

  Definition paren_of (x : xe * bool) : bool :=
    if snd x then rparen V (op_prec op) op (fst x) else lparen V (op_prec op) (fst x).
  Definition strict (x : xe * bool) : Prop := exists k, chk (fst x) = Some k /\ ko < lvl (paren_of x) k.
  Definition weak (x : xe * bool) : Prop := exists k, chk (fst x) = Some k /\ ko <= lvl (paren_of x) k.

  Definition ptoks (x : xe * bool) := par V (paren_of x) (xtoks (fst x)).

  (* a same-operator child is never parenthesised *)
  Lemma same_op_no_paren l r side : paren_of (XOp l op r, side) = false.
  Proof.
    unfold paren_of, lparen, rparen. cbn [fst snd xprec xopname]. destruct side.
    - rewrite Z.ltb_irrefl, String.eqb_refl. reflexivity.
    - apply Z.ltb_irrefl.
  Qed.

  (* tokens of a sub-tree as it appears under an operator node *)
  Fixpoint flat_toks (es : list (xe * bool)) : list (xtok (xatom V) string) :=
    match es with
    | [] => []
    | [x] => ptoks x
    | x :: r => ptoks x ++ XInf true op :: flat_toks r
    end.
  Lemma flat_toks_app a b : a <> [] -> b <> [] -> flat_toks (a ++ b) = flat_toks a ++ XInf true op :: flat_toks b.
  Proof.
    intros Ha Hb. induction a as [|x a IH]; [congruence|]. destruct a as [|y a].
    - cbn [app flat_toks]. destruct b; [congruence|reflexivity].
    - change (flat_toks ((x :: y :: a) ++ b)) with (ptoks x ++ XInf true op :: flat_toks ((y :: a) ++ b)).
      rewrite IH by discriminate.
      change (flat_toks (x :: y :: a)) with (ptoks x ++ XInf true op :: flat_toks (y :: a)).
      now rewrite <- app_assoc.
  Qed.

  Lemma ops_nonempty e side es : ops e side es -> es <> [].
  Proof. induction 1 as [|l r side ls rs _ IHl _ IHr]; [discriminate|]. destruct ls; [congruence|discriminate]. Qed.

  (* what is written for a sub-tree in child position = the flat chain of its operands *)
  Lemma ops_toks e side es : ops e side es -> par V (paren_of (e, side)) (xtoks e) = flat_toks es.
  Proof.
    induction 1 as [e side Hne|l r side ls rs Hl IHl Hr IHr]; [reflexivity|].
    rewrite same_op_no_paren. cbn [par xtoks].
    rewrite flat_toks_app by (eapply ops_nonempty; eassumption).
    unfold paren_of in IHl, IHr. cbn [fst snd] in IHl, IHr. now rewrite IHl, IHr.
  Qed.

  Definition folded (acc : pexpr (xatom V) string) (es : list (xe * bool)) :=
    fold_left (fun a x => PBin op a (abstract (fst x))) es acc.

  (* appending strictly higher operands to something already derived *)
  Lemma extend acc tacc kacc es :
    Derives acc tacc kacc -> ko <= kacc -> Forall strict es -> es <> [] ->
    Derives (folded acc es) (tacc ++ XInf true op :: flat_toks es) ko.
  Proof.
    intros Hacc Hle Hs Hne. revert acc tacc kacc Hacc Hle.
    induction Hs as [|x r Hx Hr IH]; [congruence|]. intros acc tacc kacc Hacc Hle.
    destruct Hx as (k & Ck & Lk).
    assert (D : Derives (PBin op acc (abstract (fst x))) (tacc ++ XInf true op :: ptoks x) ko).
    { rewrite <- Hupper at 1. eapply DBinLeft; [exact Hlevel|exact Hacc| |exact Hle|exact Lk].
      apply Derives_par. now apply chk_sound. }
    destruct r as [|y r].
    - exact D.
    - cbn [folded fold_left flat_toks]. fold (folded (PBin op acc (abstract (fst x))) (y :: r)).
      specialize (IH ltac:(discriminate) _ _ _ D (Nat.le_refl _)).
      rewrite <- app_assoc in IH. exact IH.
  Qed.

  Theorem chain_parses l r es :
    ops (XOp l op r) false es ->
    match es with
    | first :: rest =>
        weak first -> Forall strict rest ->
        Derives (folded (abstract (fst first)) rest) (xtoks (XOp l op r)) ko
    | [] => True
    end.
  Proof.
    intro H. pose proof (ops_toks _ _ _ H) as T. rewrite same_op_no_paren in T. cbn [par] in T. rewrite T.
    pose proof (ops_nonempty _ _ _ H) as Hne.
    destruct es as [|first rest]; [congruence|]. intros (k & Ck & Lk) Hs.
    destruct rest as [|y rest].
    - (* a chain has at least two operands *)
      exfalso. inversion H as [? ? Hleaf|? ? ? ls rs Hl Hr E]; subst.
      + now apply (Hleaf l r).
      + apply ops_nonempty in Hl, Hr. destruct ls as [|a [|b ls]]; try congruence; destruct rs; try congruence; discriminate.
    - cbn [flat_toks]. apply (extend _ _ (lvl (paren_of first) k)); [|exact Lk|exact Hs|discriminate].
      apply Derives_par. now apply chk_sound.
  Qed.

  (* the composed tree and the tree that is read back are two bracketings of the same operand sequence *)
  Inductive brack : pexpr (xatom V) string -> list (pexpr (xatom V) string) -> Prop :=
  | b_leaf p : brack p [p]
  | b_node a b la lb : brack a la -> brack b lb -> brack (PBin op a b) (la ++ lb).

  Lemma ops_brack e side es : ops e side es -> brack (abstract e) (map (fun x => abstract (fst x)) es).
  Proof.
    induction 1 as [e side _|l r side ls rs _ IHl _ IHr]; [apply b_leaf|].
    cbn [abstract]. rewrite Hupper, map_app. now apply b_node.
  Qed.

  Lemma folded_brack acc la rest :
    brack acc la -> brack (folded acc rest) (la ++ map (fun x => abstract (fst x)) rest).
  Proof.
    revert acc la. induction rest as [|x rest IH]; intros acc la H; cbn [folded fold_left map].
    - now rewrite app_nil_r.
    - change (la ++ abstract (fst x) :: map (fun x0 => abstract (fst x0)) rest)
        with (la ++ [abstract (fst x)] ++ map (fun x0 => abstract (fst x0)) rest).
      rewrite app_assoc. apply IH. apply b_node; [exact H|apply b_leaf].
  Qed.

  Theorem chain_reassociates l r es :
    ops (XOp l op r) false es ->
    match es with
    | first :: rest =>
        weak first -> Forall strict rest ->
        exists p, Derives p (xtoks (XOp l op r)) ko /\
                  brack p (map (fun x => abstract (fst x)) es) /\
                  brack (abstract (XOp l op r)) (map (fun x => abstract (fst x)) es)
    | [] => True
    end.
  Proof.
    intro H. pose proof (chain_parses l r es H) as P. pose proof (ops_brack _ _ _ H) as B.
    destruct es as [|first rest]; [exact I|]. intros Hw Hs.
    exists (folded (abstract (fst first)) rest). split; [now apply P|]. split; [|exact B].
    apply (folded_brack _ [abstract (fst first)]). apply b_leaf.
  Qed.
End Chain.
