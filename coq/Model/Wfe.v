(* Well-formedness of values ("no nil interface where the renderer calls a method, a plain grouping
   element has a set"), and: every node of compile e satisfies Q, for all e if Q tolerates panic
   sites, for well-formed e otherwise.  Used for C20 (no panic), C14 (error kinds), C15. *)
From Coq Require Import String List Ascii ZArith Bool Lia.
From QRB Require Import Base.Bytes Model.W Model.WInd Model.WModes Model.Values Model.Compile Model.ExpInd Model.Wall.
Import ListNotations.
Local Open Scope string_scope.
Local Open Scope list_scope.

Section WfeDef.
  Variable V : Type.
  Notation exp := (exp V).

  Definition optb {A} (f : A -> bool) (o : option A) : bool := match o with Some x => f x | None => true end.
  Definition nil_or (f : exp -> bool) (e : exp) : bool := is_nil e || f e.
  Definition obc_b (f : exp -> bool) (o : obc exp) : bool := f (ob_exp o).
  Definition fromitem_b (f : exp -> bool) (i : fromitem exp) : bool := f (fi_from i).
  Definition grouping_b (f : exp -> bool) (g : grouping exp) : bool :=
    (nonempty (ge_type g) || nonnil (ge_sets g)) && forallb (forallb f) (ge_sets g).
  Definition out_b (f : exp -> bool) (l : list (exp * string)) : bool := forallb (fun x => f (fst x)) l.
  Definition set_b (f : exp -> bool) (l : list (string * exp)) : bool := forallb (fun x => f (snd x)) l.
  Definition parts_b (f : exp -> bool) (p : parts exp) : bool :=
    forallb f (p_distinctOn p) && optb f (p_json p) && out_b f (p_list p) &&
    forallb (fromitem_b f) (p_from p) && forallb f (p_where p) && forallb (grouping_b f) (p_groupBys p) &&
    forallb f (p_having p) && forallb (obc_b f) (p_orderBys p) && nil_or f (p_limit p) && nil_or f (p_offset p).
  Definition comb_b (f : exp -> bool) (c : comb exp) : bool := parts_b f (cb_parts c).
  Definition withq_b (f : exp -> bool) (q : withq exp) : bool :=
    f (wq_query q) && optb (fun s => forallb f (ws_by s)) (wq_search q).
  Definition ins_b (f : exp -> bool) (b : insb exp) : bool :=
    forallb (withq_b f) (i_with b) && f (i_table b) && optb (forallb (forallb f)) (i_values b) &&
    (is_nil (i_query b) || (is_select (i_query b) && f (i_query b))) &&
    forallb f (i_ctargets b) && forallb f (i_ctwhere b) && set_b f (i_cset b) && forallb f (i_cwhere b) &&
    out_b f (i_returning b).
  Definition upd_b (f : exp -> bool) (b : updb exp) : bool :=
    forallb (withq_b f) (u_with b) && f (u_table b) && set_b f (u_set b) && forallb (fromitem_b f) (u_from b) &&
    forallb f (u_where b) && out_b f (u_returning b).
  Definition del_b (f : exp -> bool) (b : delb exp) : bool :=
    forallb (withq_b f) (d_with b) && f (d_table b) && forallb (fromitem_b f) (d_using b) &&
    forallb f (d_where b) && out_b f (d_returning b).

  Fixpoint wfe (e : exp) {struct e} : bool :=
    match e with
    | ENil => false
    | EBase e' => wfe e'
    | EArg _ | EBind _ | EIdent _ _ | EType _ | EStr _ | EFloat _ | EInt _ | EBool _ | ENull | EDefault
    | EInterval _ => true
    | EExprs l | EArray l => forallb wfe l
    | EOp l _ r _ => wfe l && wfe r
    | EUnary _ e' _ _ => wfe e'
    | EJunction l _ => forallb wfe l
    | EIn l _ r => wfe l && wfe r
    | EExists q => wfe q
    | EMatch l r _ _ => wfe l && wfe r
    | ESubq _ e' => wfe e'
    | ECase _ expr conds els =>
        nil_or wfe expr && forallb (fun c => wfe (fst c) && wfe (snd c)) conds && nil_or wfe els
    | EFuncExp _ _ a => forallb wfe a
    | EFunc _ _ a _ _ _ => forallb wfe a
    | EAgg _ _ _ a obs filter _ => forallb wfe a && forallb (obc_b wfe) obs && forallb wfe filter
    | EJson _ props => set_b wfe props
    | EExtract _ from => wfe from
    | ESelect w c p => forallb (withq_b wfe) w && forallb (comb_b wfe) c && parts_b wfe p
    | EInsert b => ins_b wfe b
    | EUpdate b => upd_b wfe b
    | EDelete b => del_b wfe b
    | EJoin _ _ from _ on _ => wfe from && nil_or wfe on
    | ERowsFrom fns _ => forallb wfe fns
    end.
End WfeDef.

Arguments wfe {V}.

Section CompileWall.
  Variable V : Type.
  Notation exp := (exp V).
  Notation W := (W V).
  Variable Q : W -> Prop.

  Hypothesis Qkw : forall s, Q (WKw s).
  Hypothesis Qraw : forall s, Q (WRaw s).
  Hypothesis Qlit : forall s, Q (WLit s).
  Hypothesis Qnum : forall s, Q (WNum s).
  Hypothesis Qarg : forall v, Q (WArg v).
  Hypothesis Qbind : forall n, Q (WBind n).
  Hypothesis Qident : forall s, Q (WIdent s).
  Hypothesis Qtype : forall s, Q (WType s).
  Hypothesis Qpretty : forall k, Q (WPretty k).
  Hypothesis Qe1 : Q (WErr EkLateralOnly).
  Hypothesis Qe2 : Q (WErr EkValuesQuery).
  Hypothesis Qe3 : Q (WErr EkConflict).
  Hypothesis Qe4 : Q (WErr EkOrdCols).
  Hypothesis Qev : Q (WErrV EkNoCond).

  Definition HP : Prop := Q WPanic.

  Ltac wprim :=
    apply Wall_prim;
    [exact (fun x : False => x)
    |first [apply Qkw|apply Qraw|apply Qlit|apply Qnum|apply Qarg|apply Qbind|apply Qident|apply Qtype|apply Qpretty
           |exact Qe1|exact Qe2|exact Qe3|exact Qe4|exact Qev|assumption]].

  Ltac wstep :=
    match goal with
    | |- Wall _ (WSeq (sep_by _ _)) => apply Wall_sep
    | |- Wall _ (WSeq (_ :: _)) => apply Wall_seq
    | |- Wall _ (WSeq []) => apply Wall_nil
    | |- Wall _ (WSeq (map _ _)) => apply Wall_seq
    | |- Wall _ (WSeq (_ ++ _)) => apply Wall_seq; apply Forall_app; split
    | |- Wall _ (WSeq (c_from_list _ _ _)) => apply Wall_seq
    | |- Forall (Wall _) (_ :: _) => apply Forall_cons
    | |- Forall (Wall _) [] => apply Forall_nil
    | |- Forall (Wall _) (_ ++ _) => apply Forall_app; split
    | |- Forall (Wall _) (map _ _) => apply Forall_map_Wall
    | |- Wall _ (when _ _ _) => apply Wall_when_lazy; intro
    | |- Wall _ (paren_if _ _ _) => apply Wall_paren_if; [apply Qkw|apply Qkw|]
    | |- Wall _ (kw _ _) => unfold kw
    | |- Wall _ (raws _ _ _) => unfold raws
    | |- Wall _ (WKw _) => wprim
    | |- Wall _ (WRaw _) => wprim
    | |- Wall _ (WLit _) => wprim
    | |- Wall _ (WNum _) => wprim
    | |- Wall _ (WArg _) => wprim
    | |- Wall _ (WBind _) => wprim
    | |- Wall _ (WIdent _) => wprim
    | |- Wall _ (WType _) => wprim
    | |- Wall _ (WPretty _) => wprim
    | |- Wall _ (WErr _) => wprim
    | |- Wall _ (WErrV _) => wprim
    | |- Forall (fun _ => Wall _ (WRaw _)) _ => apply Forall_forall; intros; wprim
    end.
  Ltac wsolve := repeat wstep.

  Section Helpers.
    Variable f : exp -> W.
    Variable g : exp -> bool.
    Definition Pfg (e : exp) : Prop := (HP \/ g e = true) -> Wall Q (f e).

    Lemma lift_forall l : Forall Pfg l -> (HP \/ forallb g l = true) -> Forall (fun x => Wall Q (f x)) l.
    Proof.
      intros H K. induction H as [|x r Hx _ IH]; constructor.
      - apply Hx. destruct K as [K|K]; [now left|right]. cbn in K. now apply andb_true_iff in K.
      - apply IH. destruct K as [K|K]; [now left|right]. cbn in K. now apply andb_true_iff in K.
    Qed.

    Lemma lift_nil_or e : Pfg e -> (HP \/ nil_or V g e = true) -> is_nil e = false -> Wall Q (f e).
    Proof.
      intros H K N. apply H. destruct K as [K|K]; [now left|right]. unfold nil_or in K. now rewrite N in K.
    Qed.

    Lemma andb_split a b : HP \/ a && b = true -> (HP \/ a = true) /\ (HP \/ b = true).
    Proof. intros [K|K]; [split; now left|apply andb_true_iff in K; destruct K; split; now right]. Qed.

    Lemma W_args l : Forall (fun x => Wall Q (f x)) l -> Wall Q (c_args V f l).
    Proof. intro H. unfold c_args. wsolve. assumption. Qed.

    Lemma W_junction l op : Forall (fun x => Wall Q (f x)) l -> Wall Q (c_junction V f l op).
    Proof.
      intro H. unfold c_junction.
      assert (K : Wall Q (WSeq (sep_by (WSeq [kw V " "; kw V op; kw V " "])
                                  (map (fun x => paren_if V (is_junction x) (f x)) l)))).
      { wsolve. eapply Forall_impl; [|exact H]. intros a Ha. cbn beta. wsolve. assumption. }
      destruct l as [|x [|y r]]; try exact K. inversion H; subst. assumption.
    Qed.

    Lemma W_obc o : Wall Q (f (ob_exp o)) -> Wall Q (c_obc V f o).
    Proof. intro H. unfold c_obc. wsolve; assumption. Qed.

    Lemma W_fromitem i : Wall Q (f (fi_from i)) -> Wall Q (c_fromitem V f i).
    Proof. intro H. unfold c_fromitem. wsolve; assumption. Qed.

    Lemma W_set l : Forall (fun x => Wall Q (f x)) l -> Wall Q (c_set V f l).
    Proof.
      intro H. unfold c_set.
      assert (K : Wall Q (WSeq [kw V "("; WSeq (sep_by (kw V ",") (map f l)); kw V ")"])) by (wsolve; assumption).
      destruct l as [|x [|y r]]; try exact K. inversion H; subst. assumption.
    Qed.

    Lemma W_grouping gr :
      (HP \/ (nonempty (ge_type gr) || nonnil (ge_sets gr)) = true) ->
      Forall (Forall (fun x => Wall Q (f x))) (ge_sets gr) -> Wall Q (c_grouping V f gr).
    Proof.
      intros Hg H. unfold c_grouping. destruct (nonempty (ge_type gr)) eqn:E; cbn [negb].
      - wsolve.
        + destruct (ge_sets gr) as [|? [|? ?]]; wsolve.
        + eapply Forall_impl; [|exact H]. intros a Ha. now apply W_set.
      - destruct (ge_sets gr) as [|s r] eqn:Es.
        + destruct Hg as [Hg|Hg]; [wprim; exact Hg|discriminate].
        + inversion H; subst. now apply W_set.
    Qed.

    Lemma W_lock l : Wall Q (c_lock V l).
    Proof. unfold c_lock. wsolve. Qed.

    Lemma W_outlist l : Forall (fun x => Wall Q (f (fst x))) l -> Wall Q (c_outlist V f l).
    Proof.
      intro H. unfold c_outlist. wsolve. eapply Forall_impl; [|exact H]. intros a Ha. cbn beta. wsolve. assumption.
    Qed.

    Lemma W_from_list l : Forall (fun i => Wall Q (f (fi_from i))) l -> Forall (Wall Q) (c_from_list V f l).
    Proof.
      intro H. unfold c_from_list. destruct l as [|x r]; [constructor|]. inversion H; subst.
      constructor; [now apply W_fromitem|]. wsolve. eapply Forall_impl; [|eassumption].
      intros a Ha. cbn beta. wsolve; [destruct (is_join (fi_from a)); wsolve|now apply W_fromitem].
    Qed.

    Lemma W_setitems l : Forall (fun x => Wall Q (f (snd x))) l -> Wall Q (c_setitems V f l).
    Proof.
      intro H. unfold c_setitems. wsolve. eapply Forall_impl; [|exact H]. intros a Ha. cbn beta. wsolve. assumption.
    Qed.

    Lemma W_returning l : Forall (fun x => Wall Q (f (fst x))) l -> Wall Q (c_returning V f l).
    Proof. intro H. unfold c_returning. wsolve. now apply W_outlist. Qed.

    (* lifting the induction hypotheses through the records *)
    Lemma lift_out l : out_all Pfg l -> (HP \/ out_b V g l = true) -> Forall (fun x => Wall Q (f (fst x))) l.
    Proof.
      unfold out_all, out_b. intros H K. induction H as [|x r Hx _ IH]; constructor.
      - apply Hx. destruct K as [K|K]; [now left|right]. cbn in K. now apply andb_true_iff in K.
      - apply IH. destruct K as [K|K]; [now left|right]. cbn in K. now apply andb_true_iff in K.
    Qed.

    Lemma lift_setl l : set_all Pfg l -> (HP \/ set_b V g l = true) -> Forall (fun x => Wall Q (f (snd x))) l.
    Proof.
      unfold set_all, set_b. intros H K. induction H as [|x r Hx _ IH]; constructor.
      - apply Hx. destruct K as [K|K]; [now left|right]. cbn in K. now apply andb_true_iff in K.
      - apply IH. destruct K as [K|K]; [now left|right]. cbn in K. now apply andb_true_iff in K.
    Qed.

    Lemma lift_from l :
      Forall (fromitem_all Pfg) l -> (HP \/ forallb (fromitem_b V g) l = true) ->
      Forall (fun i => Wall Q (f (fi_from i))) l.
    Proof.
      intros H K. induction H as [|x r Hx _ IH]; constructor.
      - apply Hx. destruct K as [K|K]; [now left|right]. cbn in K. now apply andb_true_iff in K.
      - apply IH. destruct K as [K|K]; [now left|right]. cbn in K. now apply andb_true_iff in K.
    Qed.

    Lemma lift_obcs l :
      Forall (obc_all Pfg) l -> (HP \/ forallb (obc_b V g) l = true) ->
      Forall (fun o => Wall Q (c_obc V f o)) l.
    Proof.
      intros H K. induction H as [|x r Hx _ IH]; constructor.
      - apply W_obc. apply Hx. destruct K as [K|K]; [now left|right]. cbn in K. now apply andb_true_iff in K.
      - apply IH. destruct K as [K|K]; [now left|right]. cbn in K. now apply andb_true_iff in K.
    Qed.

    Lemma lift_sets l :
      Forall (Forall Pfg) l -> (HP \/ forallb (forallb g) l = true) ->
      Forall (Forall (fun x => Wall Q (f x))) l.
    Proof.
      intros H K. induction H as [|x r Hx _ IH]; constructor.
      - apply lift_forall; [assumption|]. destruct K as [K|K]; [now left|right]. cbn in K. now apply andb_true_iff in K.
      - apply IH. destruct K as [K|K]; [now left|right]. cbn in K. now apply andb_true_iff in K.
    Qed.

    Lemma lift_groupings l :
      Forall (grouping_all Pfg) l -> (HP \/ forallb (grouping_b V g) l = true) ->
      Forall (fun x => Wall Q (c_grouping V f x)) l.
    Proof.
      intros H K. induction H as [|x r Hx _ IH]; constructor.
      - assert (K' : HP \/ grouping_b V g x = true).
        { destruct K as [K|K]; [now left|right]. cbn in K. now apply andb_true_iff in K. }
        unfold grouping_b in K'. apply andb_split in K'. destruct K' as [K1 K2].
        apply W_grouping; [assumption|]. now apply lift_sets.
      - apply IH. destruct K as [K|K]; [now left|right]. cbn in K. now apply andb_true_iff in K.
    Qed.

    Lemma W_parts p : parts_all Pfg p -> (HP \/ parts_b V g p = true) -> Wall Q (c_parts V f p).
    Proof.
      intros (A1 & A2 & A3 & A4 & A5 & A6 & A7 & A8 & A9 & A10) K. unfold parts_b in K.
      repeat (apply andb_split in K; let K' := fresh "K" in destruct K as [K K']).
      unfold c_parts. wsolve.
      - now apply lift_forall.
      - destruct (p_json p) as [j|]; wsolve. apply A2. assumption.
      - apply W_outlist. now apply lift_out.
      - apply W_from_list. now apply lift_from.
      - apply W_junction. now apply lift_forall.
      - now apply lift_groupings.
      - apply W_junction. now apply lift_forall.
    Qed.

    Lemma W_withq q :
      withq_all Pfg q -> (HP \/ withq_b V g q = true) -> Wall Q (c_withq V f q).
    Proof.
      intros [A1 A2] K. unfold withq_b in K. apply andb_split in K. destruct K as [K1 K2].
      unfold c_withq. wsolve.
      - destruct (wq_mat q); wsolve.
      - now apply A1.
      - destruct (wq_search q) as [s|]; wsolve. unfold c_wsearch. wsolve. now apply lift_forall.
    Qed.

    Lemma W_withs l :
      Forall (withq_all Pfg) l -> (HP \/ forallb (withq_b V g) l = true) -> Wall Q (c_withs V f l).
    Proof.
      intros H K.
      assert (F : Forall (fun x => Wall Q (c_withq V f x)) l).
      { induction H as [|x r Hx _ IH]; constructor.
        - apply W_withq; [assumption|]. destruct K as [K|K]; [now left|right]. cbn in K. now apply andb_true_iff in K.
        - apply IH. destruct K as [K|K]; [now left|right]. cbn in K. now apply andb_true_iff in K. }
      unfold c_withs. wsolve. assumption.
    Qed.

    Lemma W_select_inner w c p :
      Forall (withq_all Pfg) w -> Forall (comb_all Pfg) c -> parts_all Pfg p ->
      (HP \/ forallb (withq_b V g) w && forallb (comb_b V g) c && parts_b V g p = true) ->
      Wall Q (c_select_inner V f w c p).
    Proof.
      intros Hw Hc Hp K. apply andb_split in K. destruct K as [K K3]. apply andb_split in K. destruct K as [K1 K2].
      pose proof Hp as (A1 & A2 & A3 & A4 & A5 & A6 & A7 & A8 & A9 & A10).
      pose proof K3 as K3'. unfold parts_b in K3'.
      repeat (apply andb_split in K3'; let K' := fresh "J" in destruct K3' as [K3' K']).
      unfold c_select_inner. wsolve.
      - now apply W_withs.
      - induction Hc as [|x r Hx _ IH]; constructor.
        + unfold c_comb. wsolve. apply W_parts; [exact Hx|].
          destruct K2 as [K2|K2]; [now left|right]. cbn in K2. now apply andb_true_iff in K2.
        + apply IH. destruct K2 as [K2|K2]; [now left|right]. cbn in K2. now apply andb_true_iff in K2.
      - now apply W_parts.
      - now apply lift_obcs.
      - apply lift_nil_or; [assumption|assumption|now apply negb_true_iff].
      - apply lift_nil_or; [assumption|assumption|now apply negb_true_iff].
      - apply W_lock.
    Qed.

    Lemma W_update_inner b : upd_all Pfg b -> (HP \/ upd_b V g b = true) -> Wall Q (c_update_inner V f b).
    Proof.
      intros (A1 & A2 & A3 & A4 & A5 & A6) K. unfold upd_b in K.
      repeat (apply andb_split in K; let K' := fresh "K" in destruct K as [K K']).
      unfold c_update_inner. wsolve.
      - now apply W_withs.
      - now apply A2.
      - apply W_setitems. now apply lift_setl.
      - eapply Forall_impl; [|apply lift_from; eassumption]. intros a Ha. now apply W_fromitem.
      - apply W_junction. now apply lift_forall.
      - apply W_returning. now apply lift_out.
    Qed.

    Lemma W_delete b : del_all Pfg b -> (HP \/ del_b V g b = true) -> Wall Q (c_delete V f b).
    Proof.
      intros (A1 & A2 & A3 & A4 & A5) K. unfold del_b in K.
      repeat (apply andb_split in K; let K' := fresh "K" in destruct K as [K K']).
      unfold c_delete. wsolve.
      - now apply W_withs.
      - now apply A2.
      - eapply Forall_impl; [|apply lift_from; eassumption]. intros a Ha. now apply W_fromitem.
      - apply W_junction. now apply lift_forall.
      - apply W_returning. now apply lift_out.
    Qed.

    Lemma W_insert_inner (finner : exp -> W) b :
      ins_all Pfg b -> (HP \/ ins_b V g b = true) ->
      (is_nil (i_query b) = false -> (HP \/ (is_select (i_query b) && g (i_query b)) = true) -> Wall Q (finner (i_query b))) ->
      Wall Q (c_insert_inner V f finner b).
    Proof.
      intros (A1 & A2 & A3 & A4 & A5 & A6 & A7 & A8 & A9) K Hfin. unfold ins_b in K.
      repeat (apply andb_split in K; let K' := fresh "K" in destruct K as [K K']).
      assert (Hrows : forall rows, i_values b = Some rows -> Forall (Forall (fun x => Wall Q (f x))) rows).
      { intros rows E. rewrite E in A3, K6. cbn in K6. now apply lift_sets. }
      assert (Hq : is_nil (i_query b) = false -> Wall Q (finner (i_query b))).
      { intro N. apply Hfin; [assumption|]. destruct K5 as [K5|K5]; [now left|right]. now rewrite N in K5. }
      unfold c_insert_inner.
      assert (Hhead : Forall (Wall Q)
                [c_withs V f (i_with b); kw V "INSERT INTO "; f (i_table b);
                 when V (nonempty (i_alias b)) [kw V " AS "; WRaw (i_alias b)];
                 match i_cols b with
                 | Some cols => WSeq [kw V " (";
                                      WSeq (sep_by (WSeq [kw V ","; WPretty PwComma]) (map (@WRaw V) cols));
                                      kw V ")"]
                 | None => WSeq []
                 end]).
      { wsolve; [now apply W_withs|now apply A2|]. destruct (i_cols b); wsolve. }
      assert (Hbody : Wall Q
                (if negb (is_nil (i_query b)) then WSeq [kw V " "; finner (i_query b)]
                 else match i_values b with
                      | Some rows =>
                          WSeq [WPretty PwBreak; kw V "VALUES ";
                                WSeq (sep_by (WSeq [kw V ","; WPretty PwRow])
                                        (map (fun row => WSeq [kw V "(";
                                                               WSeq (sep_by (WSeq [kw V ","; WPretty PwComma]) (map f row));
                                                               kw V ")"]) rows))]
                      | None => when V (i_default b) [kw V " DEFAULT VALUES"]
                      end)).
      { destruct (is_nil (i_query b)) eqn:N; cbn [negb].
        - destruct (i_values b) as [rows|] eqn:E; wsolve.
          eapply Forall_impl; [|apply (Hrows rows eq_refl)]. intros a Ha. cbn beta. wsolve. assumption.
        - wsolve. now apply Hq. }
      cbv zeta.
      assert (Hconf : Wall Q (when V (opt_nonnil (i_values b) && negb (is_nil (i_query b))) [WErr EkValuesQuery])) by wsolve.
      destruct (negb (nonempty (i_caction b))).
      { apply Wall_seq. apply Forall_app. split; [exact Hhead|].
        apply Forall_cons; [exact Hconf|]. apply Forall_cons; [exact Hbody|]. apply Forall_cons; [|apply Forall_nil].
        apply W_returning. now apply lift_out. }
      apply Wall_seq. apply Forall_app. split; [exact Hhead|].
      apply Forall_app. split; [apply Forall_cons; [exact Hconf|apply Forall_cons; [exact Hbody|apply Forall_nil]]|].
      apply Forall_app. split; [wsolve|].
      wsolve.
      - now apply lift_forall.
      - apply W_junction. now apply lift_forall.
      - apply W_setitems. now apply lift_setl.
      - apply W_junction. now apply lift_forall.
      - apply W_returning. now apply lift_out.
    Qed.
  End Helpers.

  Notation PC := (Pfg (@compile V) (@wfe V)).

  Lemma sub_l a b : HP \/ a && b = true -> HP \/ a = true.
  Proof. intros [K|K]; [now left|right; now apply andb_true_iff in K]. Qed.
  Lemma sub_r a b : HP \/ a && b = true -> HP \/ b = true.
  Proof. intros [K|K]; [now left|right; now apply andb_true_iff in K]. Qed.

  Theorem compile_wall : forall e : exp, (HP \/ wfe e = true) -> Wall Q (compile e).
  Proof.
    induction e using exp_ind'; intro K; cbn [compile wfe] in *.
    - destruct K as [K|K]; [wprim; exact K|discriminate].
    - now apply IHe.
    - wsolve.
    - wsolve.
    - wsolve. apply W_args. now apply (lift_forall (@compile V) (@wfe V)).
    - wsolve.
    - wsolve.
    - wsolve.
    - wsolve.
    - wsolve.
    - wsolve.
    - wsolve. apply W_args. now apply (lift_forall (@compile V) (@wfe V)).
    - wsolve.
    - wsolve.
    - wsolve.
    - wsolve; [apply IHe1; eapply sub_l; eassumption|apply IHe2; eapply sub_r; eassumption].
    - wsolve. now apply IHe.
    - apply W_junction. now apply (lift_forall (@compile V) (@wfe V)).
    - wsolve; [apply IHe1; eapply sub_l; eassumption|apply IHe2; eapply sub_r; eassumption].
    - wsolve. now apply IHe.
    - wsolve; [apply IHe1; eapply sub_l; eassumption|apply IHe2; eapply sub_r; eassumption|].
      destruct esc; wsolve.
    - wsolve. now apply IHe.
    - (* ECase *)
      assert (K1 := sub_l _ _ K). assert (K3 := sub_r _ _ K). assert (K2 := sub_r _ _ K1). apply sub_l in K1.
      clear K. wsolve.
      + apply (lift_nil_or (@compile V) (@wfe V)); [assumption|assumption|now apply negb_true_iff].
      + match goal with H : Forall _ conds |- _ => induction H as [|x r [Hx1 Hx2] _ IH] end; constructor.
        * wsolve; [apply Hx1|apply Hx2]; (destruct K2 as [K2|K2]; [now left|right]); cbn in K2;
            apply andb_true_iff in K2; destruct K2 as [K2 _]; apply andb_true_iff in K2; tauto.
        * apply IH. destruct K2 as [K2|K2]; [now left|right]. cbn in K2. now apply andb_true_iff in K2.
      + apply (lift_nil_or (@compile V) (@wfe V)); [assumption|assumption|now apply negb_true_iff].
    - wsolve. apply W_args. now apply (lift_forall (@compile V) (@wfe V)).
    - (* EFunc *)
      assert (HA : Wall Q (c_args V compile a)) by (apply W_args; now apply (lift_forall (@compile V) (@wfe V))).
      destruct (nonnil cd); [destruct ord|]; cbv zeta; wsolve; try assumption; apply Forall_forall; intros; wsolve.
    - (* EAgg *)
      assert (K1 := sub_l _ _ K). assert (K3 := sub_r _ _ K). assert (K2 := sub_r _ _ K1). apply sub_l in K1.
      wsolve.
      + apply W_args. now apply (lift_forall (@compile V) (@wfe V)).
      + now apply (lift_obcs (@compile V) (@wfe V)).
      + now apply (lift_obcs (@compile V) (@wfe V)).
      + apply W_junction. now apply (lift_forall (@compile V) (@wfe V)).
    - (* EJson *)
      wsolve. match goal with H : set_all _ _ |- _ => pose proof (lift_setl (@compile V) (@wfe V) _ H K) as L end.
      eapply Forall_impl; [|exact L]. intros a0 Ha. cbn beta. wsolve. assumption.
    - wsolve. now apply IHe.
    - wsolve. now apply (W_select_inner (@compile V) (@wfe V)).
    - (* EInsert *)
      wsolve. apply (W_insert_inner (@compile V) (@wfe V)); [assumption|assumption|].
      intros N Ks. match goal with H : ins_all _ _ |- _ => destruct H as (_ & _ & _ & A4 & _) end.
      destruct (i_query b) as [| | | | | | | | | | | | | | | | | | | | | | | | | | | |w c p| | | | |] eqn:Eq;
        try (destruct Ks as [Ks|Ks]; [wprim; exact Ks|discriminate]).
      (* the query is a select: its inner rendering is part of the induction hypothesis *)
      assert (Hsel : Wall Q (compile (ESelect w c p))) by (apply A4; destruct Ks as [Ks|Ks]; [now left|right; exact Ks]).
      cbn [compile] in Hsel. apply Wall_seq_inv in Hsel. inversion Hsel as [|? ? _ Hr]; subst.
      inversion Hr; subst. assumption.
    - wsolve. now apply (W_update_inner (@compile V) (@wfe V)).
    - now apply (W_delete (@compile V) (@wfe V)).
    - (* EJoin *)
      wsolve; [apply IHe1; eapply sub_l; eassumption|].
      destruct (is_nil e2) eqn:N; cbn [negb]; wsolve.
      apply (lift_nil_or (@compile V) (@wfe V)); [exact IHe2|eapply sub_r; eassumption|assumption].
    - wsolve. apply W_args. now apply (lift_forall (@compile V) (@wfe V)).
  Qed.

  Theorem compile_top_wall : forall e : exp, (HP \/ wfe e = true) -> Wall Q (compile_top e).
  Proof.
    intros e K. pose proof (compile_wall e K) as H.
    destruct e; try exact H; cbn [compile compile_top] in *.
    - apply Wall_seq_inv in H. inversion H as [|? ? _ Hr]; subst. inversion Hr; subst. assumption.
    - (* insert: the same tree with select_inner for the query *)
      apply Wall_seq_inv in H. inversion H as [|? ? _ Hr]; subst. inversion Hr; subst. assumption.
    - apply Wall_seq_inv in H. inversion H as [|? ? _ Hr]; subst. inversion Hr; subst. assumption.
  Qed.
End CompileWall.
