(* A functional model of the expression constructors: the package-level functions of qrb / builder that build
   expression values, the operator and predicate methods every operator-capable value inherits from ExpBase,
   and the refinement methods of FuncBuilder / AggExpBuilder.  Tied to the code call by call (harness mode "api":
   every constructor call made while generating a value is recorded with its arguments and its result).
   Definitions only. *)
From Coq Require Import String List Ascii ZArith NArith Bool.
From QRB Require Import Base.Bytes Model.W Model.Values Model.Compile Model.Handle Model.Api Model.JsonMap.
Import ListNotations.
Local Open Scope string_scope.
Local Open Scope list_scope.

(* ---------------------------------------------------------------- strings.TrimSpace (Unicode White_Space, UTF-8) *)
Definition ws_seqs : list (list N) :=
  [[9]; [10]; [11]; [12]; [13]; [32]; [194; 133]; [194; 160]; [225; 154; 128];
   [226; 128; 128]; [226; 128; 129]; [226; 128; 130]; [226; 128; 131]; [226; 128; 132]; [226; 128; 133];
   [226; 128; 134]; [226; 128; 135]; [226; 128; 136]; [226; 128; 137]; [226; 128; 138];
   [226; 128; 168]; [226; 128; 169]; [226; 128; 175]; [226; 129; 159]; [227; 128; 128]]%N.

Fixpoint strip_prefix (p l : list N) : option (list N) :=
  match p, l with
  | [], _ => Some l
  | a :: p', b :: l' => if N.eqb a b then strip_prefix p' l' else None
  | _ :: _, [] => None
  end.

Fixpoint strip_any (ps : list (list N)) (l : list N) : option (list N) :=
  match ps with
  | [] => None
  | p :: r => match strip_prefix p l with Some l' => Some l' | None => strip_any r l end
  end.

Fixpoint trim_left (fuel : nat) (ps : list (list N)) (l : list N) : list N :=
  match fuel with
  | O => l
  | S f => match strip_any ps l with Some l' => trim_left f ps l' | None => l end
  end.

Definition trim_space (s : string) : string :=
  let l := map N_of_byte (list_of_string s) in
  let l1 := trim_left (S (List.length l)) ws_seqs l in
  let l2 := rev (trim_left (S (List.length l1)) (map (@rev N) ws_seqs) (rev l1)) in
  string_of_list (map byte_of_N l2).

Section Ctor.
  Variable V : Type.
  Notation exp := (exp V).
  Notation aarg := (aarg V).

  (* ---------------------------------------------------------------- package-level constructors *)
  Definition nonnil (l : list exp) : list exp := filter (fun e => negb (is_nil e)) l.
  Definition func_exp (name : string) (args : list exp) : exp := EBase (EFuncExp ENil name args).

  Definition exp_ctors : list (string * (list aarg -> option exp)) :=
    [("Arg", fun a => match a with [AAny v] => Some (EBase (EArg v)) | _ => None end);
     ("Args", fun a => match a with [AAnys vs] => Some (EExprs (map (fun v => EBase (EArg v)) vs)) | _ => None end);
     ("Bind", fun a => match a with [AStr n] => Some (EBase (EBind n)) | _ => None end);
     ("N", fun a => match a with [AStr s] => Some (set_self (EIdent ENil (trim_space s))) | _ => None end);
     ("String", fun a => match a with [AStr s] => Some (EStr s) | _ => None end);
     ("Int", fun a => match a with [AInt z] => Some (EInt z) | _ => None end);
     ("Bool", fun a => match a with [ABool b] => Some (EBool b) | _ => None end);
     (* Float(f): the argument travels as strconv.FormatFloat(f, 'f', -1, 64), the text EFloat carries *)
     ("Float", fun a => match a with [AStr t] => Some (EFloat t) | _ => None end);
     ("Null", fun a => match a with [] => Some ENull | _ => None end);
     ("Default", fun a => match a with [] => Some EDefault | _ => None end);
     ("Interval", fun a => match a with [AStr s] => Some (EInterval s) | _ => None end);
     ("Array", fun a => match a with [AExps l] => Some (EBase (EArray l)) | _ => None end);
     ("Exps", fun a => match a with [AExps l] => Some (EExprs l) | _ => None end);
     ("And", fun a => match a with [AExps l] => Some (EJunction (nonnil l) "AND") | _ => None end);
     ("Or", fun a => match a with [AExps l] => Some (EJunction (nonnil l) "OR") | _ => None end);
     ("Not", fun a => match a with [AExp e] => Some (EUnary "NOT" e "" (-4)) | _ => None end);
     ("Neg", fun a => match a with [AExp e] => Some (EBase (EUnary "-" e "" 4)) | _ => None end);
     ("Exists", fun a => match a with [AExp q] => Some (EExists q) | _ => None end);
     ("Any", fun a => match a with [AExp e] => Some (ESubq "ANY" e) | _ => None end);
     ("All", fun a => match a with [AExp e] => Some (ESubq "ALL" e) | _ => None end);
     ("Func", fun a => match a with [AStr n; AExps l] => Some (set_self (EFunc ENil n l false "" [])) | _ => None end);
     ("FuncExp", fun a => match a with [AStr n; AExps l] => Some (func_exp n l) | _ => None end);
     ("Agg", fun a => match a with [AStr n; AExps l] => Some (set_self (EAgg ENil n false l [] [] false)) | _ => None end);
     ("Coalesce", fun a => match a with [AExp e; AExps r] => Some (func_exp "COALESCE" (e :: r)) | _ => None end);
     ("NullIf", fun a => match a with [AExp x; AExp y] => Some (func_exp "NULLIF" [x; y]) | _ => None end);
     ("Greatest", fun a => match a with [AExp e; AExps r] => Some (func_exp "GREATEST" (e :: r)) | _ => None end);
     ("Least", fun a => match a with [AExp e; AExps r] => Some (func_exp "LEAST" (e :: r)) | _ => None end);
     ("RowsFrom", fun a => match a with [AExp f; AExps r] => Some (ERowsFrom (f :: r) false) | _ => None end);
     ("NewRowsFromBuilder", fun a => match a with [AExps r] => Some (ERowsFrom r false) | _ => None end);
     (* builder.JsonBuildObject(isJsonB): the empty JSON object of the chosen flavour *)
     ("JsonBuildObject", fun a => match a with [ABool b] => Some (EJson b []) | _ => None end)].

  (* a CASE under construction is represented by the value its End() would give *)
  Definition case_ctors : list (string * (list aarg -> option exp)) :=
    [("Case", fun a => match a with
                       | [AExps []] => Some (ECase ENil ENil [] ENil)
                       | [AExps (e :: _)] => Some (ECase ENil e [] ENil)
                       | _ => None end)].

  Definition ctor (name : string) (args : list aarg) : option exp :=
    if String.eqb name "Case" then lookup_h V name case_ctors args else lookup_h V name exp_ctors args.

  (* ---------------------------------------------------------------- methods *)
  (* b.Exp of the receiver: the wrapped expression of an ExpBase value, the self handle of a builder *)
  Definition handle_of (recv : exp) : option exp :=
    match recv with EBase e => Some e | _ => self_of recv end.

  Definition binops : list (string * string) :=
    [("Eq", "="); ("Neq", "<>"); ("Lt", "<"); ("Lte", "<="); ("Gt", ">"); ("Gte", ">="); ("Concat", "||");
     ("RegexpMatch", "~"); ("RegexpIMatch", "~*"); ("RegexpNotMatch", "!~"); ("RegexpINotMatch", "!~*");
     ("JsonExtract", "->"); ("JsonExtractText", "->>"); ("JsonExtractPath", "#>"); ("JsonExtractPathText", "#>>");
     ("Contains", "@>"); ("ContainedBy", "<@");
     ("Plus", "+"); ("Minus", "-"); ("Mult", "*"); ("Divide", "/"); ("Mod", "%"); ("Pow", "^")].
  Definition matchops : list (string * string) :=
    [("Like", "LIKE"); ("ILike", "ILIKE"); ("NotLike", "NOT LIKE"); ("NotILike", "NOT ILIKE");
     ("SimilarTo", "SIMILAR TO"); ("NotSimilarTo", "NOT SIMILAR TO")].

  Definition op_of (h : exp) (op : string) (r : exp) : exp := EBase (EOp h op (unwrap_base V r) false).

  (* the methods promoted from ExpBase, given b.Exp *)
  Definition base_handlers (h : exp) : list (string * (list aarg -> option exp)) :=
    [("ExpBase.Op", fun a => match a with [AStr op; AExp r] => Some (op_of h op r) | _ => None end)]
    ++ map (fun mo => (("ExpBase." ++ fst mo)%string,
                       fun a : list aarg => match a with [AExp r] => Some (op_of h (snd mo) r) | _ => None end)) binops
    ++ map (fun mo => (("ExpBase." ++ fst mo)%string,
                       fun a : list aarg => match a with [AExp r] => Some (EMatch h r (snd mo) None) | _ => None end)) matchops
    ++ [("ExpBase.IsNull", fun a => match a with [] => Some (EUnary "" h "IS NULL" (-3)) | _ => None end);
        ("ExpBase.IsNotNull", fun a => match a with [] => Some (EUnary "" h "IS NOT NULL" (-3)) | _ => None end);
        ("ExpBase.Cast", fun a => match a with [AStr t] => Some (EBase (EOp h "::" (EType t) true)) | _ => None end);
        ("ExpBase.In", fun a => match a with [AExp r] => Some (EIn h "IN" r) | _ => None end);
        ("ExpBase.NotIn", fun a => match a with [AExp r] => Some (EIn h "NOT IN" r) | _ => None end)].

  (* the methods of the concrete types *)
  Definition own_handlers (recv : exp) : list (string * (list aarg -> option exp)) :=
    match recv with
    | EMatch l r op _ =>
        [("matchingExp.Escape", fun a => match a with [AInt c] => Some (EMatch l r op (Some c)) | _ => None end)]
    | EFunc s n args ord al defs =>
        [("FuncBuilder.WithOrdinality", fun a => match a with [] => Some (set_self (EFunc s n args true al defs)) | _ => None end);
         ("FuncBuilder.As", fun a => match a with [AStr x] => Some (set_self (EFunc s n args ord x defs)) | _ => None end);
         ("FuncBuilder.ColumnDefinition", fun a => match a with
            | [AStr c; AStr t] => Some (set_self (EFunc s n args ord al (defs ++ [(c, t)]))) | _ => None end)]
    | EAgg s n d args obs fl wi =>
        let ob f := opt_bind (upd_last f obs) (fun l => Some (set_self (EAgg s n d args l fl wi))) in
        [("AggExpBuilder.Distinct", fun a => match a with [] => Some (set_self (EAgg s n true args obs fl wi)) | _ => None end);
         ("AggExpBuilder.OrderBy", fun a => match a with
            | [AExp e] => Some (set_self (EAgg s n d args (obs ++ [mkObc e "" ""]) fl wi)) | _ => None end);
         ("AggExpBuilder.Filter", fun a => match a with
            | [AExp c] => Some (set_self (EAgg s n d args obs (fl ++ [c]) wi)) | _ => None end);
         ("AggExpBuilder.WithinGroup", fun a => match a with [] => Some (set_self (EAgg s n d args obs fl true)) | _ => None end);
         ("OrderByAggExpBuilder.Asc", fun a => match a with [] => ob (fun o => ob_set V o "ASC" (ob_nulls o)) | _ => None end);
         ("OrderByAggExpBuilder.Desc", fun a => match a with [] => ob (fun o => ob_set V o "DESC" (ob_nulls o)) | _ => None end);
         ("OrderByAggExpBuilder.NullsFirst", fun a => match a with [] => ob (fun o => ob_set V o (ob_order o) "NULLS FIRST") | _ => None end);
         ("OrderByAggExpBuilder.NullsLast", fun a => match a with [] => ob (fun o => ob_set V o (ob_order o) "NULLS LAST") | _ => None end)]
    (* the JSON object builder (builder/json_build_object.go) over the slice map of Model/JsonMap.v: Prop sets
       (replace in place or append), PropIf is Prop or the receiver, Unset deletes; the flavour is kept *)
    | EJson isb props =>
        [("JsonBuildObjectBuilder.Prop", fun a => match a with
            | [AStr k; AExp v] => Some (EJson isb (jset props k v)) | _ => None end);
         ("JsonBuildObjectBuilder.PropIf", fun a => match a with
            | [ABool c; AStr k; AExp v] => Some (EJson isb (if c then jset props k v else props)) | _ => None end);
         ("JsonBuildObjectBuilder.Unset", fun a => match a with
            | [AStr k] => Some (EJson isb (jdel props k)) | _ => None end)]
    | ERowsFrom fns _ =>
        [("RowsFromBuilder.WithOrdinality", fun a => match a with [] => Some (ERowsFrom fns true) | _ => None end)]
    | _ => []
    end.

  (* CaseBuilder / CaseWhenBuilder (not expressions themselves): When opens a branch, Then completes it *)
  Definition case_handlers (recv : exp) : list (string * (list aarg -> option exp)) :=
    match recv with
    | ECase s ex conds els =>
        [("CaseBuilder.When", fun a => match a with [AExp c] => Some (ECase s ex (conds ++ [(c, ENil)]) els) | _ => None end);
         ("CaseWhenBuilder.Then", fun a => match a with
            | [AExp r] => opt_bind (upd_last (fun x => (fst x, r)) conds) (fun l => Some (ECase s ex l els)) | _ => None end);
         ("CaseBuilder.Else", fun a => match a with [AExp r] => Some (ECase s ex conds r) | _ => None end);
         ("CaseBuilder.End", fun a => match a with [] => Some (set_self (ECase ENil ex conds els)) | _ => None end)]
    | _ => []
    end.

  Definition exp_meth_handlers (recv : exp) : list (string * (list aarg -> option exp)) :=
    own_handlers recv ++ match handle_of recv with Some h => base_handlers h | None => [] end.
  Definition meth_handlers (recv : exp) : list (string * (list aarg -> option exp)) :=
    case_handlers recv ++ exp_meth_handlers recv.

  (* key: "Owner.Method", Owner = the type that declares the method *)
  Definition meth (key : string) (recv : exp) (args : list aarg) : option exp :=
    lookup_h V key (meth_handlers recv) args.
End Ctor.

Arguments ctor {V}. Arguments meth {V}. Arguments handle_of {V}.
Arguments exp_ctors {V}. Arguments exp_meth_handlers {V}.
