(* Decoder from the reflective dump of a Go value (go/harness/dump.go) to the value universe.
   The dump prints every struct as (TypeName field ...) in declaration order, so a struct that gains,
   loses or reorders a field no longer decodes and the correspondence check reports it.
   Glue, not model: no theorem is about this file. *)
From Coq Require Import List String Ascii ZArith Bool.
From QRB Require Import Base.Bytes Model.Sexp Model.Values.
Import ListNotations.
Local Open Scope string_scope.

Notation "'do' x <- a ; b" := (match a with Some x => b | None => None end)
  (at level 200, x name, a at level 100, b at level 200).

Local Notation exp := (exp nat).

Definition select_wrappers : list string :=
  ["SelectSelectBuilder"; "SelectDistinctBuilder"; "SelectJsonSelectBuilder"; "FromSelectBuilder";
   "JoinSelectBuilder"; "GroupyBySelectBuilder"; "CombinationBuilder"; "OrderBySelectBuilder";
   "ForSelectBuilder";
   "OnConflictInsertBuilder"; "OnConflictDoUpdateInsertBuilder"; "ReturningInsertBuilder";
   "FromUpdateBuilder"; "ReturningUpdateBuilder";
   "FromDeleteBuilder"; "ReturningDeleteBuilder";
   "OrderByAggExpBuilder"].

Definition mem (s : string) (l : list string) : bool := existsb (String.eqb s) l.

Section Dec.
  Variable dexp : sexp -> option exp.

  Definition d_base (x : sexp) : option exp :=
    match x with SList [SAtom "ExpBase"; y] => dexp y | _ => None end.

  Definition d_obc (x : sexp) : option (obc exp) :=
    match x with
    | SList [SAtom "orderByClause"; e; o; n] =>
        do e' <- dexp e; do o' <- d_nstr o; do n' <- d_nstr n; Some (mkObc e' o' n')
    | _ => None
    end.

  Definition d_fromitem (x : sexp) : option (fromitem exp) :=
    match x with
    | SList [SAtom "fromItem"; l; o; f; a; c] =>
        do l' <- d_bool l; do o' <- d_bool o; do f' <- dexp f; do a' <- d_str a;
        do c' <- d_list d_str c; Some (mkFromItem l' o' f' a' c')
    | _ => None
    end.

  Definition d_grouping (x : sexp) : option (grouping exp) :=
    match x with
    | SList [SAtom "groupingElement"; t; s] =>
        do t' <- d_nstr t; do s' <- d_list (d_list dexp) s; Some (mkGrouping t' s')
    | _ => None
    end.

  Definition d_lock (x : sexp) : option lockc :=
    match x with
    | SList [SAtom "lockingClause"; s; o; w] =>
        do s' <- d_str s; do o' <- d_list d_str o; do w' <- d_str w; Some (mkLock s' o' w')
    | _ => None
    end.

  Definition d_outexp (tag : string) (x : sexp) : option (exp * string) :=
    match x with
    | SList [SAtom t; e; a] =>
        if String.eqb t tag then do e' <- dexp e; do a' <- d_str a; Some (e', a') else None
    | _ => None
    end.

  Definition d_parts (x : sexp) : option (parts exp) :=
    match x with
    | SList [SAtom "selectQueryParts"; di; don; js; ja; sl; fr; wh; gd; gb; hv; ob; li; off; lk] =>
        do di' <- d_bool di; do don' <- d_list dexp don; do js' <- d_ptr dexp js; do ja' <- d_str ja;
        do sl' <- d_list (d_outexp "outputExp") sl; do fr' <- d_list d_fromitem fr;
        do wh' <- d_list dexp wh; do gd' <- d_bool gd; do gb' <- d_list d_grouping gb;
        do hv' <- d_list dexp hv; do ob' <- d_list d_obc ob; do li' <- dexp li; do off' <- dexp off;
        do lk' <- d_lock lk;
        Some (mkParts di' don' js' ja' sl' fr' wh' gd' gb' hv' ob' li' off' lk')
    | _ => None
    end.

  Definition d_comb (x : sexp) : option (comb exp) :=
    match x with
    | SList [SAtom "selectCombination"; p; t; a] =>
        do p' <- d_parts p; do t' <- d_nstr t; do a' <- d_bool a; Some (mkComb p' t' a')
    | _ => None
    end.

  Definition d_wsearch (x : sexp) : option (wsearch exp) :=
    match x with
    | SList [SAtom "withQuerySearch"; t; b; s] =>
        do t' <- d_str t; do b' <- d_list dexp b; do s' <- d_str s; Some (mkWSearch t' b' s')
    | _ => None
    end.

  Definition d_withq (x : sexp) : option (withq exp) :=
    match x with
    | SList [SAtom "withQuery"; r; n; c; m; q; s] =>
        do r' <- d_bool r; do n' <- d_str n; do c' <- d_list d_str c; do m' <- d_ptr d_bool m;
        do q' <- dexp q; do s' <- d_ptr d_wsearch s; Some (mkWithq r' n' c' m' q' s')
    | _ => None
    end.

  Definition d_setitem (x : sexp) : option (string * exp) :=
    match x with
    | SList [SAtom "updateSetItem"; c; v] => do c' <- d_str c; do v' <- dexp v; Some (c', v')
    | _ => None
    end.

  Definition d_ctarget (x : sexp) : option exp :=
    match x with SList [SAtom "conflictTarget"; e] => dexp e | _ => None end.

  Definition d_ins (x : sexp) : option (insb exp) :=
    match x with
    | SList [SAtom "InsertBuilder"; w; t; a; cn; dv; vl; q; ct; ctw; cc; ca; cs; cw; r] =>
        do w' <- d_list d_withq w; do t' <- dexp t; do a' <- d_str a; do cn' <- d_list_opt d_str cn;
        do dv' <- d_bool dv; do vl' <- d_list_opt (d_list dexp) vl; do q' <- dexp q;
        do ct' <- d_list d_ctarget ct; do ctw' <- d_list dexp ctw; do cc' <- d_str cc; do ca' <- d_str ca;
        do cs' <- d_list d_setitem cs; do cw' <- d_list dexp cw;
        do r' <- d_list (d_outexp "returningItem") r;
        Some (mkIns w' t' a' cn' dv' vl' q' ct' ctw' cc' ca' cs' cw' r')
    | _ => None
    end.

  Definition d_upd (x : sexp) : option (updb exp) :=
    match x with
    | SList [SAtom "UpdateBuilder"; w; t; a; s; f; wh; r] =>
        do w' <- d_list d_withq w; do t' <- dexp t; do a' <- d_str a; do s' <- d_list d_setitem s;
        do f' <- d_list d_fromitem f; do wh' <- d_list dexp wh;
        do r' <- d_list (d_outexp "returningItem") r;
        Some (mkUpd w' t' a' s' f' wh' r')
    | _ => None
    end.

  Definition d_del (x : sexp) : option (delb exp) :=
    match x with
    | SList [SAtom "DeleteBuilder"; w; t; a; u; wh; r] =>
        do w' <- d_list d_withq w; do t' <- dexp t; do a' <- d_str a;
        do u' <- d_list d_fromitem u; do wh' <- d_list dexp wh;
        do r' <- d_list (d_outexp "returningItem") r;
        Some (mkDel w' t' a' u' wh' r')
    | _ => None
    end.

  Definition d_casecond (x : sexp) : option (exp * exp) :=
    match x with
    | SList [SAtom "caseCondition"; c; r] => do c' <- dexp c; do r' <- dexp r; Some (c', r')
    | _ => None
    end.

  Definition d_coldef (x : sexp) : option (string * string) :=
    match x with
    | SList [SAtom "funcColumnDefinition"; n; t] => do n' <- d_str n; do t' <- d_str t; Some (n', t')
    | _ => None
    end.

  Definition d_mapentry (x : sexp) : option (string * exp) :=
    match x with
    | SList [SAtom "mapEntry"; k; v] => do k' <- d_str k; do v' <- dexp v; Some (k', v')
    | _ => None
    end.

  Definition d_node (x : sexp) : option exp :=
    match x with
    | SAtom "nil" => Some ENil
    | SList [SAtom "ExpBase"; y] => do e <- dexp y; Some (EBase e)
    | SList [SAtom "argExp"; a] => do i <- d_any a; Some (EArg i)
    | SList [SAtom "bindExp"; n] => do n' <- d_str n; Some (EBind n')
    | SList [SAtom "Expressions"; l] => do l' <- d_list dexp l; Some (EExprs l')
    | SList [SAtom "IdentExp"; b; s] => do b' <- d_base b; do s' <- d_str s; Some (EIdent b' s')
    | SList [SAtom "expType"; s] => do s' <- d_str s; Some (EType s')
    | SList [SAtom "expStr"; s] => do s' <- d_str s; Some (EStr s')
    | SList [SAtom "expFloat"; s] => do s' <- d_float s; Some (EFloat s')
    | SList [SAtom "expInt"; s] => do s' <- d_int s; Some (EInt s')
    | SList [SAtom "expBool"; s] => do s' <- d_bool s; Some (EBool s')
    | SList [SAtom "expArray"; l] => do l' <- d_list dexp l; Some (EArray l')
    | SList [SAtom "expNull"] => Some ENull
    | SList [SAtom "expDefault"] => Some EDefault
    | SList [SAtom "expInterval"; s] => do s' <- d_str s; Some (EInterval s')
    | SList [SAtom "opExp"; l; o; r; u] =>
        do l' <- dexp l; do o' <- d_nstr o; do r' <- dexp r; do u' <- d_bool u; Some (EOp l' o' r' u')
    | SList [SAtom "unaryExp"; p; e; s; pr] =>
        do p' <- d_str p; do e' <- dexp e; do s' <- d_str s; do pr' <- d_int pr; Some (EUnary p' e' s' pr')
    | SList [SAtom "junctionExp"; l; o] => do l' <- d_list dexp l; do o' <- d_str o; Some (EJunction l' o')
    | SList [SAtom "inExp"; l; o; r] => do l' <- dexp l; do o' <- d_str o; do r' <- dexp r; Some (EIn l' o' r')
    | SList [SAtom "existsExp"; q] => do q' <- dexp q; Some (EExists q')
    | SList [SAtom "matchingExp"; l; r; o; e] =>
        do l' <- dexp l; do r' <- dexp r; do o' <- d_str o; do e' <- d_ptr d_int e; Some (EMatch l' r' o' e')
    | SList [SAtom "subqueryExp"; o; e] => do o' <- d_str o; do e' <- dexp e; Some (ESubq o' e')
    | SList [SAtom "CaseExp"; b; ex; cs; el] =>
        do b' <- d_base b; do ex' <- dexp ex; do cs' <- d_list d_casecond cs; do el' <- dexp el;
        Some (ECase b' ex' cs' el')
    | SList [SAtom "funcExp"; b; n; a] =>
        do b' <- d_base b; do n' <- d_str n; do a' <- d_list dexp a; Some (EFuncExp b' n' a')
    | SList [SAtom "FuncBuilder"; b; n; a; o; al; cd] =>
        do b' <- d_base b; do n' <- d_str n; do a' <- d_list dexp a; do o' <- d_bool o; do al' <- d_str al;
        do cd' <- d_list d_coldef cd; Some (EFunc b' n' a' o' al' cd')
    | SList [SAtom "AggExpBuilder"; b; n; d; a; ob; f; w] =>
        do b' <- d_base b; do n' <- d_str n; do d' <- d_bool d; do a' <- d_list dexp a;
        do ob' <- d_list d_obc ob; do f' <- d_list dexp f; do w' <- d_bool w;
        Some (EAgg b' n' d' a' ob' f' w')
    | SList [SAtom "JsonBuildObjectBuilder"; j; p] =>
        do j' <- d_bool j; do p' <- d_list d_mapentry p; Some (EJson j' p')
    | SList [SAtom "extractExp"; f; e] => do f' <- d_str f; do e' <- dexp e; Some (EExtract f' e')
    | SList [SAtom "SelectBuilder"; w; c; p] =>
        do w' <- d_list d_withq w; do c' <- d_list d_comb c; do p' <- d_parts p; Some (ESelect w' c' p')
    | SList (SAtom "InsertBuilder" :: _) => do b <- d_ins x; Some (EInsert b)
    | SList (SAtom "UpdateBuilder" :: _) => do b <- d_upd x; Some (EUpdate b)
    | SList (SAtom "DeleteBuilder" :: _) => do b <- d_del x; Some (EDelete b)
    | SList [SAtom "join"; t; l; f; a; o; u] =>
        do t' <- d_nstr t; do l' <- d_bool l; do f' <- dexp f; do a' <- d_str a; do o' <- dexp o;
        do u' <- d_list d_str u; Some (EJoin t' l' f' a' o' u')
    | SList [SAtom "RowsFromBuilder"; f; o] =>
        do f' <- d_list dexp f; do o' <- d_bool o; Some (ERowsFrom f' o')
    | SList [SAtom n; y] => if mem n select_wrappers then dexp y else None
    | _ => None
    end.
End Dec.

Fixpoint decode (fuel : nat) (x : sexp) : option exp :=
  match fuel with
  | O => None
  | S n => d_node (decode n) x
  end.

Definition decode_exp (x : sexp) : option exp := decode (S (sexp_size x)) x.
