(* Glue for the API-level correspondence (extracted): a canonical printer of values (structural equality of
   the model's and the implementation's result of one API call), the decoder of call arguments, and the
   comparison.  No theorem depends on this file. *)
From Coq Require Import String List Ascii ZArith NArith Bool.
From QRB Require Import Base.Bytes Model.W Model.Values Model.Compile Model.Sexp Model.Decode Model.Wfe Model.Api Model.ApiFacts Model.Ctor Model.CtorFacts.
Import ListNotations.
Local Open Scope string_scope.
Local Open Scope list_scope.

Local Notation exp := (Values.exp nat).

Definition jn (l : list string) : string := ("(" ++ String.concat " " l ++ ")")%string.
Definition es (s : string) : string := ("s" ++ hex s)%string.
Definition eb (b : bool) : string := if b then "T" else "F".
Definition el (f : exp -> string) (l : list exp) : string := jn (map f l).
Definition estrs (l : list string) : string := jn (map es l).

Definition enc_obc (f : exp -> string) (o : obc exp) := jn [f (ob_exp o); es (ob_order o); es (ob_nulls o)].
Definition enc_fi (f : exp -> string) (i : fromitem exp) :=
  jn [eb (fi_lateral i); eb (fi_only i); f (fi_from i); es (fi_alias i); estrs (fi_colaliases i)].
Definition enc_gr (f : exp -> string) (g : grouping exp) := jn [es (ge_type g); jn (map (el f) (ge_sets g))].
Definition enc_out (f : exp -> string) (l : list (exp * string)) := jn (map (fun x => jn [f (fst x); es (snd x)]) l).
Definition enc_set (f : exp -> string) (l : list (string * exp)) := jn (map (fun x => jn [es (fst x); f (snd x)]) l).
Definition enc_parts (f : exp -> string) (p : parts exp) :=
  jn [eb (p_distinct p); el f (p_distinctOn p); match p_json p with Some j => f j | None => "-" end; es (p_jsonAlias p);
      enc_out f (p_list p); jn (map (enc_fi f) (p_from p)); el f (p_where p); eb (p_gbDistinct p);
      jn (map (enc_gr f) (p_groupBys p)); el f (p_having p); jn (map (enc_obc f) (p_orderBys p)); f (p_limit p); f (p_offset p);
      jn [es (lk_strength (p_lock p)); estrs (lk_of (p_lock p)); es (lk_wait (p_lock p))]].
Definition enc_withq (f : exp -> string) (q : withq exp) :=
  jn [eb (wq_rec q); es (wq_name q); estrs (wq_cols q);
      match wq_mat q with Some b => eb b | None => "-" end; f (wq_query q);
      match wq_search q with Some s => jn [es (ws_type s); el f (ws_by s); es (ws_set s)] | None => "-" end].
Definition enc_withs (f : exp -> string) (l : list (withq exp)) := jn (map (enc_withq f) l).

Fixpoint enc (e : exp) {struct e} : string :=
  match e with
  | ENil => "nil"
  | EBase e' => jn ["B"; enc e']
  | EArg v => ("a" ++ nat_dec v)%string
  | EBind n => jn ["bind"; es n]
  | EExprs l => jn ["exprs"; el enc l]
  | EIdent _ s => jn ["id"; es s]                 (* the self handle is a copy of the value itself *)
  | EType s => jn ["ty"; es s]
  | EStr s => jn ["str"; es s]
  | EFloat t => jn ["fl"; es t]
  | EInt z => jn ["int"; z_dec z]
  | EBool b => jn ["bool"; eb b]
  | EArray l => jn ["arr"; el enc l]
  | ENull => "null"
  | EDefault => "default"
  | EInterval s => jn ["iv"; es s]
  | EOp l op r u => jn ["op"; enc l; es op; enc r; eb u]
  | EUnary p e' s prec => jn ["un"; es p; enc e'; es s; z_dec prec]
  | EJunction l op => jn ["junc"; el enc l; es op]
  | EIn l op r => jn ["in"; enc l; es op; enc r]
  | EExists q => jn ["exists"; enc q]
  | EMatch l r op esc => jn ["match"; enc l; enc r; es op; match esc with Some c => z_dec c | None => "-" end]
  | ESubq op e' => jn ["subq"; es op; enc e']
  | ECase _ ex conds els => jn ["case"; enc ex; jn (map (fun c => jn [enc (fst c); enc (snd c)]) conds); enc els]
  | EFuncExp _ name a => jn ["fexp"; es name; el enc a]
  | EFunc _ name a ord alias defs =>
      jn ["func"; es name; el enc a; eb ord; es alias; jn (map (fun d => jn [es (fst d); es (snd d)]) defs)]
  | EAgg _ name distinct a obs filter within =>
      jn ["agg"; es name; eb distinct; el enc a; jn (map (enc_obc enc) obs); el enc filter; eb within]
  | EJson isb props => jn ["json"; eb isb; enc_set enc props]
  | EExtract field from => jn ["extract"; es field; enc from]
  | ESelect w c p => jn ["select"; enc_withs enc w;
                         jn (map (fun b => jn [enc_parts enc (cb_parts b); es (cb_type b); eb (cb_all b)]) c); enc_parts enc p]
  | EInsert b =>
      jn ["insert"; enc_withs enc (i_with b); enc (i_table b); es (i_alias b);
          match i_cols b with Some l => estrs l | None => "-" end; eb (i_default b);
          match i_values b with Some rows => jn (map (el enc) rows) | None => "-" end; enc (i_query b);
          el enc (i_ctargets b); el enc (i_ctwhere b); es (i_cconstraint b); es (i_caction b); enc_set enc (i_cset b);
          el enc (i_cwhere b); enc_out enc (i_returning b)]
  | EUpdate b =>
      jn ["update"; enc_withs enc (u_with b); enc (u_table b); es (u_alias b); enc_set enc (u_set b);
          jn (map (enc_fi enc) (u_from b)); el enc (u_where b); enc_out enc (u_returning b)]
  | EDelete b =>
      jn ["delete"; enc_withs enc (d_with b); enc (d_table b); es (d_alias b); jn (map (enc_fi enc) (d_using b));
          el enc (d_where b); enc_out enc (d_returning b)]
  | EJoin jt lat from alias on us => jn ["join"; es jt; eb lat; enc from; es alias; enc on; estrs us]
  | ERowsFrom fns ord => jn ["rows"; el enc fns; eb ord]
  end.

(* ---------------------------------------------------------------- arguments *)
Definition d_all' {A} (f : sexp -> option A) (l : list sexp) : option (list A) :=
  fold_right (fun y acc => match f y, acc with Some a, Some r => Some (a :: r) | _, _ => None end) (Some []) l.

Definition d_exp_or_nil (x : sexp) : option exp :=
  match x with SAtom "nil" => Some ENil | _ => decode_exp x end.

Definition d_aarg (x : sexp) : option (aarg nat) :=
  match x with
  | SList [SAtom "exp"; e] => option_map (@AExp nat) (d_exp_or_nil e)
  | SList [SAtom "str"; s] => option_map (@AStr nat) (d_str s)
  | SList (SAtom "exps" :: l) => option_map (@AExps nat) (d_all' d_exp_or_nil l)
  | SList (SAtom "strs" :: l) => option_map (@AStrs nat) (d_all' d_str l)
  | SList (SAtom "expss" :: l) =>
      option_map (@AExpss nat)
        (d_all' (fun y => match y with SList ys => d_all' d_exp_or_nil ys | _ => None end) l)
  | SList (SAtom "map" :: l) =>
      option_map (@AMap nat)
        (d_all' (fun y => match y with
                                | SList [k; v] => match d_str k, d_any v with Some k', Some v' => Some (k', v') | _, _ => None end
                                | _ => None end) l)
  | SList [SAtom "any"; v] => option_map (@AAny nat) (d_any v)
  | SList (SAtom "anys" :: l) => option_map (@AAnys nat) (d_all' d_any l)
  | SList [SAtom "bool"; b] => option_map (@ABool nat) (d_bool b)
  | SList [SAtom "int"; z] => option_map (@AInt nat) (d_int z)
  | SList [SAtom "with"; sel] =>
      match d_exp_or_nil sel with Some (ESelect ws _ _) => Some (AWith ws) | _ => None end
  | _ => None
  end.

(* a WITH builder state travels as the dump of [w.Select()] (a select builder carrying exactly its queries) *)
Definition d_ws (x : sexp) : option (list (withq exp)) :=
  match d_exp_or_nil x with Some (ESelect ws _ _) => Some ws | _ => None end.
Definition d_wrecv (x : sexp) : option (wrecv nat) :=
  match x with
  | SList [SAtom "wb"; sel] => option_map (@WB nat) (d_ws sel)
  | SList [SAtom "wwb"; sel] => option_map (@WWB nat) (d_ws sel)
  | SList [SAtom "wsb"; sel; ty] => match d_ws sel, d_str ty with Some ws, Some t => Some (WSB ws t) | _, _ => None end
  | SList [SAtom "wsbb"; sel; ty; SList by_] =>
      match d_ws sel, d_str ty, d_all' d_exp_or_nil by_ with
      | Some ws, Some t, Some b => Some (WSBB ws t b) | _, _, _ => None end
  | _ => None
  end.
Definition is_wrecv (x : sexp) : bool :=
  match x with
  | SList (SAtom k :: _) => String.eqb k "wb" || String.eqb k "wwb" || String.eqb k "wsb" || String.eqb k "wsbb"
  | _ => false
  end.
Definition enc_wrecv (w : wrecv nat) : string :=
  match w with
  | WB ws => jn ["wb"; enc_withs enc ws]
  | WWB ws => jn ["wwb"; enc_withs enc ws]
  | WSB ws ty => jn ["wsb"; enc_withs enc ws; es ty]
  | WSBB ws ty b => jn ["wsbb"; enc_withs enc ws; es ty; el enc b]
  end.
Definition enc_ares (r : ares nat) : string := match r with RExp e => enc e | RWith w => enc_wrecv w end.
Definition d_ares (x : sexp) : option (ares nat) :=
  if is_wrecv x then option_map (@RWith nat) (d_wrecv x) else option_map (@RExp nat) (d_exp_or_nil x).

(* the model's result of one call: on a WITH builder state, at an entry point, or on a statement builder *)
Definition api_any (rtype meth : string) (recv : sexp) (a : list (aarg nat)) : option (option (ares nat)) :=
  if is_wrecv recv then option_map (fun w => api_with meth w a) (d_wrecv recv)
  else if String.eqb rtype "qrb" && (String.eqb meth "With" || String.eqb meth "WithRecursive")
  then Some (option_map (@RWith nat) (entry_with meth a))
  else if String.eqb rtype "ctor" then Some (option_map (@RExp nat) (ctor meth a))
  else if String.eqb rtype "meth" then option_map (fun r => option_map (@RExp nat) (Ctor.meth meth r a)) (d_exp_or_nil recv)
  else option_map (fun r => option_map (@RExp nat) (if String.eqb rtype "qrb" then entry meth a else api rtype meth r a))
                  (d_exp_or_nil recv).

(* ---------------------------------------------------------------- one API call: model vs implementation *)
Inductive api_verdict := ApiOk | ApiDiff (model impl : string) | ApiNone | ApiDecodeFail (what : string).

Definition api_or_entry (rtype meth : string) (r : exp) (a : list (aarg nat)) : option exp :=
  if String.eqb rtype "qrb" then entry meth a else api rtype meth r a.

(* the model's result of one call, for rendering *)
Definition api_result (rtype meth : string) (recv : sexp) (args : list sexp) : option exp :=
  match d_all' d_aarg args with
  | Some a => match api_any rtype meth recv a with Some (Some (RExp e)) => Some e | _ => None end
  | None => None
  end.

(* the hypotheses of C20_builder_call_preserves_wf / reachable, evaluated on one recorded call *)
Definition api_hyp (rtype meth : string) (recv : sexp) (args : list sexp) : option bool :=
  match d_all' d_aarg args with
  | Some a =>
      if is_wrecv recv then option_map (fun w => wr_ok nat w && forallb (aarg_wfe nat) a) (d_wrecv recv)
      else if String.eqb rtype "ctor" then Some (forallb (aarg_wfe nat) a)
      else if String.eqb rtype "meth" then option_map (fun r => hwf nat r && forallb (aarg_wfe nat) a) (d_exp_or_nil recv)
      else option_map (fun r => (String.eqb rtype "qrb" || wfe r) && forallb (aarg_wfe nat) a && query_okb nat (mkey rtype meth) a)
                      (d_exp_or_nil recv)
  | None => None
  end.

(* result = (SAtom "panic") when the implementation's call panicked *)
Definition api_check (rtype meth : string) (recv : sexp) (args : list sexp) (result : sexp) : api_verdict :=
  match d_all' d_aarg args with
  | Some a =>
      match api_any rtype meth recv a, result with
      | None, _ => ApiDecodeFail "receiver"
      | Some None, _ => ApiNone                 (* method not modelled, or the model says the call panics *)
      | Some (Some m), SAtom "panic" => ApiDiff (enc_ares m) "panic"
      | Some (Some m), _ =>
          match d_ares result with
          | Some res => if String.eqb (enc_ares m) (enc_ares res) then ApiOk else ApiDiff (enc_ares m) (enc_ares res)
          | None => ApiDecodeFail "result"
          end
      end
  | None => ApiDecodeFail "arguments"
  end.
