(* The JSON object builder: builder/immutable_slice_map.go (Set, Delete, clone, mutatingSet) and
   builder/json_build_object.go (Prop, PropIf, ApplyIf, Unset, Start / Prop / PropIf / End) as
   functions on the value universe, the abstract specification (an insertion-ordered map) and the
   refinement lemmas (C16). *)
From Coq Require Import String List Ascii Bool Lia.
From QRB Require Import Base.Bytes Model.W Model.Values Model.Compile.
Import ListNotations.

Section JsonMap.
  Variable T : Type.
  Notation smap := (list (string * T)).

  Definition has_key (k : string) (m : smap) : bool := existsb (fun e => String.eqb (fst e) k) m.

  (* immutableSliceMap.Set / mutatingSet: overwrite every entry with the key, else append *)
  Definition jset (m : smap) (k : string) (v : T) : smap :=
    if has_key k m then map (fun e => if String.eqb (fst e) k then (fst e, v) else e) m
    else m ++ [(k, v)].

  (* immutableSliceMap.Delete: remove the first entry with the key *)
  Fixpoint jdel (m : smap) (k : string) : smap :=
    match m with
    | [] => []
    | e :: r => if String.eqb (fst e) k then r else e :: jdel r k
    end.

  Definition keys (m : smap) : list string := map fst m.

  Fixpoint jget (m : smap) (k : string) : option T :=
    match m with
    | [] => None
    | e :: r => if String.eqb (fst e) k then Some (snd e) else jget r k
    end.

  Lemma has_key_In k m : has_key k m = true <-> In k (keys m).
  Proof.
    unfold has_key, keys. rewrite existsb_exists. split.
    - intros (e & He & Hk). apply String.eqb_eq in Hk. subst. now apply in_map.
    - intro H. apply in_map_iff in H. destruct H as (e & He & Hi). exists e. split; [assumption|].
      subst. apply String.eqb_refl.
  Qed.

  (* keys: set keeps the key list, or appends the new key; unset removes the key *)
  Lemma keys_jset m k v : keys (jset m k v) = if has_key k m then keys m else keys m ++ [k].
  Proof.
    unfold jset, keys. destruct (has_key k m).
    - rewrite map_map. apply map_ext. intro e. now destruct (String.eqb (fst e) k).
    - now rewrite map_app.
  Qed.

  Lemma keys_jdel m k : NoDup (keys m) -> keys (jdel m k) = filter (fun x => negb (String.eqb x k)) (keys m).
  Proof.
    induction m as [|e r IH]; cbn; [reflexivity|]. intro ND. inversion ND as [|? ? Hn ND']; subst.
    destruct (String.eqb (fst e) k) eqn:E; cbn.
    - apply String.eqb_eq in E. subst k. symmetry. clear IH ND ND'. induction r as [|x r IH]; cbn; [reflexivity|].
      destruct (String.eqb (fst x) (fst e)) eqn:E2.
      + apply String.eqb_eq in E2. exfalso. apply Hn. left. assumption.
      + cbn. f_equal. apply IH. intro K. apply Hn. now right.
    - f_equal. now apply IH.
  Qed.

  (* every key appears exactly once *)
  Lemma nodup_jset m k v : NoDup (keys m) -> NoDup (keys (jset m k v)).
  Proof.
    intro ND. rewrite keys_jset. destruct (has_key k m) eqn:E; [assumption|].
    assert (~ In k (keys m)) by (intro K; apply has_key_In in K; congruence).
    clear E. induction (keys m) as [|x l IH]; cbn; [constructor; [tauto|constructor]|].
    inversion ND; subst. constructor.
    - intro K. apply in_app_or in K. destruct K as [K|[K|[]]]; [tauto|subst; apply H; now left].
    - apply IH; [assumption|]. intro K. apply H. now right.
  Qed.

  Lemma nodup_jdel m k : NoDup (keys m) -> NoDup (keys (jdel m k)).
  Proof. intro ND. rewrite keys_jdel by assumption. now apply NoDup_filter. Qed.

  (* values: the latest value for the key, all other keys untouched *)
  Lemma jget_jset_same m k v : jget (jset m k v) k = Some v.
  Proof.
    unfold jset. destruct (has_key k m) eqn:E.
    - apply has_key_In in E. induction m as [|e r IH]; cbn in *; [tauto|].
      destruct (String.eqb (fst e) k) eqn:E2; cbn; rewrite E2; [reflexivity|].
      apply IH. destruct E as [E|E]; [|assumption]. subst. now rewrite String.eqb_refl in E2.
    - assert (jget m k = None).
      { clear v. induction m as [|e r IH]; cbn in *; [reflexivity|].
        apply orb_false_iff in E. destruct E as [E1 E2]. rewrite E1. now apply IH. }
      clear E. induction m as [|e r IH]; cbn in *; [now rewrite String.eqb_refl|].
      destruct (String.eqb (fst e) k); [discriminate|]. now apply IH.
  Qed.

  Lemma jget_jset_other m k v k' : k' <> k -> jget (jset m k v) k' = jget m k'.
  Proof.
    intro Hne. unfold jset. destruct (has_key k m).
    - induction m as [|e r IH]; cbn; [reflexivity|].
      destruct (String.eqb (fst e) k) eqn:E; cbn.
      + apply String.eqb_eq in E. rewrite E. destruct (String.eqb k k') eqn:E2.
        * apply String.eqb_eq in E2. congruence.
        * exact IH.
      + destruct (String.eqb (fst e) k'); [reflexivity|exact IH].
    - induction m as [|e r IH]; cbn.
      + destruct (String.eqb k k') eqn:E2; [apply String.eqb_eq in E2; congruence|reflexivity].
      + destruct (String.eqb (fst e) k'); [reflexivity|exact IH].
  Qed.

  Lemma jget_jdel_same m k : NoDup (keys m) -> jget (jdel m k) k = None.
  Proof.
    induction m as [|e r IH]; cbn; [reflexivity|]. intro ND. inversion ND as [|? ? Hn ND']; subst.
    destruct (String.eqb (fst e) k) eqn:E.
    - apply String.eqb_eq in E. subst k. clear IH ND ND'. induction r as [|x r IH]; cbn; [reflexivity|].
      destruct (String.eqb (fst x) (fst e)) eqn:E2.
      + apply String.eqb_eq in E2. exfalso. apply Hn. now left.
      + apply IH. intro K. apply Hn. now right.
    - cbn. rewrite E. now apply IH.
  Qed.

  Lemma jget_jdel_other m k k' : k' <> k -> jget (jdel m k) k' = jget m k'.
  Proof.
    intro Hne. induction m as [|e r IH]; cbn; [reflexivity|].
    destruct (String.eqb (fst e) k) eqn:E.
    - apply String.eqb_eq in E. destruct (String.eqb (fst e) k') eqn:E2; [|reflexivity].
      apply String.eqb_eq in E2. congruence.
    - cbn. destruct (String.eqb (fst e) k'); [reflexivity|exact IH].
  Qed.
End JsonMap.

Arguments jset {T}. Arguments jdel {T}. Arguments jget {T}. Arguments keys {T}. Arguments has_key {T}.

(* ---------------------------------------------------------------- the builder methods *)
Section JsonApi.
  Variable V : Type.
  Notation exp := (exp V).

  (* operations of a history; the batch form is Start, a list of (conditional) sets, End *)
  Inductive bop := BProp (k : string) (v : exp) | BPropIf (c : bool) (k : string) (v : exp).
  Inductive sop :=
  | SoProp (k : string) (v : exp)
  | SoPropIf (c : bool) (k : string) (v : exp)
  | SoUnset (k : string)
  | SoBatch (l : list bop).
  Inductive jop :=
  | JS (o : sop)
  | JApplyIf (c : bool) (l : list sop).      (* ApplyIf(c, func(b) { return b.<l> }) *)

  Record jobj := mkJ { j_isb : bool; j_props : list (string * exp) }.

  Definition j_prop (j : jobj) k v := mkJ (j_isb j) (jset (j_props j) k v).
  Definition j_unset (j : jobj) k := mkJ (j_isb j) (jdel (j_props j) k).
  Definition b_step (m : list (string * exp)) (o : bop) :=
    match o with
    | BProp k v => jset m k v
    | BPropIf c k v => if c then jset m k v else m
    end.
  (* Start() clones the entries, Prop / PropIf update the clone in place, End() hands out a copy *)
  Definition j_batch (j : jobj) (l : list bop) := mkJ (j_isb j) (fold_left b_step l (j_props j)).

  Definition s_step (j : jobj) (o : sop) : jobj :=
    match o with
    | SoProp k v => j_prop j k v
    | SoPropIf c k v => if c then j_prop j k v else j
    | SoUnset k => j_unset j k
    | SoBatch l => j_batch j l
    end.
  Definition j_step (j : jobj) (o : jop) : jobj :=
    match o with
    | JS o => s_step j o
    | JApplyIf c l => if c then fold_left s_step l j else j
    end.
  Definition j_run (j : jobj) (l : list jop) : jobj := fold_left j_step l j.

  Definition to_exp (j : jobj) : exp := EJson (j_isb j) (j_props j).

  (* the batch form is observationally the same sets applied one by one *)
  Definition unbatch (o : bop) : sop := match o with BProp k v => SoProp k v | BPropIf c k v => SoPropIf c k v end.

  Theorem batch_equiv j l : j_batch j l = fold_left s_step (map unbatch l) j.
  Proof.
    unfold j_batch. destruct j as [b m]. cbn [j_isb j_props]. revert m.
    induction l as [|o r IH]; intro m; cbn [fold_left map]; [reflexivity|].
    rewrite IH. f_equal. destruct o as [k v|c k v]; cbn; [reflexivity|now destruct c].
  Qed.

  (* the flavour chosen at creation is preserved by every operation *)
  Lemma flavour_batch j l : j_isb (j_batch j l) = j_isb j.
  Proof. reflexivity. Qed.

  Lemma flavour_s j o : j_isb (s_step j o) = j_isb j.
  Proof. destruct o as [k v|c k v|k|l]; cbn; try reflexivity. now destruct c. Qed.

  Lemma flavour_fold l : forall j, j_isb (fold_left s_step l j) = j_isb j.
  Proof. induction l as [|o r IH]; intro j; cbn [fold_left]; [reflexivity|]. now rewrite IH, flavour_s. Qed.

  Theorem flavour_preserved l : forall j, j_isb (j_run j l) = j_isb j.
  Proof.
    unfold j_run. induction l as [|o r IH]; intro j; cbn [fold_left]; [reflexivity|]. rewrite IH.
    destruct o as [o|c ops]; cbn; [apply flavour_s|]. destruct c; [apply flavour_fold|reflexivity].
  Qed.

  (* every key appears exactly once, after any history *)
  Lemma nodup_b m o : NoDup (keys m) -> NoDup (keys (b_step m o)).
  Proof. destruct o as [k v|c k v]; cbn; intro H; [now apply nodup_jset|destruct c; [now apply nodup_jset|assumption]]. Qed.

  Lemma nodup_s j o : NoDup (keys (j_props j)) -> NoDup (keys (j_props (s_step j o))).
  Proof.
    destruct o as [k v|c k v|k|l]; cbn; intro H.
    - now apply nodup_jset.
    - destruct c; cbn; [now apply nodup_jset|assumption].
    - now apply nodup_jdel.
    - revert H. generalize (j_props j). induction l as [|o r IH]; intros m H; cbn [fold_left]; [assumption|].
      apply IH. now apply nodup_b.
  Qed.

  Lemma nodup_fold l : forall j, NoDup (keys (j_props j)) -> NoDup (keys (j_props (fold_left s_step l j))).
  Proof. induction l as [|o r IH]; intros j H; cbn [fold_left]; [assumption|]. apply IH. now apply nodup_s. Qed.

  Theorem keys_unique l : forall j, NoDup (keys (j_props j)) -> NoDup (keys (j_props (j_run j l))).
  Proof.
    unfold j_run. induction l as [|o r IH]; intros j H; cbn [fold_left]; [assumption|]. apply IH.
    destruct o as [o|c ops]; cbn; [now apply nodup_s|]. destruct c; [now apply nodup_fold|assumption].
  Qed.

  (* conditional helpers are exactly if/else (also used by C19) *)
  Lemma propif_true j k v : s_step j (SoPropIf true k v) = s_step j (SoProp k v).
  Proof. reflexivity. Qed.
  Lemma propif_false j k v : s_step j (SoPropIf false k v) = j.
  Proof. reflexivity. Qed.
  Lemma applyif_true j l : j_step j (JApplyIf true l) = fold_left s_step l j.
  Proof. reflexivity. Qed.
  Lemma applyif_false j l : j_step j (JApplyIf false l) = j.
  Proof. reflexivity. Qed.

  (* SelectBuilder.ApplySelectJson: take the current object (or the empty json object), apply, store *)
  Definition select_apply_json (cur : option exp) (l : list jop) : option exp :=
    let j := match cur with
             | Some (EJson b m) => mkJ b m
             | _ => mkJ false []
             end in
    Some (to_exp (j_run j l)).
End JsonApi.

Arguments BProp {V}. Arguments BPropIf {V}. Arguments SoProp {V}. Arguments SoPropIf {V}. Arguments SoUnset {V}.
Arguments SoBatch {V}. Arguments JS {V}. Arguments JApplyIf {V}. Arguments mkJ {V}. Arguments j_isb {V}.
Arguments j_props {V}. Arguments j_run {V}. Arguments to_exp {V}. Arguments j_step {V}. Arguments s_step {V}.
Arguments j_batch {V}. Arguments select_apply_json {V}.
