(* C09 at the level of values: every sub-expression of a value that the grammar has a slot for is written,
   so every name and cast type in it is visited by validation. *)
From Coq Require Import String List Ascii ZArith Bool.
From QRB Require Import Base.Bytes Model.W Model.WInd Model.WValid Model.Values Model.Compile Model.XExp Model.XExpFacts Model.Frame.
Import ListNotations.
Local Open Scope string_scope.
Local Open Scope list_scope.

Section Reach.
  Variable V : Type.
  Notation exp := (exp V).
  Notation W := (W V).
  Notation compile := (@compile V).
  Notation wflat := (@wflat V).

  (* a written sub-expression: by its own WriteSQL (inl) or as the parenthesis-free query of INSERT (inr) *)
  Definition wleaves (c : exp + exp) : list W :=
    match c with inl e => wflat (compile e) | inr q => wflat (select_inner V q) end.

  Inductive Sub : list W -> list (exp + exp) -> Prop :=
  | S_nil : Sub [] []
  | S_skip k l cs : Sub l cs -> Sub (k :: l) cs
  | S_child c l cs : Sub l cs -> Sub (wleaves c ++ l) (c :: cs).

  Lemma Sub_app a ca b cb : Sub a ca -> Sub b cb -> Sub (a ++ b) (ca ++ cb).
  Proof.
    induction 1 as [|k l cs _ IH|c l cs _ IH]; intro Hb; cbn [app]; [assumption| |].
    - apply S_skip. now apply IH.
    - rewrite <- app_assoc. apply S_child. now apply IH.
  Qed.
  Lemma Sub_skips l : Sub l [].
  Proof. induction l; constructor; assumption. Qed.

  Definition part_child (p : part V) : list (exp + exp) :=
    match p with PExp _ e => [inl e] | PInner _ q => [inr q] | PName _ _ => [] end.
  Lemma Frame_Sub l ps : Frame V l ps -> Sub l (flat_map part_child ps).
  Proof.
    induction 1 as [|k l ps _ _ IH|p l ps _ IH]; cbn [flat_map]; [constructor|now apply S_skip|].
    destruct p as [e|q|s]; cbn [part_child pleaves app].
    - now apply (S_child (inl e)).
    - now apply (S_child (inr q)).
    - now apply S_skip.
  Qed.

  Definition SubW (w : W) (cs : list (exp + exp)) : Prop := Sub (wflat w) cs.
  Lemma sw_eq w cs cs' : SubW w cs' -> cs' = cs -> SubW w cs. Proof. now intros H <-. Qed.
  Lemma sw_leaf w : (forall l, w <> WSeq l) -> SubW w [].
  Proof. intros _. apply Sub_skips. Qed.
  Lemma sw_any w : SubW w []. Proof. apply Sub_skips. Qed.
  Lemma sw_exp e : SubW (compile e) [inl e].
  Proof. unfold SubW. rewrite <- (app_nil_r (wflat (compile e))). apply (S_child (inl e)). constructor. Qed.
  Lemma sw_seq_nil : SubW (WSeq []) []. Proof. constructor. Qed.
  Lemma sw_seq_cons a r ca cr : SubW a ca -> SubW (WSeq r) cr -> SubW (WSeq (a :: r)) (ca ++ cr).
  Proof. unfold SubW. rewrite !(wflat_seq V). cbn [flat_map]. apply Sub_app. Qed.
  Lemma sw_when (b : bool) l cs : SubW (WSeq l) cs -> SubW (when V b l) (if b then cs else []).
  Proof. destruct b; cbn [when]; [trivial|intros _; apply sw_seq_nil]. Qed.
  Lemma sw_paren (b : bool) w cs : SubW w cs -> SubW (paren_if V b w) cs.
  Proof.
    destruct b; cbn [paren_if]; [|trivial]. intro H.
    apply (sw_eq _ _ ([] ++ cs ++ [] ++ [])); [|now rewrite !app_nil_r].
    apply sw_seq_cons; [apply sw_any|]. apply sw_seq_cons; [exact H|]. apply sw_seq_cons; [apply sw_any|apply sw_seq_nil].
  Qed.
  Lemma sw_sep_by (sep : W) (ws : list W) (css : list (list (exp + exp))) :
    Forall2 SubW ws css -> SubW (WSeq (sep_by sep ws)) (concat css).
  Proof.
    intro H. induction H as [|w cs ws' css' Hw Hr IH]; [apply sw_seq_nil|].
    destruct ws' as [|w2 ws2].
    - inversion Hr; subst. cbn [sep_by concat]. apply sw_seq_cons; [exact Hw|apply sw_seq_nil].
    - change (sep_by sep (w :: w2 :: ws2)) with (w :: sep :: sep_by sep (w2 :: ws2)). cbn [concat].
      apply sw_seq_cons; [exact Hw|]. apply (sw_seq_cons sep _ [] _ (sw_any sep) IH).
  Qed.
  Lemma sw_list {A} (sep : W) (g : A -> W) (pg : A -> list (exp + exp)) (l : list A) :
    (forall x, SubW (g x) (pg x)) -> SubW (WSeq (sep_by sep (map g l))) (flat_map pg l).
  Proof.
    intro H. rewrite flat_map_concat_map. apply sw_sep_by.
    induction l as [|x r IH]; cbn [map]; constructor; [apply H|exact IH].
  Qed.
  Lemma sw_seq_map {A} (g : A -> W) (pg : A -> list (exp + exp)) (l : list A) :
    (forall x, SubW (g x) (pg x)) -> SubW (WSeq (map g l)) (flat_map pg l).
  Proof.
    intro H. induction l as [|x r IH]; cbn [map flat_map]; [apply sw_seq_nil|]. apply sw_seq_cons; [apply H|exact IH].
  Qed.
  Lemma map_flat' {A} (f : A -> exp + exp) (l : list A) : map f l = flat_map (fun x => [f x]) l.
  Proof. induction l as [|x r IH]; cbn; congruence. Qed.

  Definition inls (l : list exp) : list (exp + exp) := map inl l.

  Lemma sw_args l : SubW (c_args V compile l) (inls l).
  Proof. unfold c_args, inls. rewrite map_flat'. apply sw_list. intro; apply sw_exp. Qed.
  Lemma sw_junction l op : SubW (c_junction V compile l op) (inls l).
  Proof.
    unfold c_junction, inls. destruct l as [|x [|y r]].
    - apply sw_seq_nil.
    - apply sw_exp.
    - rewrite map_flat'. apply sw_list. intro e. apply sw_paren, sw_exp.
  Qed.
  Lemma sw_obc o : SubW (c_obc V compile o) [inl (ob_exp o)].
  Proof. unfold c_obc. apply (sw_eq _ _ ([inl (ob_exp o)] ++ [] ++ [] ++ [])); [|reflexivity].
    apply sw_seq_cons; [apply sw_exp|]. apply sw_seq_cons; [apply sw_any|]. apply sw_seq_cons; [apply sw_any|apply sw_seq_nil]. Qed.

  (* ------------------------------------------------------------------ the written children of a value *)
  (* every sub-expression for which the statement / expression has a slot (for the four statement kinds: the
     expression parts of Frame.stmt_parts; the ORDER BY / LIMIT / OFFSET of a set-operation branch is not among
     them - finding D5) *)
  Definition wchildren (e : exp) : list (exp + exp) :=
    match e with
    | EBase e' | EExists e' | ESubq _ e' | EUnary _ e' _ _ | EExtract _ e' => [inl e']
    | EExprs l | EArray l | EJunction l _ | EFuncExp _ _ l | EFunc _ _ l _ _ _ | ERowsFrom l _ => inls l
    | EOp l _ r _ | EIn l _ r | EMatch l r _ _ => [inl l; inl r]
    | ECase _ ex conds els => (if is_nil ex then [] else [inl ex]) ++ flat_map (fun c => [inl (fst c); inl (snd c)]) conds ++
                              (if is_nil els then [] else [inl els])
    | EAgg _ _ _ a obs filter _ => inls a ++ inls (map (@ob_exp exp) obs) ++ inls filter
    | EJson _ props => inls (map snd props)
    | ESelect w c p => flat_map part_child (parts_select V w c p)
    | EInsert b => flat_map part_child (parts_insert V b)
    | EUpdate b => flat_map part_child (parts_update V b)
    | EDelete b => flat_map part_child (parts_delete V b)
    | EJoin _ _ from _ on _ => inl from :: (if is_nil on then [] else [inl on])
    | _ => []
    end.

  Ltac sw := repeat first [ apply sw_seq_nil | apply sw_exp | apply sw_args | apply sw_junction
                          | eapply sw_seq_cons | eapply sw_when | eapply sw_paren | apply sw_any ].
  Ltac leq := repeat match goal with |- context [if ?b then _ else _] => destruct b end;
              cbn [app]; rewrite ?app_nil_r, <- ?app_assoc; reflexivity.

  Lemma sw_around a b w cs : SubW w cs -> SubW (WSeq [a; w; b]) cs.
  Proof. intro H. apply (sw_eq _ _ ([] ++ cs ++ [] ++ [])); [|now rewrite !app_nil_r].
    apply sw_seq_cons; [apply sw_any|]. apply sw_seq_cons; [exact H|]. apply sw_seq_cons; [apply sw_any|apply sw_seq_nil]. Qed.
  Lemma sw_parens w cs : SubW w cs -> SubW (WSeq [WKw "("; w; WKw ")"]) cs.
  Proof. intro H. apply (sw_eq _ _ ([] ++ cs ++ [] ++ [])); [|now rewrite !app_nil_r].
    apply sw_seq_cons; [apply sw_any|]. apply sw_seq_cons; [exact H|]. apply sw_seq_cons; [apply sw_any|apply sw_seq_nil]. Qed.

  Theorem children_written (e : exp) : SubW (compile e) (wchildren e).
  Proof.
    destruct e; cbn [wchildren].
    all: try (apply sw_any).
    - (* EBase *) change (compile (EBase e)) with (compile e). apply sw_exp.
    - (* EExprs *) apply (sw_parens (c_args V compile l)), sw_args.
    - (* EArray *) apply (sw_around (WKw "ARRAY[") (WKw "]") (c_args V compile l)), sw_args.
    - (* EOp *) rewrite (compile_EOp V). eapply sw_eq; [sw|]. leq.
    - (* EUnary *) rewrite (compile_EUnary V). eapply sw_eq; [sw|]. leq.
    - (* EJunction *) rewrite (compile_EJunction V). apply sw_junction.
    - (* EIn *) rewrite (compile_EIn V). eapply sw_eq; [sw|]. leq.
    - (* EExists *) change (compile (EExists e)) with (WSeq [WKw "EXISTS "; compile e]). eapply sw_eq; [sw|]. leq.
    - (* EMatch *) rewrite (compile_EMatch V). eapply sw_eq; [sw|]. leq.
    - (* ESubq *)
      match goal with |- SubW (compile (ESubq ?op ?e)) _ =>
        change (compile (ESubq op e)) with (WSeq [WKw op; WKw " "; paren_if V (negb (is_select e)) (compile e)]) end.
      eapply sw_eq; [sw|]. leq.
    - (* ECase *)
      match goal with |- SubW (compile (ECase ?self ?expr ?conds ?els)) _ =>
        change (compile (ECase self expr conds els)) with
          (WSeq [WKw "CASE"; when V (negb (is_nil expr)) [WKw " "; compile expr]; when V (negb (nonnil conds)) [WErrV EkNoCond];
                 WSeq (map (fun c => WSeq [WKw " WHEN "; compile (fst c); WKw " THEN "; compile (snd c)]) conds);
                 when V (negb (is_nil els)) [WKw " ELSE "; compile els]; WKw " END"]);
        eapply sw_eq;
        [ eapply sw_seq_cons; [apply sw_any|]; eapply sw_seq_cons; [eapply sw_when; sw|];
          eapply sw_seq_cons; [apply sw_any|];
          eapply sw_seq_cons; [apply (sw_seq_map _ (fun c => [inl (fst c); inl (snd c)])); intro c; eapply sw_eq; [sw|reflexivity]|];
          eapply sw_seq_cons; [eapply sw_when; sw|]; sw
        | destruct (is_nil expr), (is_nil els); cbn [negb app]; rewrite ?app_nil_r; reflexivity ]
      end.
    - (* EFuncExp *)
      match goal with |- SubW (compile (EFuncExp ?self ?name ?a)) _ =>
        change (compile (EFuncExp self name a)) with (WSeq [WRaw name; WKw "("; c_args V compile a; WKw ")"]) end.
      eapply sw_eq; [sw|]. leq.
    - (* EFunc *)
      match goal with |- SubW (compile (EFunc ?self ?name ?a ?ord ?alias ?coldefs)) _ =>
        set (head := [WRaw name; WKw "("; c_args V compile a; WKw ")"; when V ord [WKw " WITH ORDINALITY"];
                      when V (nonempty alias) [WKw " AS "; WRaw alias]] : list W);
        assert (Hh : SubW (WSeq head) (inls a)) by
          (unfold head; eapply sw_eq; [sw|]; destruct ord, (nonempty alias); cbn [app]; now rewrite ?app_nil_r);
        change (compile (EFunc self name a ord alias coldefs)) with
          (if nonnil coldefs then
             if ord then WSeq (head ++ [WErr EkOrdCols])
             else WSeq (head ++ [when V (negb (nonempty alias)) [WKw " AS"]; WKw " (";
                                 WSeq (sep_by (WKw ",") (map (fun d => WSeq [WRaw (fst d); WKw " "; WRaw (snd d)]) coldefs));
                                 WKw ")"])
           else WSeq head);
        destruct (nonnil coldefs); [destruct ord|]
      end.
      + rewrite <- (app_nil_r (inls _)).
        unfold SubW in *. rewrite (wflat_seq V), flat_map_app, <- (wflat_seq V). apply Sub_app; [exact Hh|apply Sub_skips].
      + rewrite <- (app_nil_r (inls _)).
        unfold SubW in *. rewrite (wflat_seq V), flat_map_app, <- (wflat_seq V). apply Sub_app; [exact Hh|apply Sub_skips].
      + exact Hh.
    - (* EAgg *)
      match goal with |- SubW (compile (EAgg ?self ?name ?distinct ?a ?obs ?filter ?within)) _ =>
        change (compile (EAgg self name distinct a obs filter within)) with
          (WSeq [WRaw name; WKw "("; when V distinct [WKw "DISTINCT "]; c_args V compile a;
                 when V (negb within && nonnil obs) [WKw " ORDER BY "; WSeq (sep_by (WKw ",") (map (c_obc V compile) obs))];
                 WKw ")";
                 when V within [WKw " WITHIN GROUP (ORDER BY "; WSeq (sep_by (WKw ",") (map (c_obc V compile) obs)); WKw ")"];
                 when V (nonnil filter) [WKw " FILTER (WHERE "; c_junction V compile filter "AND"; WKw ")"]]);
        assert (Ho : SubW (WSeq (sep_by (WKw ",") (map (c_obc V compile) obs))) (inls (map (@ob_exp exp) obs)))
          by (unfold inls; rewrite map_map, map_flat'; apply sw_list; intro; apply sw_obc);
        eapply sw_eq;
        [ eapply sw_seq_cons; [apply sw_any|]; eapply sw_seq_cons; [apply sw_any|]; eapply sw_seq_cons; [apply sw_any|];
          eapply sw_seq_cons; [apply sw_args|];
          eapply sw_seq_cons; [eapply sw_when; eapply sw_seq_cons; [apply sw_any|]; eapply sw_seq_cons; [exact Ho|apply sw_seq_nil]|];
          eapply sw_seq_cons; [apply sw_any|];
          eapply sw_seq_cons; [eapply sw_when; eapply sw_seq_cons; [apply sw_any|]; eapply sw_seq_cons; [exact Ho|]; sw|];
          eapply sw_seq_cons; [eapply sw_when; eapply sw_seq_cons; [apply sw_any|]; eapply sw_seq_cons; [apply sw_junction|]; sw|];
          apply sw_seq_nil
        | destruct within, obs, filter; cbn [negb andb nonnil app inls map]; rewrite ?app_nil_r; reflexivity ]
      end.
    - (* EJson *)
      match goal with |- SubW (compile (EJson ?isb ?props)) _ =>
        change (compile (EJson isb props)) with
          (WSeq [WKw (if isb then "jsonb_build_object(" else "json_build_object(");
                 WSeq (sep_by (WKw ",") (map (fun kv => WSeq [WLit (fst kv); WKw ","; compile (snd kv)]) props)); WKw ")"]);
        apply sw_around; unfold inls; rewrite map_map, map_flat'; apply sw_list; intro kv; eapply sw_eq; [sw|reflexivity]
      end.
    - (* EExtract *)
      match goal with |- SubW (compile (EExtract ?field ?from)) _ =>
        change (compile (EExtract field from)) with (WSeq [WKw "EXTRACT("; WRaw field; WKw " FROM "; compile from; WKw ")"]) end.
      eapply sw_eq; [sw|]. leq.
    - (* ESelect *)
      match goal with |- SubW (compile (ESelect ?w ?c ?p)) _ =>
        change (compile (ESelect w c p)) with (WSeq [WKw "("; c_select_inner V compile w c p; WKw ")"]);
        apply sw_around; apply Frame_Sub; apply fw_select_inner end.
    - (* EInsert *)
      match goal with |- SubW (compile (EInsert ?b)) _ =>
        change (compile (EInsert b)) with (WSeq [WKw "("; c_insert_inner V compile (select_inner V) b; WKw ")"]);
        apply sw_around; apply Frame_Sub; apply fw_insert end.
    - (* EUpdate *)
      match goal with |- SubW (compile (EUpdate ?b)) _ =>
        change (compile (EUpdate b)) with (WSeq [WKw "("; c_update_inner V compile b; WKw ")"]);
        apply sw_around; apply Frame_Sub; apply fw_update end.
    - (* EDelete *)
      match goal with |- SubW (compile (EDelete ?b)) _ =>
        change (compile (EDelete b)) with (c_delete V compile b); apply Frame_Sub; apply fw_delete end.
    - (* EJoin *)
      match goal with |- SubW (compile (EJoin ?jt ?lateral ?from ?alias ?on ?usingc)) _ =>
        change (compile (EJoin jt lateral from alias on usingc)) with
          (WSeq [WKw jt; when V lateral [WKw " LATERAL"]; WKw " "; compile from; when V (nonempty alias) [WKw " AS "; WRaw alias];
                 if negb (is_nil on) then WSeq [WKw " ON "; compile on]
                 else when V (nonnil usingc) [WKw " USING ("; raws V ", " usingc; WKw ")"]]);
        eapply sw_eq;
        [ eapply sw_seq_cons; [apply sw_any|]; eapply sw_seq_cons; [apply sw_any|]; eapply sw_seq_cons; [apply sw_any|];
          eapply sw_seq_cons; [apply sw_exp|]; eapply sw_seq_cons; [apply sw_any|];
          eapply sw_seq_cons; [|apply sw_seq_nil];
          instantiate (1 := if is_nil on then [] else [inl on]);
          destruct (is_nil on); cbn [negb]; [apply sw_any|eapply sw_eq; [sw|reflexivity]]
        | cbn [app]; now rewrite ?app_nil_r ]
      end.
    - (* ERowsFrom *)
      match goal with |- SubW (compile (ERowsFrom ?fns ?ord)) _ =>
        change (compile (ERowsFrom fns ord)) with
          (WSeq [WKw "ROWS FROM ("; c_args V compile fns; WKw ")"; when V ord [WKw " WITH ORDINALITY"]]) end.
      eapply sw_eq; [sw|]. leq.
  Qed.

  (* ------------------------------------------------------------------ names and types of written children are visited *)
  Definition leaf_ids (w : W) : list string := match w with WIdent s => [s] | _ => [] end.
  Definition leaf_tys (w : W) : list string := match w with WType s => [s] | _ => [] end.
  Definition lids (l : list W) : list string := flat_map leaf_ids l.
  Definition ltys (l : list W) : list string := flat_map leaf_tys l.

  Lemma idents_flat (w : W) : idents V w = lids (wflat w).
  Proof.
    induction w as [t|t|t|t|v|n|t|t|k|k|pk|l IH|] using W_ind'; try reflexivity.
    rewrite idents_seq, (wflat_seq V). unfold lids. induction IH as [|x r Hx _ IHr]; cbn [flat_map]; [reflexivity|].
    now rewrite flat_map_app, <- IHr, Hx.
  Qed.
  Lemma wtypes_flat (w : W) : wtypes V w = ltys (wflat w).
  Proof.
    induction w as [t|t|t|t|v|n|t|t|k|k|pk|l IH|] using W_ind'; try reflexivity.
    rewrite wtypes_seq, (wflat_seq V). unfold ltys. induction IH as [|x r Hx _ IHr]; cbn [flat_map]; [reflexivity|].
    now rewrite flat_map_app, <- IHr, Hx.
  Qed.

  Lemma Sub_incl (f : W -> list string) l cs :
    Sub l cs -> forall c, In c cs -> incl (flat_map f (wleaves c)) (flat_map f l).
  Proof.
    induction 1 as [|k l cs _ IH|c0 l cs _ IH]; intros c Hc.
    - destruct Hc.
    - cbn [flat_map]. intros x Hx. apply in_or_app. right. now apply (IH c Hc).
    - rewrite flat_map_app. intros x Hx. apply in_or_app. destruct Hc as [<-|Hc]; [now left|right; now apply (IH c Hc)].
  Qed.

  (* the parenthesis-free form of a select writes the same names *)
  Lemma inner_same q : is_select q = true ->
    lids (wflat (select_inner V q)) = lids (wflat (compile q)) /\ ltys (wflat (select_inner V q)) = ltys (wflat (compile q)).
  Proof.
    destruct q; try discriminate. intros _.
    match goal with |- context [compile (ESelect ?w ?c ?p)] =>
      change (compile (ESelect w c p)) with (WSeq [WKw "("; c_select_inner V compile w c p; WKw ")"]);
      change (select_inner V (ESelect w c p)) with (c_select_inner V compile w c p) end.
    rewrite (wflat_seq V). cbn [flat_map XExp.wflat]. unfold lids, ltys.
    rewrite !flat_map_app. cbn [flat_map leaf_ids leaf_tys app]. now rewrite !app_nil_r.
  Qed.

  (* d is written inside e: a chain of written children *)
  Inductive reaches : exp -> exp -> Prop :=
  | r_refl e : reaches e e
  | r_child e c d : In (inl c) (wchildren e) -> reaches c d -> reaches e d
  | r_query e q d : In (inr q) (wchildren e) -> is_select q = true -> reaches q d -> reaches e d.

  Theorem reached_names_visited e d :
    reaches e d ->
    incl (idents V (compile d)) (idents V (compile e)) /\ incl (wtypes V (compile d)) (wtypes V (compile e)).
  Proof.
    induction 1 as [e|e c d Hc _ IH|e q d Hq Hs _ IH]; [split; apply incl_refl| |].
    - destruct IH as [I T]. rewrite !idents_flat, !wtypes_flat in *.
      pose proof (children_written e) as S. unfold SubW in S.
      split; (eapply incl_tran; [eassumption|]).
      + exact (Sub_incl leaf_ids _ _ S (inl c) Hc).
      + exact (Sub_incl leaf_tys _ _ S (inl c) Hc).
    - destruct IH as [I T]. rewrite !idents_flat, !wtypes_flat in *.
      pose proof (children_written e) as S. unfold SubW in S. destruct (inner_same q Hs) as [E1 E2].
      split; (eapply incl_tran; [eassumption|]).
      + unfold lids in *. rewrite <- E1. exact (Sub_incl leaf_ids _ _ S (inr q) Hq).
      + unfold ltys in *. rewrite <- E2. exact (Sub_incl leaf_tys _ _ S (inr q) Hq).
  Qed.

  (* the top-level form of a statement (no sub-select parentheses) visits the same names *)
  Lemma top_same e : idents V (compile_top e) = idents V (compile e) /\ wtypes V (compile_top e) = wtypes V (compile e).
  Proof.
    destruct e; try (split; reflexivity).
    - destruct (inner_same (ESelect w c p) eq_refl) as [A B]. now rewrite !idents_flat, !wtypes_flat.
    - match goal with |- context [compile (EInsert ?b)] =>
        change (compile (EInsert b)) with (WSeq [WKw "("; c_insert_inner V compile (select_inner V) b; WKw ")"]);
        change (compile_top (EInsert b)) with (c_insert_inner V compile (select_inner V) b) end.
      rewrite !idents_flat, !wtypes_flat, (wflat_seq V). cbn [flat_map XExp.wflat]. unfold lids, ltys.
      rewrite !flat_map_app. cbn [flat_map leaf_ids leaf_tys app]. now rewrite !app_nil_r.
    - match goal with |- context [compile (EUpdate ?b)] =>
        change (compile (EUpdate b)) with (WSeq [WKw "("; c_update_inner V compile b; WKw ")"]);
        change (compile_top (EUpdate b)) with (c_update_inner V compile b) end.
      rewrite !idents_flat, !wtypes_flat, (wflat_seq V). cbn [flat_map XExp.wflat]. unfold lids, ltys.
      rewrite !flat_map_app. cbn [flat_map leaf_ids leaf_tys app]. now rewrite !app_nil_r.
  Qed.

  (* every name written anywhere inside the value is among the visited ones of the rendering *)
  Corollary reached_name_in_rendering e self s :
    reaches e (EIdent self s) -> In s (idents V (compile_top e)).
  Proof.
    intro H. destruct (reached_names_visited _ _ H) as [I _]. destruct (top_same e) as [-> _]. apply I. now left.
  Qed.
  Corollary reached_type_in_rendering e s :
    reaches e (EType s) -> In s (wtypes V (compile_top e)).
  Proof.
    intro H. destruct (reached_names_visited _ _ H) as [_ T]. destruct (top_same e) as [_ ->]. apply T. now left.
  Qed.
End Reach.
