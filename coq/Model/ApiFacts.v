(* Facts about the API model: every modelled builder method maps well-formed values and non-nil arguments to
   well-formed values (so no value built through them can make the renderer panic), and the composition laws
   C01 appeals to (conditions accumulate in call order, the last call of a single-valued option wins, an
   alias goes to the item added last). *)
From Coq Require Import String List Ascii ZArith Bool Lia.
From QRB Require Import Base.Bytes Model.W Model.Values Model.Compile Model.Wfe Model.Api.
Import ListNotations.
Local Open Scope string_scope.
Local Open Scope list_scope.

Section Facts.
  Variable V : Type.
  Notation exp := (exp V).
  Notation wfe := (@wfe V).

  Definition aarg_wfe (a : aarg V) : bool :=
    match a with
    | AExp e => wfe e
    | AExps l => forallb wfe l
    | AExpss l => forallb (forallb wfe) l
    | AStr _ | AStrs _ | AMap _ | AAny _ | AAnys _ | ABool _ | AInt _ => true
    | AWith ws => forallb (withq_b V wfe) ws
    end.

  (* the argument of InsertBuilder.Query is a SelectExp: only select builders implement it *)
  Definition query_ok (key : string) (args : list (aarg V)) : Prop :=
    key = "Query" -> forall q, args = [AExp q] -> is_select q = true.

  Definition H_ok (kh : string * (list (aarg V) -> option exp)) : Prop :=
    forall args r, forallb aarg_wfe args = true -> query_ok (fst kh) args -> snd kh args = Some r -> wfe r = true.

  Lemma wfe_select w c p : wfe (ESelect w c p) = forallb (withq_b V wfe) w && forallb (comb_b V wfe) c && parts_b V wfe p.
  Proof. reflexivity. Qed.
  Lemma wfe_insert b : wfe (EInsert b) = ins_b V wfe b. Proof. reflexivity. Qed.
  Lemma wfe_update b : wfe (EUpdate b) = upd_b V wfe b. Proof. reflexivity. Qed.
  Lemma wfe_delete b : wfe (EDelete b) = del_b V wfe b. Proof. reflexivity. Qed.
  Lemma wfe_join jt lat from al on us : wfe (EJoin jt lat from al on us) = wfe from && nil_or V wfe on.
  Proof. reflexivity. Qed.
  Lemma wfe_junction l op : wfe (EJunction l op) = forallb wfe l. Proof. reflexivity. Qed.

  Lemma upd_last_forallb {A} (f : A -> bool) (g : A -> A) l l' :
    upd_last g l = Some l' -> forallb f l = true -> (forall x, f x = true -> f (g x) = true) -> forallb f l' = true.
  Proof.
    revert l'. induction l as [|x r IH]; intros l' H Hf Hg; [discriminate|].
    destruct r as [|y r].
    - cbn in H. injection H as <-. cbn in *. rewrite andb_true_r in *. auto.
    - change (upd_last g (x :: y :: r)) with (option_map (cons x) (upd_last g (y :: r))) in H.
      destruct (upd_last g (y :: r)) as [r'|] eqn:E; [|discriminate]. injection H as <-.
      cbn [forallb] in Hf |- *. apply andb_true_iff in Hf. destruct Hf as [H1 H2]. rewrite H1. cbn [andb].
      now apply IH.
  Qed.

  Lemma forallb_filter {A} (f g : A -> bool) l : forallb f l = true -> forallb f (filter g l) = true.
  Proof. induction l as [|x r IH]; cbn; [reflexivity|]. intro H. apply andb_true_iff in H. destruct H as [H1 H2].
         destruct (g x); cbn; [rewrite H1|]; auto. Qed.

  Lemma forallb_snoc {A} (f : A -> bool) l x : forallb f (l ++ [x]) = forallb f l && f x.
  Proof. rewrite forallb_app. cbn. now rewrite andb_true_r. Qed.

  Ltac splitb :=
    repeat match goal with
           | H : _ && _ = true |- _ => apply andb_true_iff in H; destruct H
           | |- _ && _ = true => apply andb_true_iff; split
           end.

  Ltac args_cases Hh :=
    repeat match type of Hh with
           | match ?x with _ => _ end = Some _ => destruct x; try discriminate Hh
           end.

  Lemma empty_parts_ok : parts_b V wfe (empty_parts V) = true.
  Proof. reflexivity. Qed.

  Lemma forallb_map {A B} (f : B -> bool) (g : A -> B) l : forallb f (map g l) = forallb (fun x => f (g x)) l.
  Proof. induction l as [|x r IH]; cbn; [reflexivity|now rewrite IH]. Qed.

  Ltac unf :=
    unfold parts_b, out_b, set_b, obc_b, fromitem_b, grouping_b, comb_b, nil_or, optb,
           p_set_list, p_set_distinct, p_set_jsonAlias, p_set_from, p_set_where, p_set_group, p_set_having, p_set_order,
           p_set_limit, p_set_offset, p_set_lock, fi_set_alias, fi_set_cols, join_item, ob_set in *;
    cbn [p_distinct p_distinctOn p_json p_jsonAlias p_list p_from p_where p_gbDistinct p_groupBys p_having p_orderBys
         p_limit p_offset p_lock fi_from fi_alias fi_colaliases fi_lateral fi_only ob_exp ob_order ob_nulls ge_type ge_sets
         cb_parts cb_type cb_all fst snd] in *.

  Lemma last_in {A} (l : list A) x r : rev l = x :: r -> In x l.
  Proof. intro H. apply in_rev. rewrite H. now left. Qed.

  Lemma upd_last_join_ok f (l l' : list (fromitem exp)) :
    upd_last_join V f l = Some l' -> forallb (fromitem_b V wfe) l = true ->
    (forall jt lat from al on us, wfe (EJoin jt lat from al on us) = true -> wfe (f jt lat from al on us) = true) ->
    forallb (fromitem_b V wfe) l' = true.
  Proof.
    unfold upd_last_join. intros H Hf Hg. destruct (rev l) as [|i r] eqn:Er; [discriminate|].
    destruct (fi_from i) eqn:Ei; try discriminate.
    assert (Hi : wfe (fi_from i) = true).
    { apply last_in in Er. rewrite forallb_forall in Hf. exact (Hf i Er). }
    rewrite Ei in Hi.
    eapply upd_last_forallb; [exact H|exact Hf|]. intros x _. unfold fromitem_b. cbn [fi_from]. now apply Hg.
  Qed.

  Ltac fin :=
    unf; splitb; rewrite ?forallb_app, ?forallb_map; cbn [forallb]; splitb; rewrite ?andb_true_r; unf;
    try assumption; try reflexivity.

  Lemma sel_handlers_ok w c p : wfe (ESelect w c p) = true -> Forall H_ok (sel_handlers V w c p).
  Proof.
    rewrite wfe_select. intro Hw. apply andb_true_iff in Hw. destruct Hw as [Hw Hp]. apply andb_true_iff in Hw. destruct Hw as [Hw Hc].
    unfold sel_handlers. repeat (apply Forall_cons; [|]); try apply Forall_nil.
    all: intros args r Ha Hq Hh; cbn [fst snd] in Hh; args_cases Hh.
    all: cbn [forallb aarg_wfe] in Ha; rewrite ?andb_true_r in Ha.
    all: try (unfold opt_bind in Hh;
              match type of Hh with match ?u with _ => _ end = Some _ => destruct u eqn:Eu; [|discriminate Hh] end).
    all: try (injection Hh as <-;
              match goal with |- wfe (if ?b then _ else _) = true => destruct b; [assumption|rewrite wfe_select, Hw, Hc, Hp; reflexivity] end; fail).
    all: injection Hh as <-; rewrite wfe_select; rewrite ?Hw, ?Hc; cbn [andb].
    all: try (fin; fail).
    all: try (fin; eapply upd_last_forallb; [exact Eu|assumption|intros x Hx; cbn in *; assumption]; fail).
    all: try (fin; rewrite wfe_join; cbn [is_nil orb]; unfold nil_or; cbn [is_nil orb]; rewrite ?andb_true_r; assumption).
    all: try (fin; rewrite Ha; apply orb_true_r).
    all: try (fin; cbn [nonnil orb andb forallb]; rewrite ?andb_true_r; splitb; assumption).
    all: try (rewrite forallb_app; cbn [forallb]; unfold comb_b at 2; cbn [cb_parts]; rewrite Hc, Hp; reflexivity).
    all: try (fin; eapply upd_last_join_ok; [exact Eu|assumption|];
              intros jt lat from al on us Hj; rewrite wfe_join in *; unfold nil_or in *; cbn [is_nil orb] in *; splitb;
              try assumption;
              try (destruct l; [assumption|rewrite wfe_junction; apply orb_true_iff; right; apply forallb_filter; cbn [forallb]; splitb; assumption])).
    all: try (rewrite Hp, andb_true_r; eapply upd_last_forallb; [exact Eu|assumption|intros x Hx; exact Hx]).
    all: rewrite wfe_join; unfold nil_or in *; splitb; try assumption.
    destruct l.
    - apply orb_true_iff. right. assumption.
    - rewrite wfe_junction. apply orb_true_iff. right. apply forallb_filter. cbn [forallb] in *. splitb; assumption.
  Qed.

  Ltac unf2 :=
    unfold ins_b, upd_b, del_b, ins_set, out_b, set_b, fromitem_b, optb, fi_set_alias, fi_set_cols in *;
    cbn [i_with i_table i_alias i_cols i_default i_values i_query i_ctargets i_ctwhere i_cconstraint i_caction i_cset i_cwhere
         i_returning u_with u_table u_alias u_set u_from u_where u_returning d_with d_table d_alias d_using d_where d_returning
         fi_from fi_alias fi_colaliases fi_lateral fi_only fst snd] in *.
  Ltac fin2 :=
    unf2; splitb; rewrite ?forallb_app, ?forallb_map; cbn [forallb]; splitb; rewrite ?andb_true_r; unf2;
    try assumption; try reflexivity.

  Lemma ins_handlers_ok b : wfe (EInsert b) = true -> Forall H_ok (ins_handlers V b).
  Proof.
    rewrite wfe_insert. intro Hb.
    unfold ins_handlers. repeat (apply Forall_cons; [|]); try apply Forall_nil.
    all: intros args r Ha Hq Hh; cbn [fst snd] in Hh, Hq; args_cases Hh.
    all: cbn [forallb aarg_wfe] in Ha; rewrite ?andb_true_r in Ha.
    all: try (unfold opt_bind in Hh;
              match type of Hh with match ?u with _ => _ end = Some _ => destruct u eqn:Eu; [|discriminate Hh] end).
    all: injection Hh as <-; rewrite wfe_insert.
    all: try (fin2; fail).
    all: try (fin2; eapply upd_last_forallb; [exact Eu|assumption|intros x Hx; cbn in *; assumption]; fail).
    - (* Values *) destruct (i_values b) as [rows|] eqn:Ev; fin2; rewrite ?Ev in *; cbn [forallb app] in *; fin2.
    - (* SetMap *) fin2. clear. induction l as [|x r IH]; cbn; [reflexivity|exact IH].
    - (* Query *) pose proof (Hq eq_refl e eq_refl) as Hs. fin2. rewrite Hs, Ha. cbn. apply orb_true_r.
    - (* Returning *) fin2. rewrite forallb_map. cbn [fst]. assumption.
  Qed.

  Lemma upd_handlers_ok b : wfe (EUpdate b) = true -> Forall H_ok (upd_handlers V b).
  Proof.
    rewrite wfe_update. intro Hb.
    unfold upd_handlers. repeat (apply Forall_cons; [|]); try apply Forall_nil.
    all: intros args r Ha Hq Hh; cbn [fst snd] in Hh, Hq; args_cases Hh.
    all: cbn [forallb aarg_wfe] in Ha; rewrite ?andb_true_r in Ha.
    all: try (unfold opt_bind in Hh;
              match type of Hh with match ?u with _ => _ end = Some _ => destruct u eqn:Eu; [|discriminate Hh] end).
    all: try (injection Hh as <-;
              match goal with |- wfe (if ?b then _ else _) = true => destruct b; [assumption|rewrite wfe_update; exact Hb] end; fail).
    all: injection Hh as <-; rewrite wfe_update.
    all: try (fin2; fail).
    all: try (fin2; eapply upd_last_forallb; [exact Eu|assumption|intros x Hx; cbn in *; assumption]; fail).
    fin2. clear. induction l as [|x r IH]; cbn; [reflexivity|exact IH].
  Qed.

  Lemma del_handlers_ok b : wfe (EDelete b) = true -> Forall H_ok (del_handlers V b).
  Proof.
    rewrite wfe_delete. intro Hb.
    unfold del_handlers. repeat (apply Forall_cons; [|]); try apply Forall_nil.
    all: intros args r Ha Hq Hh; cbn [fst snd] in Hh, Hq; args_cases Hh.
    all: cbn [forallb aarg_wfe] in Ha; rewrite ?andb_true_r in Ha.
    all: try (unfold opt_bind in Hh;
              match type of Hh with match ?u with _ => _ end = Some _ => destruct u eqn:Eu; [|discriminate Hh] end).
    all: injection Hh as <-; rewrite wfe_delete.
    all: try (fin2; fail).
    all: try (fin2; eapply upd_last_forallb; [exact Eu|assumption|intros x Hx; cbn in *; assumption]; fail).
  Qed.

  (* ---------------------------------------------------------------- every modelled method preserves well-formedness *)
  Lemma lookup_ok m hs args r :
    Forall H_ok hs -> forallb aarg_wfe args = true -> query_ok m args -> lookup_h V m hs args = Some r -> wfe r = true.
  Proof.
    unfold lookup_h. intros Hf Ha Hq H. destruct (find _ hs) as [kh|] eqn:E; [|discriminate].
    apply find_some in E. destruct E as [Hin Hk]. apply String.eqb_eq in Hk.
    rewrite Forall_forall in Hf. apply (Hf kh Hin args r Ha); [|exact H]. now rewrite Hk.
  Qed.

  Lemma handlers_ok recv : wfe recv = true -> Forall H_ok (handlers_of V recv).
  Proof.
    destruct recv; intro H; try apply Forall_nil; cbn [handlers_of].
    - now apply sel_handlers_ok.
    - now apply ins_handlers_ok.
    - now apply upd_handlers_ok.
    - now apply del_handlers_ok.
  Qed.

  Theorem api_wfe rtype meth recv args r :
    wfe recv = true -> forallb aarg_wfe args = true -> query_ok (mkey rtype meth) args ->
    api rtype meth recv args = Some r -> wfe r = true.
  Proof. intros Hr Ha Hq H. unfold api in H. exact (lookup_ok _ _ args r (handlers_ok recv Hr) Ha Hq H). Qed.

  Lemma empty_select_ok : wfe (ESelect [] [] (empty_parts V)) = true.
  Proof. reflexivity. Qed.

  Theorem entry_wfe name args r : forallb aarg_wfe args = true -> entry name args = Some r -> wfe r = true.
  Proof.
    unfold entry. intros Ha H. destruct (String.eqb name "Select").
    { eapply api_wfe; [exact empty_select_ok|exact Ha| |exact H]. intro E. vm_compute in E. discriminate. }
    destruct (String.eqb name "SelectJson").
    { destruct args as [|[t| | | | | | | | | |] [|? ?]]; try discriminate. cbn [forallb aarg_wfe] in Ha. rewrite andb_true_r in Ha.
      injection H as <-. rewrite wfe_select. unf. cbn [forallb andb is_nil orb]. rewrite Ha. reflexivity. }
    destruct args as [|[t| | | | | | | | | |] [|? ?]]; try discriminate. cbn [forallb aarg_wfe] in Ha. rewrite andb_true_r in Ha.
    destruct (String.eqb name "InsertInto"); [injection H as <-; rewrite wfe_insert; unf2; cbn; now rewrite Ha|].
    destruct (String.eqb name "Update"); [injection H as <-; rewrite wfe_update; unf2; cbn; now rewrite Ha|].
    destruct (String.eqb name "DeleteFrom"); [injection H as <-; rewrite wfe_delete; unf2; cbn; now rewrite Ha|].
    discriminate.
  Qed.

  (* ---------------------------------------------------------------- the WITH builders *)
  Definition withq_rest (q : withq exp) : bool := optb (fun s => forallb wfe (ws_by s)) (wq_search q).
  (* a list under construction: all queries but the last have their statement *)
  Definition wr_ok (r : wrecv V) : bool :=
    match r with
    | WB ws => forallb (withq_b V wfe) ws
    | WWB ws => forallb (withq_b V wfe) (removelast ws) && forallb withq_rest ws
    | WSB ws _ => forallb (withq_b V wfe) ws
    | WSBB ws _ by_ => forallb (withq_b V wfe) ws && forallb wfe by_
    end.
  Definition res_ok (r : ares V) : bool := match r with RExp e => wfe e | RWith w => wr_ok w end.

  Lemma upd_last_split {A} (g : A -> A) (l l' : list A) :
    upd_last g l = Some l' -> exists init x, l = init ++ [x] /\ l' = init ++ [g x].
  Proof.
    revert l'. induction l as [|y r IH]; intros l' H; [discriminate|].
    destruct r as [|z r].
    - cbn in H. injection H as <-. exists [], y. split; reflexivity.
    - change (upd_last g (y :: z :: r)) with (option_map (cons y) (upd_last g (z :: r))) in H.
      destruct (upd_last g (z :: r)) as [r'|] eqn:E; [|discriminate]. injection H as <-.
      destruct (IH r' eq_refl) as [init [x [E1 E2]]]. exists (y :: init), x. rewrite E1, E2. split; reflexivity.
  Qed.

  Lemma withq_b_rest q : withq_b V wfe q = true -> withq_rest q = true.
  Proof. unfold withq_b, withq_rest. intro H. apply andb_true_iff in H. tauto. Qed.

  Lemma forallb_impl {A} (f g : A -> bool) l : (forall x, f x = true -> g x = true) -> forallb f l = true -> forallb g l = true.
  Proof. intros H. induction l as [|x r IH]; cbn; [reflexivity|]. intro K. apply andb_true_iff in K. destruct K as [K1 K2].
         rewrite (H x K1), (IH K2). reflexivity. Qed.

  Definition HW_ok (kh : string * (list (aarg V) -> option (ares V))) : Prop :=
    forall args res, forallb aarg_wfe args = true -> snd kh args = Some res -> res_ok res = true.

  Lemma with_handlers_ok r : wr_ok r = true -> Forall HW_ok (with_handlers V r).
  Proof.
    intro Hr. destruct r as [ws|ws|ws ty|ws ty by_]; cbn [with_handlers wr_ok] in *.
    all: repeat (apply Forall_cons; [|]); try apply Forall_nil.
    all: intros args res Ha Hh; cbn [fst snd] in Hh; args_cases Hh.
    all: cbn [forallb aarg_wfe] in Ha; rewrite ?andb_true_r in Ha.
    all: try (unfold opt_bind in Hh;
              match type of Hh with match ?u with _ => _ end = Some _ => destruct u eqn:Eu; [|discriminate Hh] end).
    all: injection Hh as <-; cbn [res_ok wr_ok].
    all: try (apply upd_last_split in Eu; destruct Eu as [init [x [-> ->]]]; rewrite ?removelast_last in *).
    all: splitb.
    all: rewrite ?removelast_last, ?forallb_app in *; cbn [forallb] in *; splitb; rewrite ?andb_true_r in *.
    all: try assumption; try reflexivity.
    all: try (eapply forallb_impl; [exact withq_b_rest|assumption]).
    all: try (rewrite ?wfe_select, ?wfe_insert, ?wfe_update, ?wfe_delete; unf; unf2; cbn [forallb andb is_nil orb];
              rewrite ?forallb_map; cbn [fst]; splitb; rewrite ?andb_true_r; repeat (apply andb_true_iff; split);
              try assumption; try reflexivity).
    all: try (unfold withq_b, withq_rest, wq_set_query, wq_set_cols, wq_set_search, optb in *;
              cbn [wq_query wq_search ws_by] in *; splitb; try assumption; try reflexivity).
  Qed.

  Theorem api_with_ok m r args res :
    wr_ok r = true -> forallb aarg_wfe args = true -> api_with m r args = Some res -> res_ok res = true.
  Proof.
    intros Hr Ha H. unfold api_with in H. destruct (find _ (with_handlers V r)) as [kh|] eqn:E; [|discriminate].
    apply find_some in E. destruct E as [Hin _].
    pose proof (with_handlers_ok r Hr) as Hf. rewrite Forall_forall in Hf. exact (Hf kh Hin args res Ha H).
  Qed.

  Theorem entry_with_ok name args w : entry_with name args = Some w -> wr_ok w = true.
  Proof.
    unfold entry_with. intro H. destruct args as [|[| n | | | | | | | | |] [|? ?]]; try discriminate.
    destruct (String.eqb name "With"); [injection H as <-; reflexivity|].
    destruct (String.eqb name "WithRecursive"); [injection H as <-; reflexivity|discriminate].
  Qed.

  (* the states of a WITH clause under construction reachable from With / WithRecursive *)
  Inductive reachable_w : wrecv V -> Prop :=
  | rw_entry name args w : entry_with name args = Some w -> reachable_w w
  | rw_step meth r args w :
      reachable_w r -> forallb aarg_wfe args = true -> api_with meth r args = Some (RWith w) -> reachable_w w.

  Theorem reachable_w_ok w : reachable_w w -> wr_ok w = true.
  Proof.
    induction 1 as [name args w He|meth r args w _ IH Ha Hs].
    - exact (entry_with_ok name args w He).
    - exact (api_with_ok meth r args (RWith w) IH Ha Hs).
  Qed.

  (* a statement value obtained from an entry point by any number of modelled builder calls, the expressions
     passed in being well-formed themselves (no nil interface, recursively) and InsertBuilder.Query receiving a
     select builder (the only implementation of its parameter type) *)
  Inductive reachable : exp -> Prop :=
  | reach_entry name args r : forallb aarg_wfe args = true -> entry name args = Some r -> reachable r
  | reach_with meth w args r :
      reachable_w w -> forallb aarg_wfe args = true -> api_with meth w args = Some (RExp r) -> reachable r
  | reach_step rtype meth recv args r :
      reachable recv -> forallb aarg_wfe args = true -> query_ok (mkey rtype meth) args ->
      api rtype meth recv args = Some r -> reachable r.

  Theorem reachable_wfe e : reachable e -> wfe e = true.
  Proof.
    induction 1 as [name args r Ha He|meth w args r Hw Ha Hs|rtype meth recv args r _ IH Ha Hq Hs].
    - exact (entry_wfe name args r Ha He).
    - exact (api_with_ok meth w args (RExp r) (reachable_w_ok w Hw) Ha Hs).
    - exact (api_wfe rtype meth recv args r IH Ha Hq Hs).
  Qed.

  (* an executable form: a call chain given as data *)
  Definition query_okb (key : string) (args : list (aarg V)) : bool :=
    if String.eqb key "Query" then match args with [AExp q] => is_select q | _ => true end else true.
  Lemma query_okb_ok key args : query_okb key args = true -> query_ok key args.
  Proof. unfold query_okb, query_ok. intros H -> q ->. exact H. Qed.

  Definition step_ok (st : string * string * list (aarg V)) : bool :=
    let '(rt, m, args) := st in forallb aarg_wfe args && query_okb (mkey rt m) args.
  Fixpoint run_chain (r : option exp) (steps : list (string * string * list (aarg V))) : option exp :=
    match steps with
    | [] => r
    | (rt, m, args) :: rest => run_chain (opt_bind r (fun e => api rt m e args)) rest
    end.

  Theorem chain_reachable name args steps e :
    forallb aarg_wfe args = true -> forallb step_ok steps = true ->
    run_chain (entry name args) steps = Some e -> reachable e.
  Proof.
    intros Ha Hs H.
    assert (G : forall r, (forall x, r = Some x -> reachable x) -> run_chain r steps = Some e -> reachable e).
    { clear H. induction steps as [|[[rt m] a] rest IH]; intros r Hr H; cbn [run_chain] in H; [now apply Hr|].
      cbn [forallb] in Hs. apply andb_true_iff in Hs. destruct Hs as [H1 H2]. apply (IH H2 (opt_bind r (fun e => api rt m e a))); [|exact H].
      intros x Hx. destruct r as [e0|]; [|discriminate]. cbn [opt_bind] in Hx.
      unfold step_ok in H1. apply andb_true_iff in H1. destruct H1 as [H1 H3].
      exact (reach_step rt m e0 a x (Hr e0 eq_refl) H1 (query_okb_ok _ _ H3) Hx). }
    apply (G _ (fun x Hx => reach_entry name args x Ha Hx) H).
  Qed.

  (* ---------------------------------------------------------------- composition laws of the select builder *)
  Definition call (m : string) (args : list (aarg V)) (r : option exp) : option exp :=
    opt_bind r (fun e => lookup_h V m (handlers_of V e) args).

  (* conditions accumulate in call order and nothing else of the statement changes *)
  Theorem where_accumulates w c p es :
    fold_left (fun r e => call "Where" [AExp e] r) es (Some (ESelect w c p))
    = Some (ESelect w c (p_set_where V p (p_where p ++ es))).
  Proof.
    revert p. induction es as [|e es IH]; intro p; cbn [fold_left].
    - rewrite app_nil_r. now destruct p.
    - change (call "Where" [AExp e] (Some (ESelect w c p))) with (Some (ESelect w c (p_set_where V p (p_where p ++ [e])))).
      rewrite IH. unfold p_set_where. cbn. now rewrite <- app_assoc.
  Qed.

  Theorem having_accumulates w c p es :
    fold_left (fun r e => call "Having" [AExp e] r) es (Some (ESelect w c p))
    = Some (ESelect w c (p_set_having V p (p_having p ++ es))).
  Proof.
    revert p. induction es as [|e es IH]; intro p; cbn [fold_left].
    - rewrite app_nil_r. now destruct p.
    - change (call "Having" [AExp e] (Some (ESelect w c p))) with (Some (ESelect w c (p_set_having V p (p_having p ++ [e])))).
      rewrite IH. unfold p_set_having. cbn. now rewrite <- app_assoc.
  Qed.

  (* the list-valued parts of the other statements: every call appends, in call order, and touches nothing else *)
  Theorem update_set_accumulates b (items : list (string * exp)) :
    fold_left (fun r it => call "Set" [AStr (fst it); AExp (snd it)] r) items (Some (EUpdate b))
    = Some (EUpdate (mkUpd (u_with b) (u_table b) (u_alias b) (u_set b ++ items) (u_from b) (u_where b) (u_returning b))).
  Proof.
    revert b. induction items as [|[c v] r IH]; intro b; cbn [fold_left].
    - rewrite app_nil_r. now destruct b.
    - change (call "Set" [AStr (fst (c, v)); AExp (snd (c, v))] (Some (EUpdate b)))
        with (Some (EUpdate (mkUpd (u_with b) (u_table b) (u_alias b) (u_set b ++ [(c, v)]) (u_from b) (u_where b) (u_returning b)))).
      rewrite IH. cbn. now rewrite <- app_assoc.
  Qed.

  Theorem insert_values_accumulate b (rows : list (list exp)) :
    fold_left (fun r row => call "Values" [AExps row] r) rows (Some (EInsert b))
    = Some (EInsert (ins_set V b (i_alias b) (i_cols b) (i_default b)
                       (match rows with [] => i_values b | _ => Some (match i_values b with Some l => l | None => [] end ++ rows) end)
                       (i_query b) (i_ctargets b) (i_ctwhere b) (i_cconstraint b) (i_caction b) (i_cset b) (i_cwhere b) (i_returning b))).
  Proof.
    revert b. induction rows as [|row r IH]; intro b; cbn [fold_left].
    - now destruct b.
    - change (call "Values" [AExps row] (Some (EInsert b)))
        with (Some (EInsert (ins_set V b (i_alias b) (i_cols b) (i_default b)
                               (Some (match i_values b with Some l => l | None => [] end ++ [row]))
                               (i_query b) (i_ctargets b) (i_ctwhere b) (i_cconstraint b) (i_caction b) (i_cset b) (i_cwhere b) (i_returning b)))).
      rewrite IH. unfold ins_set. cbn. rewrite <- app_assoc. destruct r; reflexivity.
  Qed.

  Theorem delete_where_accumulates b es :
    fold_left (fun r e => call "Where" [AExp e] r) es (Some (EDelete b))
    = Some (EDelete (mkDel (d_with b) (d_table b) (d_alias b) (d_using b) (d_where b ++ es) (d_returning b))).
  Proof.
    revert b. induction es as [|e r IH]; intro b; cbn [fold_left].
    - rewrite app_nil_r. now destruct b.
    - change (call "Where" [AExp e] (Some (EDelete b)))
        with (Some (EDelete (mkDel (d_with b) (d_table b) (d_alias b) (d_using b) (d_where b ++ [e]) (d_returning b)))).
      rewrite IH. cbn. now rewrite <- app_assoc.
  Qed.

  (* the single-valued options: the last call wins, whatever was set before *)
  Theorem limit_last_wins w c p a b :
    call "Limit" [AExp b] (call "Limit" [AExp a] (Some (ESelect w c p))) = call "Limit" [AExp b] (Some (ESelect w c p)).
  Proof. reflexivity. Qed.
  Theorem offset_last_wins w c p a b :
    call "Offset" [AExp b] (call "Offset" [AExp a] (Some (ESelect w c p))) = call "Offset" [AExp b] (Some (ESelect w c p)).
  Proof. reflexivity. Qed.

  (* independent options commute *)
  Theorem limit_where_commute w c p a e :
    call "Limit" [AExp a] (call "Where" [AExp e] (Some (ESelect w c p)))
    = call "Where" [AExp e] (call "Limit" [AExp a] (Some (ESelect w c p))).
  Proof. reflexivity. Qed.

  (* an alias goes to the FROM item added last, earlier items are untouched *)
  Theorem from_as_last w c p f a :
    call "FromSelectBuilder.As" [AStr a] (call "From" [AExp f] (Some (ESelect w c p)))
    = Some (ESelect w c (p_set_from V p (p_from p ++ [mkFromItem false false f a []]))).
  Proof.
    change (call "From" [AExp f] (Some (ESelect w c p)))
      with (Some (ESelect w c (p_set_from V p (p_from p ++ [mkFromItem false false f "" []])))).
    unfold call, opt_bind at 1. cbn [handlers_of]. unfold lookup_h.
    cbn [find sel_handlers fst snd String.eqb Ascii.eqb Bool.eqb].
    unfold p_set_from at 1 2. cbn [p_from].
    assert (U : forall (l : list (fromitem exp)) x g, upd_last g (l ++ [x]) = Some (l ++ [g x])).
    { induction l as [|y l IH]; intros x g; [reflexivity|].
      destruct l as [|z l]; [reflexivity|].
      change (upd_last g ((y :: z :: l) ++ [x])) with (option_map (cons y) (upd_last g ((z :: l) ++ [x]))).
      now rewrite IH. }
    rewrite U. reflexivity.
  Qed.
End Facts.
