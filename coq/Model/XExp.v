(* The operator fragment of the value language (C02): operator expressions as the API composes them,
   their embedding into [exp], the token list their rendering consists of (with exactly the
   parenthesisation decisions of opExp / unaryExp / junctionExp / matchingExp / inExp .WriteSQL), the
   composed tree, and a checker deciding - from the model alone - that the rendering re-parses to the
   composed tree under PostgreSQL's precedence table.  Definitions only; proofs are in XExpFacts.v. *)
From Coq Require Import String List Ascii ZArith Bool Arith.
From QRB Require Import Base.Bytes Model.W Model.Values Model.Compile Pg.Lexer Pg.Expr.
Import ListNotations.
Local Open Scope string_scope.
Local Open Scope list_scope.

Section XExp.
  Variable V : Type.
  Notation exp := (exp V).
  Notation W := (W V).

  Inductive xe :=
  | XAtom (a : exp)                     (* anything that is not an operator expression (see [atomic]) *)
  | XNegLit (a : exp)                   (* Int / Float literal below zero: rendered with its sign *)
  | XBase (e : xe)                      (* the operand is held as ExpBase{Exp: e}: not a Precedencer *)
  | XOp (l : xe) (op : string) (r : xe) (* opExp, spaced *)
  | XCast (e : xe) (ty : string)        (* opExp "::" unspaced, right operand expType *)
  | XNot (e : xe)
  | XNeg (e : xe)
  | XIsNull (e : xe) (negated : bool)
  | XJunc (l : list xe) (isor : bool)
  | XMatch (l r : xe) (op : string) (esc : option Z)
  | XIn (l : xe) (op : string) (r : exp).

  Definition junc_op (isor : bool) : string := if isor then "OR" else "AND".
  Definition isnull_suffix (negated : bool) : string := if negated then "IS NOT NULL" else "IS NULL".

  Fixpoint embed (e : xe) : exp :=
    match e with
    | XAtom a | XNegLit a => a
    | XBase e' => EBase (embed e')
    | XOp l op r => EOp (embed l) op (embed r) false
    | XCast e' ty => EOp (embed e') "::" (EType ty) true
    | XNot e' => EUnary "NOT" (embed e') "" (-4)
    | XNeg e' => EUnary "-" (embed e') "" 4
    | XIsNull e' n => EUnary "" (embed e') (isnull_suffix n) (-3)
    | XJunc l o => EJunction (map embed l) (junc_op o)
    | XMatch l r op esc => EMatch (embed l) (embed r) op esc
    | XIn l op r => EIn (embed l) op r
    end.

  (* the inverse reading of a value (everything that is not an operator node is an operand) *)
  Definition starts_minus (s : string) : bool := match s with String c _ => Ascii.eqb c "-" | _ => false end.
  Fixpoint xe_of (e : exp) : xe :=
    match e with
    | EBase e' => XBase (xe_of e')
    | EOp l op r u =>
        match r with
        | EType ty => if u && String.eqb op "::" then XCast (xe_of l) ty else XAtom e
        | _ => if u then XAtom e else XOp (xe_of l) op (xe_of r)
        end
    | EUnary p e' s prec =>
        if String.eqb p "NOT" && String.eqb s "" && Z.eqb prec (-4) then XNot (xe_of e')
        else if String.eqb p "-" && String.eqb s "" && Z.eqb prec 4 then XNeg (xe_of e')
        else if String.eqb p "" && String.eqb s "IS NULL" && Z.eqb prec (-3) then XIsNull (xe_of e') false
        else if String.eqb p "" && String.eqb s "IS NOT NULL" && Z.eqb prec (-3) then XIsNull (xe_of e') true
        else XAtom e
    | EJunction l op =>
        if String.eqb op "AND" then XJunc (map xe_of l) false
        else if String.eqb op "OR" then XJunc (map xe_of l) true
        else XAtom e
    | EMatch l r op esc => XMatch (xe_of l) (xe_of r) op esc
    | EIn l op r => XIn (xe_of l) op r
    | EInt z => if Z.ltb z 0 then XNegLit e else XAtom e
    | EFloat t => if starts_minus t then XNegLit e else XAtom e
    | _ => XAtom e
    end.

  (* ------------------------------------------------------------ the rendering, as tokens *)
  Inductive xatom := AExp (a : exp) | AEsc (c : Z).
  Notation xtok := (xtok xatom string).
  Notation pexpr := (pexpr xatom string).

  (* x.(Precedencer) of the embedded value *)
  Definition xprec (e : xe) : option Z :=
    match e with
    | XOp _ op _ => Some (op_prec op)
    | XCast _ _ => Some 6%Z
    | XNot _ => Some (-4)%Z
    | XNeg _ => Some 4%Z
    | XIsNull _ _ => Some (-3)%Z
    | XJunc _ o => Some (-5)%Z
    | _ => None
    end.
  (* x.(opExp).op *)
  Definition xopname (e : xe) : option string :=
    match e with XOp _ op _ => Some op | XCast _ _ => Some "::" | _ => None end.
  Definition x_is_junction (e : xe) : bool := match e with XJunc _ _ => true | _ => false end.

  Definition lparen (cp : Z) (l : xe) : bool := match xprec l with Some p => Z.ltb p cp | None => false end.
  Definition rparen (cp : Z) (op : string) (r : xe) : bool :=
    match xprec r with
    | Some p => Z.ltb p cp || match xopname r with Some op' => negb (String.eqb op' op) && Z.eqb p cp | None => false end
    | None => false
    end.

  Definition par (b : bool) (t : list xtok) : list xtok := if b then XOpen :: t ++ [XClose] else t.

  Fixpoint xtoks (e : xe) : list xtok :=
    match e with
    | XAtom a => [XAtomTok (AExp a)]
    | XNegLit a => [XNegTok (AExp a)]
    | XBase e' => xtoks e'
    | XOp l op r =>
        par (lparen (op_prec op) l) (xtoks l) ++ XInf true op :: par (rparen (op_prec op) op r) (xtoks r)
    | XCast e' ty => par (lparen 6 e') (xtoks e') ++ [XCastT ty]
    | XNot e' => XPre "NOT" :: par (lparen (-4) e') (xtoks e')
    | XNeg e' => XPre "-" :: par (lparen 4 e') (xtoks e')
    | XIsNull e' n => par (lparen (-3) e') (xtoks e') ++ [XSuf (isnull_suffix n)]
    | XJunc l o =>
        match l with
        | [x] => xtoks x
        | _ => (fix go (first : bool) (l : list xe) : list xtok :=
                  match l with
                  | [] => []
                  | x :: r => (if first then [] else [XInf false (junc_op o)])
                               ++ par (x_is_junction x) (xtoks x) ++ go false r
                  end) true l
        end
    | XMatch l r op esc =>
        xtoks l ++ XInf false op :: xtoks r ++ match esc with Some c => [XEsc (AEsc c)] | None => [] end
    | XIn l op r => xtoks l ++ [XInf false op; XAtomTok (AExp r)]
    end.

  Definition junc_toks (o : bool) :=
    fix go (first : bool) (l : list xe) : list xtok :=
      match l with
      | [] => []
      | x :: r => (if first then [] else [XInf false (junc_op o)]) ++ par (x_is_junction x) (xtoks x) ++ go false r
      end.

  (* what each token writes (leaves of the writer tree) *)
  Definition kw (s : string) : W := WKw s.
  Fixpoint wflat (w : W) : list W :=
    match w with
    | WSeq l => (fix go (l : list W) := match l with [] => [] | x :: r => wflat x ++ go r end) l
    | x => [x]
    end.
  Definition leaves (t : xtok) : list W :=
    match t with
    | XPre s => [kw s; kw " "]
    | XInf true s => [kw " "; WRaw s; kw " "]
    | XInf false s => [kw " "; kw s; kw " "]
    | XSuf s => [kw " "; kw s]
    | XCastT ty => [WRaw "::"; WType ty]
    | XEsc (AEsc c) => [kw " ESCAPE "; WLit (utf8_encode c)]
    | XEsc (AExp _) => []
    | XOpen => [kw "("]
    | XClose => [kw ")"]
    | XAtomTok (AExp a) | XNegTok (AExp a) => wflat (compile a)
    | XAtomTok (AEsc _) | XNegTok (AEsc _) => []
    end.

  (* ------------------------------------------------------------ the composed tree *)
  Fixpoint abstract (e : xe) : pexpr :=
    match e with
    | XAtom a => PAtom (AExp a)
    | XNegLit a => PPre "-" (PAtom (AExp a))       (* PAtom under the sign: the literal without its sign *)
    | XBase e' => abstract e'
    | XOp l op r => PBin (upper op) (abstract l) (abstract r)
    | XCast e' ty => PCast (abstract e') ty
    | XNot e' => PPre "NOT" (abstract e')
    | XNeg e' => PPre "-" (abstract e')
    | XIsNull e' n => PPost (isnull_suffix n) (abstract e')
    | XJunc l o =>
        match l with
        | [] => PList []
        | x :: r => fold_left (fun acc y => PBin (junc_op o) acc (abstract y)) r (abstract x)
        end
    | XMatch l r op esc =>
        match esc with
        | Some c => PEsc (PBin (upper op) (abstract l) (abstract r)) (AEsc c)
        | None => PBin (upper op) (abstract l) (abstract r)
        end
    | XIn l op r => PBin (upper op) (abstract l) (PAtom (AExp r))
    end.

  (* ------------------------------------------------------------ the checker *)
  (* operands PostgreSQL reads as c_expr / func_expr / AexprConst without a sign *)
  Definition atomic (a : exp) : bool :=
    match a with
    | EArg _ | EBind _ | EIdent _ _ | EStr _ | EBool _ | ENull | EInterval _ | EArray _
    | EFuncExp _ _ _ | EAgg _ _ _ _ _ _ _ | ECase _ _ _ _ | EExists _ | EExprs _
    | ESelect _ _ _ | EJson _ _ | EExtract _ _ => true
    | EInt z => Z.leb 0 z
    | EFloat t => negb (starts_minus t)
    | _ => false
    end.
  Definition neglit (a : exp) : bool :=
    match a with EInt z => Z.ltb z 0 | EFloat t => starts_minus t | _ => false end.

  (* the symbol operators the API produces (plus the common ones reachable through Op) *)
  Definition sym_ops : list string :=
    ["="; "<"; ">"; "<="; ">="; "<>"; "||"; "~"; "~*"; "!~"; "!~*"; "+"; "-"; "*"; "/"; "%"; "^";
     "->"; "->>"; "#>"; "#>>"; "@>"; "<@"; "?"; "?|"; "?&"; "#-"; "@?"; "@@"; "&&"; "<<"; ">>"; "&"; "|"; "#"].
  Definition in_ops : list string := ["IN"; "NOT IN"].

  Definition lvl (b : bool) (k : nat) : nat := if b then L_MAX else k.
  Local Open Scope nat_scope.

  Fixpoint chk (e : xe) : option nat :=
    match e with
    | XAtom a => if atomic a then Some L_MAX else None
    | XNegLit a => if neglit a then Some L_UMINUS else None
    | XBase e' => chk e'
    | XOp l op r =>
        if str_in op sym_ops then
          match chk l, chk r with
          | Some kl, Some kr =>
              let kl' := lvl (lparen (op_prec op) l) kl in
              let kr' := lvl (rparen (op_prec op) op r) kr in
              match binop_level op with
              | (ko, ALeft) => if (ko <=? kl') && (ko <? kr') then Some ko else None
              | (ko, ANon) => if (ko <? kl') && (ko <? kr') then Some ko else None
              | (_, ARight) => None
              end
          | _, _ => None
          end
        else None
    | XCast e' ty =>
        match chk e' with
        | Some k => if L_CAST <=? lvl (lparen 6 e') k then Some L_CAST else None
        | None => None
        end
    | XNot e' =>
        match chk e' with
        | Some k => if L_NOT <=? lvl (lparen (-4) e') k then Some L_NOT else None
        | None => None
        end
    | XNeg e' =>
        match chk e' with
        | Some k => if L_UMINUS <=? lvl (lparen 4 e') k then Some L_UMINUS else None
        | None => None
        end
    | XIsNull e' n =>
        match chk e' with
        | Some k => if L_IS <=? lvl (lparen (-3) e') k then Some L_IS else None
        | None => None
        end
    | XJunc l o =>
        let ko := if o then L_OR else L_AND in
        match l with
        | [] => None
        | [x] => chk x
        | x :: r =>
            match chk x with
            | Some k =>
                if ko <=? lvl (x_is_junction x) k then
                  (fix go (r : list xe) : option nat :=
                     match r with
                     | [] => Some ko
                     | y :: r' =>
                         match chk y with
                         | Some k' => if ko <? lvl (x_is_junction y) k' then go r' else None
                         | None => None
                         end
                     end) r
                else None
            | None => None
            end
        end
    | XMatch l r op esc =>
        if like_family op then
          match chk l, chk r with
          | Some kl, Some kr => if (L_LIKE <? kl) && (L_LIKE <? kr) then Some L_LIKE else None
          | _, _ => None
          end
        else None
    | XIn l op r =>
        if str_in op in_ops then
          match chk l with
          | Some kl => if L_LIKE <? kl then Some L_LIKE else None
          | None => None
          end
        else None
    end.
End XExp.

Arguments XAtom {V}. Arguments XNegLit {V}. Arguments XBase {V}. Arguments XOp {V}. Arguments XCast {V}.
Arguments XNot {V}. Arguments XNeg {V}. Arguments XIsNull {V}. Arguments XJunc {V}. Arguments XMatch {V}.
Arguments XIn {V}. Arguments embed {V}. Arguments xe_of {V}. Arguments xtoks {V}. Arguments abstract {V}.
Arguments chk {V}. Arguments AExp {V}. Arguments AEsc {V}. Arguments leaves {V}. Arguments wflat {V}.
Arguments xprec {V}. Arguments atomic {V}. Arguments neglit {V}.
