(* The writer language: a deep embedding of what a WriteSQL method does to the SQLBuilder.
   Every WriteSQL / innerWriteSQL of qrb is (Model/Compile.v) a structural map from the Go value to
   a tree of these primitives; [run] is the state-passing semantics of builder/sql_writer.go.
   No proofs in this file. *)
From Coq Require Import List String Ascii ZArith Bool.
From QRB Require Import Base.Bytes.
Import ListNotations.
Local Open Scope list_scope.

(* error kinds = the sentinels of the library (errWithOrdinalityAndColumnDefinitions is unexported) *)
Inductive ekind := EkIdent | EkType | EkNoCond | EkLateralOnly | EkValuesQuery | EkConflict | EkOrdCols.

Definition ekind_eqb (a b : ekind) : bool :=
  match a, b with
  | EkIdent, EkIdent | EkType, EkType | EkNoCond, EkNoCond | EkLateralOnly, EkLateralOnly
  | EkValuesQuery, EkValuesQuery | EkConflict, EkConflict | EkOrdCols, EkOrdCols => true
  | _, _ => false
  end.

Inductive chunk :=
| CKw (s : string)      (* constant text of the Go source (keywords, punctuation, blanks) *)
| CRaw (s : string)     (* caller-supplied text written verbatim: aliases, column names, function names, operators *)
| CLit (s : string)     (* a string literal; [s] is the Go string, the bytes are pqQuoteLiteral s *)
| CNum (s : string)     (* output of strconv.Itoa / FormatFloat / FormatBool *)
| CParam (n : nat)      (* $n *)
| CIdent (s : string)   (* validated name *)
| CType (s : string)    (* validated cast type *)
| CWs (s : string).     (* white space that depends on the pretty-print switch *)

(* builder/helper.go pqQuoteLiteral *)
Definition quote_lit (s : string) : string :=
  let q := "'"%char in let bs := "\"%char in
  let s1 := replace_byte q (String q (String q EmptyString)) s in
  if contains_byte bs s1
  then append (String " "%char (String "E"%char (String q EmptyString)))
         (append (replace_byte bs (String bs (String bs EmptyString)) s1) (String q EmptyString))
  else String q (append s1 (String q EmptyString)).

Definition chunk_bytes (c : chunk) : string :=
  match c with
  | CKw s | CRaw s | CNum s | CIdent s | CType s | CWs s => s
  | CLit s => quote_lit s
  | CParam n => String "$"%char (nat_dec n)
  end.

Definition bytes_of (l : list chunk) : string := sconcat (map chunk_bytes l).

Record opts := { validating : bool; pretty : bool }.

(* the four places where InsertBuilder.innerWriteSQL reads sb.opts.prettyPrint: what is written
   without / with pretty printing.  Both are blanks or newlines by construction. *)
Inductive pws := PwComma | PwBreak | PwRow | PwSet.
Definition nl1 : string := String "010"%char EmptyString.
Definition pws_plain (k : pws) : string :=
  match k with PwComma => "" | PwBreak => " " | PwRow => "" | PwSet => " " end%string.
Definition pws_pretty (k : pws) : string :=
  match k with
  | PwComma => " "
  | PwBreak => nl1
  | PwRow => append nl1 "       "
  | PwSet => append nl1 "    "
  end%string.

Section Writer.
  Variable V : Type.                      (* argument values: abstract, no equality *)

  Inductive W :=
  | WKw (s : string)
  | WRaw (s : string)
  | WLit (s : string)
  | WNum (s : string)
  | WArg (v : V)                          (* sb.CreatePlaceholder + WriteString *)
  | WBind (name : string)                 (* sb.BindPlaceholder + WriteString *)
  | WIdent (s : string)                   (* IdentExp.WriteSQL *)
  | WType (s : string)                    (* expType.WriteSQL *)
  | WErr (k : ekind)                      (* sb.AddError(sentinel) *)
  | WErrV (k : ekind)                     (* if sb.Validating() { sb.AddError(sentinel) } *)
  | WPretty (k : pws)                     (* if sb.opts.prettyPrint { pws_pretty k } else { pws_plain k } *)
  | WSeq (l : list W)
  | WPanic.                               (* a nil interface is called / an index is out of range *)

  Record sb := mkSb {
    out : list chunk;
    argIdx : nat;
    args : list (option V);               (* None = slot reserved for a named bind *)
    named : list (string * nat);          (* Go map name -> index, in insertion order *)
    errs : list (ekind * string)
  }.

  Definition sb0 : sb := mkSb [] 0 [] [] [].

  Definition emit (c : chunk) (s : sb) : sb :=
    mkSb (out s ++ [c]) (argIdx s) (args s) (named s) (errs s).
  Definition add_err (e : ekind * string) (s : sb) : sb :=
    mkSb (out s) (argIdx s) (args s) (named s) (errs s ++ [e]).

  Variable validI validT : string -> bool.  (* the two compiled patterns *)

  Fixpoint run (o : opts) (w : W) (s : sb) {struct w} : option sb :=
    match w with
    | WKw t => Some (emit (CKw t) s)
    | WRaw t => Some (emit (CRaw t) s)
    | WLit t => Some (emit (CLit t) s)
    | WNum t => Some (emit (CNum t) s)
    | WArg v =>
        let i := S (argIdx s) in
        Some (emit (CParam i) (mkSb (out s) i (args s ++ [Some v]) (named s) (errs s)))
    | WBind n =>
        match lookup n (named s) with
        | Some i => Some (emit (CParam i) s)
        | None =>
            let i := S (argIdx s) in
            Some (emit (CParam i) (mkSb (out s) i (args s ++ [None]) (named s ++ [(n, i)]) (errs s)))
        end
    | WIdent t =>
        if validating o && negb (validI t) then Some (add_err (EkIdent, t) s)
        else Some (emit (CIdent t) s)
    | WType t =>
        if validating o && negb (validT t) then Some (add_err (EkType, t) s)
        else Some (emit (CType t) s)
    | WErr k => Some (add_err (k, EmptyString) s)
    | WErrV k => if validating o then Some (add_err (k, EmptyString) s) else Some s
    | WPretty k => Some (emit (CWs (if pretty o then pws_pretty k else pws_plain k)) s)
    | WSeq l =>
        (fix go (l : list W) (s : sb) {struct l} : option sb :=
           match l with
           | [] => Some s
           | w :: r => match run o w s with None => None | Some s' => go r s' end
           end) l s
    | WPanic => None
    end.

  Fixpoint run_list (o : opts) (l : list W) (s : sb) : option sb :=
    match l with
    | [] => Some s
    | w :: r => match run o w s with None => None | Some s' => run_list o r s' end
    end.

  (* writeToSQLString: the fill loop ranges over the Go map sb.namedArgs, i.e. over [order], any
     permutation of [named s]; a name without a supplied value aborts with ("", nil, error). *)
  Fixpoint set_nth {A} (n : nat) (x : A) (l : list A) : list A :=
    match l, n with
    | [], _ => []
    | _ :: r, O => x :: r
    | y :: r, S n' => y :: set_nth n' x r
    end.

  Fixpoint fill (order : list (string * nat)) (supplied : list (string * V)) (a : list (option V))
    : option (list (option V)) :=
    match order with
    | [] => Some a
    | (n, i) :: r =>
        match lookup n supplied with
        | None => None
        | Some v => fill r supplied (set_nth (i - 1) (Some v) a)
        end
    end.

  Inductive result :=
  | RPanic
  | RMissing                                            (* "", nil, missing named argument *)
  | ROk (sql : list chunk) (a : list (option V)) (e : list (ekind * string)).

  Definition finish (order : list (string * nat)) (supplied : list (string * V)) (s : sb) : result :=
    match fill order supplied (args s) with
    | None => RMissing
    | Some a => ROk (out s) a (errs s)
    end.

  Definition to_sql (o : opts) (supplied : list (string * V)) (w : W) : result :=
    match run o w sb0 with
    | None => RPanic
    | Some s => finish (named s) supplied s
    end.
End Writer.

Arguments WKw {V}. Arguments WRaw {V}. Arguments WLit {V}. Arguments WNum {V}. Arguments WArg {V}.
Arguments WBind {V}. Arguments WIdent {V}. Arguments WType {V}. Arguments WErr {V}. Arguments WErrV {V}.
Arguments WPretty {V}. Arguments WSeq {V}. Arguments WPanic {V}.
Arguments out {V}. Arguments argIdx {V}. Arguments args {V}. Arguments named {V}. Arguments errs {V}.
Arguments mkSb {V}. Arguments sb0 {V}. Arguments emit {V}. Arguments add_err {V}.
Arguments run {V}. Arguments run_list {V}. Arguments fill {V}. Arguments finish {V}. Arguments to_sql {V}.
Arguments RPanic {V}. Arguments RMissing {V}. Arguments ROk {V}. Arguments set_nth {A}.
