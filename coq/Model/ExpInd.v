(* A usable induction principle for the value universe (nested through lists, options, pairs and the
   parameterised builder records). *)
From Coq Require Import String List ZArith Bool.
From QRB Require Import Model.Values.
Import ListNotations.

Section All.
  Variable E : Type.
  Variable P : E -> Prop.

  Definition opt_all (o : option E) : Prop := match o with Some x => P x | None => True end.
  Definition obc_all (o : obc E) : Prop := P (ob_exp o).
  Definition fromitem_all (i : fromitem E) : Prop := P (fi_from i).
  Definition grouping_all (g : grouping E) : Prop := Forall (Forall P) (ge_sets g).
  Definition out_all (l : list (E * string)) : Prop := Forall (fun x => P (fst x)) l.
  Definition set_all (l : list (string * E)) : Prop := Forall (fun x => P (snd x)) l.
  Definition parts_all (p : parts E) : Prop :=
    Forall P (p_distinctOn p) /\ opt_all (p_json p) /\ out_all (p_list p) /\
    Forall fromitem_all (p_from p) /\ Forall P (p_where p) /\ Forall grouping_all (p_groupBys p) /\
    Forall P (p_having p) /\ Forall obc_all (p_orderBys p) /\ P (p_limit p) /\ P (p_offset p).
  Definition comb_all (c : comb E) : Prop := parts_all (cb_parts c).
  Definition wsearch_all (s : wsearch E) : Prop := Forall P (ws_by s).
  Definition withq_all (q : withq E) : Prop :=
    P (wq_query q) /\ match wq_search q with Some s => wsearch_all s | None => True end.
  Definition ins_all (b : insb E) : Prop :=
    Forall withq_all (i_with b) /\ P (i_table b) /\
    match i_values b with Some rows => Forall (Forall P) rows | None => True end /\
    P (i_query b) /\ Forall P (i_ctargets b) /\ Forall P (i_ctwhere b) /\ set_all (i_cset b) /\
    Forall P (i_cwhere b) /\ out_all (i_returning b).
  Definition upd_all (b : updb E) : Prop :=
    Forall withq_all (u_with b) /\ P (u_table b) /\ set_all (u_set b) /\ Forall fromitem_all (u_from b) /\
    Forall P (u_where b) /\ out_all (u_returning b).
  Definition del_all (b : delb E) : Prop :=
    Forall withq_all (d_with b) /\ P (d_table b) /\ Forall fromitem_all (d_using b) /\
    Forall P (d_where b) /\ out_all (d_returning b).
End All.

Arguments opt_all {E}. Arguments obc_all {E}. Arguments fromitem_all {E}. Arguments grouping_all {E}.
Arguments out_all {E}. Arguments set_all {E}. Arguments parts_all {E}. Arguments comb_all {E}.
Arguments wsearch_all {E}. Arguments withq_all {E}. Arguments ins_all {E}. Arguments upd_all {E}.
Arguments del_all {E}.

Section ExpInd.
  Variable V : Type.
  Notation exp := (exp V).
  Variable P : exp -> Prop.

  Hypothesis HNil : P ENil.
  Hypothesis HBase : forall e, P e -> P (EBase e).
  Hypothesis HArg : forall v, P (EArg v).
  Hypothesis HBind : forall n, P (EBind n).
  Hypothesis HExprs : forall l, Forall P l -> P (EExprs l).
  Hypothesis HIdent : forall self s, P self -> P (EIdent self s).
  Hypothesis HType : forall s, P (EType s).
  Hypothesis HStr : forall s, P (EStr s).
  Hypothesis HFloat : forall s, P (EFloat s).
  Hypothesis HInt : forall z, P (EInt z).
  Hypothesis HBool : forall b, P (EBool b).
  Hypothesis HArray : forall l, Forall P l -> P (EArray l).
  Hypothesis HNull : P ENull.
  Hypothesis HDefault : P EDefault.
  Hypothesis HInterval : forall s, P (EInterval s).
  Hypothesis HOp : forall l op r u, P l -> P r -> P (EOp l op r u).
  Hypothesis HUnary : forall p e s z, P e -> P (EUnary p e s z).
  Hypothesis HJunction : forall l op, Forall P l -> P (EJunction l op).
  Hypothesis HIn : forall l op r, P l -> P r -> P (EIn l op r).
  Hypothesis HExists : forall q, P q -> P (EExists q).
  Hypothesis HMatch : forall l r op esc, P l -> P r -> P (EMatch l r op esc).
  Hypothesis HSubq : forall op e, P e -> P (ESubq op e).
  Hypothesis HCase : forall self expr conds els,
      P self -> P expr -> Forall (fun c => P (fst c) /\ P (snd c)) conds -> P els -> P (ECase self expr conds els).
  Hypothesis HFuncExp : forall self name a, P self -> Forall P a -> P (EFuncExp self name a).
  Hypothesis HFunc : forall self name a ord alias cd, P self -> Forall P a -> P (EFunc self name a ord alias cd).
  Hypothesis HAgg : forall self name d a obs filter within,
      P self -> Forall P a -> Forall (obc_all P) obs -> Forall P filter -> P (EAgg self name d a obs filter within).
  Hypothesis HJson : forall isb props, set_all P props -> P (EJson isb props).
  Hypothesis HExtract : forall f e, P e -> P (EExtract f e).
  Hypothesis HSelect : forall w c p,
      Forall (withq_all P) w -> Forall (comb_all P) c -> parts_all P p -> P (ESelect w c p).
  Hypothesis HInsert : forall b, ins_all P b -> P (EInsert b).
  Hypothesis HUpdate : forall b, upd_all P b -> P (EUpdate b).
  Hypothesis HDelete : forall b, del_all P b -> P (EDelete b).
  Hypothesis HJoin : forall jt lat from alias on us, P from -> P on -> P (EJoin jt lat from alias on us).
  Hypothesis HRowsFrom : forall fns ord, Forall P fns -> P (ERowsFrom fns ord).

  Ltac all_list IH :=
    match goal with
    | |- Forall _ ?l => induction l; constructor; [all_goal IH|assumption]
    end
  with all_goal IH :=
    first
      [ exact I
      | apply IH
      | all_list IH
      | match goal with
        | |- _ /\ _ => split; all_goal IH
        | |- opt_all _ ?o => destruct o; cbn; all_goal IH
        | |- match ?o with Some _ => _ | None => True end => destruct o; all_goal IH
        | |- obc_all _ ?o => destruct o; cbn; all_goal IH
        | |- fromitem_all _ ?o => destruct o; cbn; all_goal IH
        | |- grouping_all _ ?o => destruct o; unfold grouping_all; cbn; all_goal IH
        | |- wsearch_all _ ?o => destruct o; unfold wsearch_all; cbn; all_goal IH
        | |- withq_all _ ?o => destruct o; unfold withq_all; cbn; all_goal IH
        | |- parts_all _ ?o => destruct o; unfold parts_all, out_all; cbn; all_goal IH
        | |- comb_all _ ?o => destruct o; unfold comb_all; cbn; all_goal IH
        | |- out_all _ _ => unfold out_all; all_goal IH
        | |- set_all _ _ => unfold set_all; all_goal IH
        | |- P (fst ?x) => destruct x; cbn; all_goal IH
        | |- P (snd ?x) => destruct x; cbn; all_goal IH
        end ].

  Lemma exp_ind' : forall e, P e.
  Proof.
    fix IH 1. intro e. destruct e.
    - apply HNil.
    - apply HBase; all_goal IH.
    - apply HArg.
    - apply HBind.
    - apply HExprs; all_goal IH.
    - apply HIdent; all_goal IH.
    - apply HType.
    - apply HStr.
    - apply HFloat.
    - apply HInt.
    - apply HBool.
    - apply HArray; all_goal IH.
    - apply HNull.
    - apply HDefault.
    - apply HInterval.
    - apply HOp; all_goal IH.
    - apply HUnary; all_goal IH.
    - apply HJunction; all_goal IH.
    - apply HIn; all_goal IH.
    - apply HExists; all_goal IH.
    - apply HMatch; all_goal IH.
    - apply HSubq; all_goal IH.
    - apply HCase; all_goal IH.
    - apply HFuncExp; all_goal IH.
    - apply HFunc; all_goal IH.
    - apply HAgg; all_goal IH.
    - apply HJson; all_goal IH.
    - apply HExtract; all_goal IH.
    - apply HSelect; all_goal IH.
    - apply HInsert. destruct b. unfold ins_all. cbn. all_goal IH.
    - apply HUpdate. destruct b. unfold upd_all. cbn. all_goal IH.
    - apply HDelete. destruct b. unfold del_all. cbn. all_goal IH.
    - apply HJoin; all_goal IH.
    - apply HRowsFrom; all_goal IH.
  Qed.
End ExpInd.
