(* Placeholders, argument list and named binds (properties C03, C04; the fill loop for C10).
   Everything is proved for an arbitrary writer tree, hence for every value of the library. *)
From Coq Require Import String List Ascii ZArith Bool Lia Arith Permutation.
From QRB Require Import Base.Bytes Model.W Model.WInd.
Import ListNotations.

(* ---------------------------------------------------------------- generic list facts *)

Lemma lookup_In {A} n (l : list (string * A)) i : lookup n l = Some i -> In (n, i) l.
Proof.
  induction l as [|[k v] r IH]; cbn; [discriminate|].
  destruct (String.eqb n k) eqn:E.
  - intros [= <-]. apply String.eqb_eq in E. subst. now left.
  - intro H. right. now apply IH.
Qed.

Lemma lookup_None {A} n (l : list (string * A)) : lookup n l = None -> ~ In n (map fst l).
Proof.
  induction l as [|[k v] r IH]; cbn; [tauto|].
  destruct (String.eqb n k) eqn:E; [discriminate|].
  intros H [K|K]; [subst; rewrite String.eqb_refl in E; discriminate|now apply IH].
Qed.

Lemma lookup_NoDup {A} n i (l : list (string * A)) :
  NoDup (map fst l) -> In (n, i) l -> lookup n l = Some i.
Proof.
  induction l as [|[k v] r IH]; cbn; [tauto|].
  intros ND [K|K].
  - injection K as -> ->. now rewrite String.eqb_refl.
  - inversion ND as [|? ? Hn ND']; subst.
    destruct (String.eqb n k) eqn:E.
    + apply String.eqb_eq in E. subst. exfalso. apply Hn. now apply (in_map fst) in K.
    + now apply IH.
Qed.

Lemma nth_error_set_nth_eq {A} (l : list A) j x : j < length l -> nth_error (set_nth j x l) j = Some x.
Proof.
  revert j. induction l as [|y l IH]; intros [|j] H; cbn in *; try lia; [reflexivity|]. apply IH. lia.
Qed.

Lemma nth_error_set_nth_neq {A} (l : list A) j k x : j <> k -> nth_error (set_nth j x l) k = nth_error l k.
Proof.
  revert j k. induction l as [|y l IH]; intros [|j] [|k] H; cbn; try reflexivity; try lia. apply IH. lia.
Qed.

Lemma length_set_nth {A} (l : list A) j x : length (set_nth j x l) = length l.
Proof. revert j. induction l as [|y l IH]; intros [|j]; cbn; auto. Qed.

Lemma set_nth_comm {A} (l : list A) i j x y :
  i <> j -> set_nth i x (set_nth j y l) = set_nth j y (set_nth i x l).
Proof.
  revert i j. induction l as [|z l IH]; intros [|i] [|j] H; cbn; try reflexivity; try lia.
  f_equal. apply IH. lia.
Qed.

Lemma NoDup_app_snoc {A} (l : list A) x : NoDup l -> ~ In x l -> NoDup (l ++ [x]).
Proof.
  induction l as [|y l IH]; cbn; intros ND H.
  - constructor; [tauto|constructor].
  - inversion ND as [|? ? Hn ND']; subst. constructor.
    + intro K. apply in_app_or in K. destruct K as [K|[K|[]]]; [tauto|subst; tauto].
    + apply IH; tauto.
Qed.

(* ---------------------------------------------------------------- placeholders *)

Fixpoint params (l : list chunk) : list nat :=
  match l with
  | [] => []
  | CParam n :: r => n :: params r
  | _ :: r => params r
  end.

Lemma params_app a b : params (a ++ b) = params a ++ params b.
Proof.
  induction a as [|c a IH]; cbn; [reflexivity|]. destruct c; cbn; now rewrite ?IH.
Qed.

(* first occurrences, in order *)
Definition add_first (acc : list nat) (x : nat) : list nat :=
  if existsb (Nat.eqb x) acc then acc else acc ++ [x].
Definition firsts (l : list nat) : list nat := fold_left add_first l [].

Lemma firsts_snoc l x : firsts (l ++ [x]) = add_first (firsts l) x.
Proof. unfold firsts. now rewrite fold_left_app. Qed.

Lemma existsb_eqb_In x l : existsb (Nat.eqb x) l = true <-> In x l.
Proof.
  rewrite existsb_exists. split.
  - intros (y & Hy & E). apply Nat.eqb_eq in E. now subst.
  - intro H. exists x. split; [assumption|apply Nat.eqb_refl].
Qed.

Lemma add_first_seq_new n : add_first (seq 1 n) (S n) = seq 1 (S n).
Proof.
  unfold add_first. destruct (existsb (Nat.eqb (S n)) (seq 1 n)) eqn:E.
  - apply existsb_eqb_In in E. apply in_seq in E. lia.
  - now rewrite seq_S.
Qed.

Lemma add_first_seq_old n i : 1 <= i <= n -> add_first (seq 1 n) i = seq 1 n.
Proof.
  intro H. unfold add_first. destruct (existsb (Nat.eqb i) (seq 1 n)) eqn:E; [reflexivity|].
  assert (K : In i (seq 1 n)) by (apply in_seq; lia).
  apply existsb_eqb_In in K. congruence.
Qed.

Ltac simpl_sb := cbn [out argIdx args named errs emit add_err].
Ltac simpl_sb_in H := cbn [out argIdx args named errs emit add_err] in H.

Section Args.
  Variable V : Type.
  Notation sb := (sb V).

  (* ------------------------------------------------------------ the state invariant *)
  Record Inv (s : sb) : Prop := {
    inv_idx : argIdx s = length (args s);
    inv_firsts : firsts (params (out s)) = seq 1 (argIdx s);
    inv_named : forall n i, In (n, i) (named s) ->
                  1 <= i <= argIdx s /\ nth_error (args s) (i - 1) = Some None;
    inv_names : NoDup (map fst (named s));
    inv_idxs : NoDup (map snd (named s));
    inv_none : forall j, nth_error (args s) j = Some None -> exists n, In (n, S j) (named s)
  }.

  Lemma Inv_sb0 : Inv sb0.
  Proof.
    constructor; cbn.
    - reflexivity.
    - reflexivity.
    - tauto.
    - constructor.
    - constructor.
    - intros k Hk. destruct k; discriminate.
  Qed.

  Lemma Inv_emit_other c s :
    (forall n, c <> CParam n) -> Inv s -> Inv (emit c s).
  Proof.
    intros Hc [H1 H2 H3 H4 H5 H6]. constructor; simpl_sb; try assumption.
    rewrite params_app. destruct c; cbn [params]; rewrite ?app_nil_r; try assumption. now destruct (Hc n).
  Qed.

  Lemma Inv_add_err e s : Inv s -> Inv (add_err e s).
  Proof. intros [H1 H2 H3 H4 H5 H6]. constructor; simpl_sb; assumption. Qed.

  Lemma Inv_arg v s :
    Inv s ->
    Inv (emit (CParam (S (argIdx s))) (mkSb (out s) (S (argIdx s)) (args s ++ [Some v]) (named s) (errs s))).
  Proof.
    intros [H1 H2 H3 H4 H5 H6]. constructor; simpl_sb; try assumption.
    - rewrite app_length. cbn. lia.
    - rewrite params_app; cbn [params]; rewrite firsts_snoc, H2. apply add_first_seq_new.
    - intros n i Hi. destruct (H3 n i Hi) as [Ha Hb]. split; [lia|].
      rewrite nth_error_app1; [assumption|]. lia.
    - intros j Hj. destruct (Nat.lt_ge_cases j (length (args s))) as [L|L].
      + rewrite nth_error_app1 in Hj by assumption. now apply H6.
      + rewrite nth_error_app2 in Hj by assumption.
        destruct (j - length (args s)) as [|[|k]]; cbn in Hj; discriminate.
  Qed.

  Lemma Inv_bind_old n i s :
    Inv s -> lookup n (named s) = Some i -> Inv (emit (CParam i) s).
  Proof.
    intros [H1 H2 H3 H4 H5 H6] L. constructor; simpl_sb; try assumption.
    rewrite params_app; cbn [params]; rewrite firsts_snoc, H2. apply add_first_seq_old.
    apply lookup_In in L. now destruct (H3 _ _ L).
  Qed.

  Lemma Inv_bind_new n s :
    Inv s -> lookup n (named s) = None ->
    Inv (emit (CParam (S (argIdx s)))
           (mkSb (out s) (S (argIdx s)) (args s ++ [None]) (named s ++ [(n, S (argIdx s))]) (errs s))).
  Proof.
    intros [H1 H2 H3 H4 H5 H6] L. constructor; simpl_sb.
    - rewrite app_length. cbn. lia.
    - rewrite params_app; cbn [params]; rewrite firsts_snoc, H2. apply add_first_seq_new.
    - intros m i Hi. apply in_app_or in Hi. destruct Hi as [Hi|[Hi|[]]].
      + destruct (H3 m i Hi) as [Ha Hb]. split; [lia|]. rewrite nth_error_app1; [assumption|lia].
      + injection Hi as <- <-. split; [lia|]. rewrite nth_error_app2 by lia.
        replace (S (argIdx s) - 1 - length (args s)) with 0 by lia. reflexivity.
    - rewrite map_app. cbn. apply NoDup_app_snoc; [assumption|]. now apply lookup_None.
    - rewrite map_app. cbn. apply NoDup_app_snoc; [assumption|].
      intro K. apply in_map_iff in K. destruct K as ([m i] & E & K). cbn in E. subst i.
      destruct (H3 _ _ K). lia.
    - intros j Hj. destruct (Nat.lt_ge_cases j (length (args s))) as [Lt|Ge].
      + rewrite nth_error_app1 in Hj by assumption. destruct (H6 j Hj) as [m Hm].
        exists m. apply in_or_app. now left.
      + rewrite nth_error_app2 in Hj by assumption.
        destruct (j - length (args s)) as [|k] eqn:E; cbn in Hj; [|destruct k; discriminate].
        exists n. apply in_or_app. right. left. f_equal. lia.
  Qed.
End Args.

(* ---------------------------------------------------------------- the stateless renderer *)

Section Inline.
  Variable V : Type.
  Variables validI validT : string -> bool.
  Notation run := (run validI validT).
  Notation run_list := (run_list validI validT).
  Notation sb := (sb V).

  (* what the caller composed, with every value in place *)
  Inductive ichunk := IC (c : chunk) | IVal (v : V) | INamed (n : string).

  Fixpoint inline (o : opts) (w : W V) {struct w} : option (list ichunk) :=
    match w with
    | WKw t => Some [IC (CKw t)]
    | WRaw t => Some [IC (CRaw t)]
    | WLit t => Some [IC (CLit t)]
    | WNum t => Some [IC (CNum t)]
    | WArg v => Some [IVal v]
    | WBind n => Some [INamed n]
    | WIdent t => if validating o && negb (validI t) then Some [] else Some [IC (CIdent t)]
    | WType t => if validating o && negb (validT t) then Some [] else Some [IC (CType t)]
    | WErr _ | WErrV _ => Some []
    | WPretty k => Some [IC (CWs (if pretty o then pws_pretty k else pws_plain k))]
    | WSeq l =>
        (fix go (l : list (W V)) : option (list ichunk) :=
           match l with
           | [] => Some []
           | w :: r => match inline o w, go r with
                       | Some a, Some b => Some (a ++ b)
                       | _, _ => None
                       end
           end) l
    | WPanic => None
    end.

  Fixpoint inline_list (o : opts) (l : list (W V)) : option (list ichunk) :=
    match l with
    | [] => Some []
    | w :: r => match inline o w, inline_list o r with
                | Some a, Some b => Some (a ++ b)
                | _, _ => None
                end
    end.

  Lemma inline_seq o l : inline o (WSeq l) = inline_list o l.
  Proof. cbn [inline]. induction l as [|w r IH]; cbn [inline_list]; [reflexivity|]. now rewrite IH. Qed.

  (* both renderings are compared after resolving placeholders / names to values *)
  Inductive rchunk := RC (c : chunk) | RV (v : option V).

  Definition opt_join {A} (x : option (option A)) : option A := match x with Some y => y | None => None end.

  Definition subst (a : list (option V)) (c : chunk) : rchunk :=
    match c with
    | CParam k => match k with O => RV None | S k' => RV (opt_join (nth_error a k')) end
    | _ => RC c
    end.

  Definition resolve (supplied : list (string * V)) (i : ichunk) : rchunk :=
    match i with
    | IC c => RC c
    | IVal v => RV (Some v)
    | INamed n => RV (lookup n supplied)
    end.

  (* a final argument list [a] is compatible with state [s] *)
  Definition compat (a : list (option V)) (supplied : list (string * V)) (s : sb) : Prop :=
    (forall j v, nth_error (args s) j = Some (Some v) -> nth_error a j = Some (Some v)) /\
    (forall n i, In (n, i) (named s) -> nth_error a (i - 1) = Some (lookup n supplied)).

  Definition Sim (s : sb) (il : list ichunk) : Prop :=
    Forall (fun c => forall n, c <> CParam n) (map (fun i => match i with IC c => c | _ => CKw EmptyString end) il) /\
    forall a supplied, compat a supplied s -> map (subst a) (out s) = map (resolve supplied) il.

  Lemma compat_extends a sup s s' :
    extends s s' -> compat a sup s' -> compat a sup s.
  Proof.
    intros (_ & [d2 H2] & [d3 H3] & _) [C1 C2]. split.
    - intros j v Hj. apply C1. rewrite H2. rewrite nth_error_app1; [assumption|].
      apply nth_error_Some. congruence.
    - intros n i Hi. apply C2. rewrite H3. apply in_or_app. now left.
  Qed.

  Lemma Sim_sb0 : Sim sb0 [].
  Proof. split; [constructor|reflexivity]. Qed.

  Lemma Sim_emit_other c s il :
    (forall n, c <> CParam n) -> Sim s il -> Sim (emit c s) (il ++ [IC c]).
  Proof.
    intros Hc [F HSm]. split.
    - rewrite map_app. apply Forall_app. split; [assumption|]. constructor; [assumption|constructor].
    - intros a sup C. simpl_sb. rewrite !map_app. f_equal.
      + apply HSm. destruct C as [C1 C2]. split; assumption.
      + cbn. destruct c; try reflexivity. now destruct (Hc n).
  Qed.

  Lemma Sim_add_err e s il : Sim s il -> Sim (add_err e s) il.
  Proof. intros [F HSm]. split; [assumption|]. intros a sup [C1 C2]. apply HSm. split; assumption. Qed.

  Lemma Sim_nil_r s il : Sim s il -> Sim s (il ++ []).
  Proof. now rewrite app_nil_r. Qed.

  Lemma Forall_ic_app il x :
    Forall (fun c => forall n, c <> CParam n) (map (fun i => match i with IC c => c | _ => CKw EmptyString end) il) ->
    (forall c, x = IC c -> forall n, c <> CParam n) ->
    Forall (fun c => forall n, c <> CParam n) (map (fun i => match i with IC c => c | _ => CKw EmptyString end) (il ++ [x])).
  Proof.
    intros F H. rewrite map_app. apply Forall_app. split; [assumption|]. constructor; [|constructor].
    destruct x; cbn; try discriminate. now apply H.
  Qed.

  Theorem run_sim o (w : W V) :
    forall s s' il, Inv V s -> Sim s il -> run o w s = Some s' ->
      exists il', inline o w = Some il' /\ Inv V s' /\ Sim s' (il ++ il').
  Proof.
    induction w as [t|t|t|t|v|n|t|t|k|k|pk|l IH|] using W_ind'; intros s s' il HI HS H.
    1-11: cbn [W.run] in H.
    - injection H as <-. eexists; split; [reflexivity|]. split;
        [apply Inv_emit_other; [discriminate|assumption]|apply Sim_emit_other; [discriminate|assumption]].
    - injection H as <-. eexists; split; [reflexivity|]. split;
        [apply Inv_emit_other; [discriminate|assumption]|apply Sim_emit_other; [discriminate|assumption]].
    - injection H as <-. eexists; split; [reflexivity|]. split;
        [apply Inv_emit_other; [discriminate|assumption]|apply Sim_emit_other; [discriminate|assumption]].
    - injection H as <-. eexists; split; [reflexivity|]. split;
        [apply Inv_emit_other; [discriminate|assumption]|apply Sim_emit_other; [discriminate|assumption]].
    - (* WArg *)
      injection H as <-. eexists; split; [reflexivity|]. split; [now apply Inv_arg|].
      destruct HS as [F HSm]. split; [apply Forall_ic_app; [assumption|discriminate]|].
      intros a0 sup C. simpl_sb. rewrite !map_app. f_equal.
      + apply HSm. destruct C as [C1 C2]. simpl_sb_in C1; simpl_sb_in C2. split; [|assumption].
        intros j v' Hj. apply C1. rewrite nth_error_app1; [assumption|]. apply nth_error_Some. congruence.
      + cbn. destruct C as [C1 _]. simpl_sb_in C1. f_equal.
        rewrite (C1 (argIdx s) v); [reflexivity|].
        rewrite (inv_idx _ _ HI). rewrite nth_error_app2 by lia. now rewrite Nat.sub_diag.
    - (* WBind *)
      destruct (lookup n (named s)) as [i|] eqn:L; injection H as <-.
      + eexists; split; [reflexivity|]. split; [now apply (Inv_bind_old V n)|].
        destruct HS as [F HSm]. split; [apply Forall_ic_app; [assumption|discriminate]|].
        intros a0 sup C. simpl_sb. rewrite !map_app. f_equal.
        * apply HSm. destruct C as [C1 C2]. split; assumption.
        * cbn. destruct C as [_ C2]. simpl_sb_in C2. apply lookup_In in L.
          pose proof (inv_named _ _ HI _ _ L) as [Hr _].
          destruct i as [|i']; [lia|]. f_equal.
          specialize (C2 _ _ L). cbn in C2. rewrite Nat.sub_0_r in C2. now rewrite C2.
      + eexists; split; [reflexivity|]. split; [now apply Inv_bind_new|].
        destruct HS as [F HSm]. split; [apply Forall_ic_app; [assumption|discriminate]|].
        intros a0 sup C. simpl_sb. rewrite !map_app. f_equal.
        * apply HSm. destruct C as [C1 C2]. simpl_sb_in C1; simpl_sb_in C2. split.
          -- intros j v' Hj. apply C1. rewrite nth_error_app1; [assumption|]. apply nth_error_Some. congruence.
          -- intros m i Hi. apply C2. apply in_or_app. now left.
        * cbn. destruct C as [_ C2]. simpl_sb_in C2. f_equal.
          specialize (C2 n (S (argIdx s))). cbn in C2. rewrite Nat.sub_0_r in C2.
          rewrite C2; [reflexivity|]. apply in_or_app. right. now left.
    - (* WIdent *)
      cbn [inline]. destruct (validating o && negb (validI t)); injection H as <-; eexists; (split; [reflexivity|]).
      + split; [now apply Inv_add_err|]. apply Sim_nil_r. now apply Sim_add_err.
      + split; [apply Inv_emit_other; [discriminate|assumption]|apply Sim_emit_other; [discriminate|assumption]].
    - (* WType *)
      cbn [inline]. destruct (validating o && negb (validT t)); injection H as <-; eexists; (split; [reflexivity|]).
      + split; [now apply Inv_add_err|]. apply Sim_nil_r. now apply Sim_add_err.
      + split; [apply Inv_emit_other; [discriminate|assumption]|apply Sim_emit_other; [discriminate|assumption]].
    - injection H as <-. eexists; split; [reflexivity|]. split; [now apply Inv_add_err|].
      apply Sim_nil_r. now apply Sim_add_err.
    - destruct (validating o); injection H as <-; (eexists; split; [reflexivity|]).
      + split; [now apply Inv_add_err|]. apply Sim_nil_r. now apply Sim_add_err.
      + split; [assumption|now apply Sim_nil_r].
    - injection H as <-. eexists; split; [reflexivity|]. split;
        [apply Inv_emit_other; [discriminate|assumption]|apply Sim_emit_other; [discriminate|assumption]].
    - (* WSeq *)
      rewrite run_seq in H. rewrite inline_seq.
      revert s s' il HI HS H. induction IH as [|w r Hw _ IHr]; intros s s' il HI HS H; cbn [W.run_list] in H.
      + injection H as <-. exists []. split; [reflexivity|]. split; [assumption|now apply Sim_nil_r].
      + destruct (run o w s) as [s1|] eqn:E; [|discriminate].
        destruct (Hw _ _ _ HI HS E) as (il1 & E1 & HI1 & HS1).
        destruct (IHr _ _ _ HI1 HS1 H) as (il2 & E2 & HI2 & HS2).
        exists (il1 ++ il2). cbn [inline_list]. rewrite E1, E2. split; [reflexivity|].
        split; [assumption|]. now rewrite app_assoc.
    - discriminate.
  Qed.
End Inline.

(* ---------------------------------------------------------------- the fill loop of writeToSQLString *)

Section Fill.
  Variable V : Type.

  Lemma fill_facts (sup : list (string * V)) :
    forall order a0 a,
      fill order sup a0 = Some a ->
      NoDup (map snd order) ->
      (forall n i, In (n, i) order -> 1 <= i <= length a0) ->
      length a = length a0 /\
      (forall n i, In (n, i) order ->
         exists v, lookup n sup = Some v /\ nth_error a (i - 1) = Some (Some v)) /\
      (forall j, (forall n i, In (n, i) order -> i - 1 <> j) -> nth_error a j = nth_error a0 j).
  Proof.
    induction order as [|[n i] r IH]; intros a0 a H ND R; cbn [fill] in H.
    - injection H as <-. split; [reflexivity|split; [intros ? ? []|reflexivity]].
    - destruct (lookup n sup) as [v|] eqn:L; [|discriminate].
      cbn [map snd] in ND. inversion ND as [|? ? Hn ND']; subst.
      assert (R' : forall m k, In (m, k) r -> 1 <= k <= length (set_nth (i - 1) (Some v) a0)).
      { intros m k Hk. rewrite length_set_nth. apply (R m k). now right. }
      destruct (IH _ _ H ND' R') as (Hl & Hn' & Ho). rewrite length_set_nth in Hl.
      assert (Ri : 1 <= i <= length a0) by (apply (R n i); now left).
      split; [assumption|]. split.
      + intros m k [E|Hk].
        * injection E as -> ->. exists v. split; [assumption|].
          rewrite Ho.
          -- apply nth_error_set_nth_eq. lia.
          -- intros m' k' Hk' E. apply Hn. assert (K : 1 <= k') by (apply (R' m' k' Hk')).
             replace k with k' by lia. now apply (in_map snd) in Hk'.
        * now apply Hn'.
      + intros j Hj. rewrite Ho.
        * apply nth_error_set_nth_neq. apply (Hj n i). now left.
        * intros m k Hk. apply (Hj m k). now right.
  Qed.

  Lemma fill_none (sup : list (string * V)) :
    forall order a0, fill order sup a0 = None <-> exists n i, In (n, i) order /\ lookup n sup = None.
  Proof.
    induction order as [|[n i] r IH]; intro a0; cbn [fill].
    - split; [discriminate|intros (? & ? & [] & _)].
    - destruct (lookup n sup) as [v|] eqn:L.
      + rewrite IH. split.
        * intros (m & k & H & E). exists m, k. split; [now right|assumption].
        * intros (m & k & [H|H] & E); [injection H as -> ->; congruence|exists m, k; tauto].
      + split; [|reflexivity]. intros _. exists n, i. split; [now left|assumption].
  Qed.

  (* Go iterates over the bind table (a map) in an arbitrary order *)
  Lemma fill_perm (sup : list (string * V)) order order' :
    Permutation order order' -> NoDup (map snd order) ->
    (forall n i, In (n, i) order -> 1 <= i) ->
    forall a0, fill order sup a0 = fill order' sup a0.
  Proof.
    induction 1 as [|[n i] l l' P IH|[n i] [m k] l|l l' l'' P1 IH1 P2 IH2]; intros ND R a0.
    - reflexivity.
    - cbn [fill]. destruct (lookup n sup); [|reflexivity]. apply IH.
      + cbn in ND. now inversion ND.
      + intros ? ? H. apply (R _ _ (or_intror H)).
    - cbn [fill]. destruct (lookup m sup) as [vm|], (lookup n sup) as [vn|]; try reflexivity.
      f_equal. apply set_nth_comm. cbn in ND. inversion ND as [|? ? Hn _]; subst.
      assert (1 <= k) by (apply (R m k); now left).
      assert (1 <= i) by (apply (R n i); right; now left).
      intro E. apply Hn. left. lia.
    - rewrite IH1 by assumption. apply IH2.
      + eapply Permutation_NoDup; [apply Permutation_map, P1|assumption].
      + intros n i H. apply (R n i). eapply Permutation_in; [apply Permutation_sym, P1|assumption].
  Qed.
End Fill.

(* ---------------------------------------------------------------- theorems about to_sql *)

Section ToSql.
  Variable V : Type.
  Variables validI validT : string -> bool.
  Notation to_sql := (to_sql validI validT).
  Notation run := (run validI validT).

  Lemma run_from_sb0 o (w : W V) s :
    run o w sb0 = Some s ->
    exists il, inline V validI validT o w = Some il /\ Inv V s /\ Sim V s il.
  Proof.
    intro H. destruct (run_sim V validI validT o w sb0 s [] (Inv_sb0 V) (Sim_sb0 V) H) as (il & E & HI & HS).
    exists il. auto.
  Qed.

  Lemma named_range (s : sb V) : Inv V s -> forall n i, In (n, i) (named s) -> 1 <= i <= length (args s).
  Proof. intros HI n i H. destruct (inv_named _ _ HI _ _ H). rewrite <- (inv_idx _ _ HI). assumption. Qed.

  Lemma compat_after_fill (s : sb V) sup a :
    Inv V s -> fill (named s) sup (args s) = Some a -> compat V a sup s.
  Proof.
    intros HI Hf.
    destruct (fill_facts V sup _ _ _ Hf (inv_idxs _ _ HI) (named_range s HI)) as (Hl & Hn & Ho).
    split.
    - intros j v Hj. rewrite Ho; [assumption|].
      intros n i Hi E. destruct (inv_named _ _ HI _ _ Hi) as [_ K]. rewrite E in K. congruence.
    - intros n i Hi. destruct (Hn _ _ Hi) as (v & L & E). now rewrite L.
  Qed.

  (* C03, first half: the placeholders of the text are exactly $1..$n, n = length of the argument
     list, numbered in order of first occurrence; every slot of the argument list is filled. *)
  Theorem placeholders_enumerate o sup (w : W V) sql a e :
    to_sql o sup w = ROk sql a e ->
    firsts (params sql) = seq 1 (length a) /\
    (forall j, j < length a -> exists v, nth_error a j = Some (Some v)).
  Proof.
    unfold W.to_sql, finish. destruct (run o w sb0) as [s|] eqn:R; [|discriminate].
    destruct (fill (named s) sup (args s)) as [a'|] eqn:Hf; [|discriminate].
    intros [= <- <- <-].
    destruct (run_from_sb0 _ _ _ R) as (il & _ & HI & _).
    destruct (fill_facts V sup _ _ _ Hf (inv_idxs _ _ HI) (named_range s HI)) as (Hl & Hn & Ho).
    split.
    - rewrite (inv_firsts _ _ HI), (inv_idx _ _ HI). now rewrite Hl.
    - intros j Hj. rewrite Hl in Hj.
      destruct (nth_error (args s) j) as [[v|]|] eqn:E.
      + exists v. rewrite Ho; [assumption|].
        intros n i Hi E'. destruct (inv_named _ _ HI _ _ Hi) as [_ K]. rewrite E' in K. congruence.
      + destruct (inv_none _ _ HI _ E) as [n Hi]. destruct (Hn _ _ Hi) as (v & _ & K).
        exists v. cbn in K. now rewrite Nat.sub_0_r in K.
      + apply nth_error_None in E. lia.
  Qed.

  (* C03, second half: substituting $k by args[k-1] gives back exactly what was composed, value
     for value and position for position (the stateless rendering). *)
  Theorem substitution_is_inline o sup (w : W V) sql a e :
    to_sql o sup w = ROk sql a e ->
    exists il, inline V validI validT o w = Some il /\
               map (subst V a) sql = map (resolve V sup) il.
  Proof.
    unfold W.to_sql, finish. destruct (run o w sb0) as [s|] eqn:R; [|discriminate].
    destruct (fill (named s) sup (args s)) as [a'|] eqn:Hf; [|discriminate].
    intros [= <- <- <-].
    destruct (run_from_sb0 _ _ _ R) as (il & E & HI & [_ HS]).
    exists il. split; [assumption|]. apply HS. now apply compat_after_fill.
  Qed.

  (* C04: a missing name fails the rendering, whatever the iteration order of the bind table *)
  Theorem missing_name_fails o sup (w : W V) s :
    run o w sb0 = Some s ->
    (exists n i, In (n, i) (named s) /\ lookup n sup = None) ->
    forall order, Permutation (named s) order -> finish order sup s = RMissing.
  Proof.
    intros R Hm order P. unfold finish.
    destruct (run_from_sb0 _ _ _ R) as (il & _ & HI & _).
    rewrite <- (fill_perm V sup _ _ P (inv_idxs _ _ HI)).
    - apply (fill_none V sup (named s) (args s)) in Hm. now rewrite Hm.
    - intros n i H. now destruct (named_range s HI n i H).
  Qed.

  Theorem order_irrelevant o sup (w : W V) s :
    run o w sb0 = Some s ->
    forall order, Permutation (named s) order -> finish order sup s = finish (named s) sup s.
  Proof.
    intros R order P. unfold finish.
    destruct (run_from_sb0 _ _ _ R) as (il & _ & HI & _).
    rewrite <- (fill_perm V sup _ _ P (inv_idxs _ _ HI)); [reflexivity|].
    intros n i H. now destruct (named_range s HI n i H).
  Qed.

  (* extra names change nothing: only the names used by the query are ever looked up *)
  Lemma fill_ext (sup sup' : list (string * V)) order :
    (forall n i, In (n, i) order -> lookup n sup = lookup n sup') ->
    forall a0, fill order sup a0 = fill order sup' a0.
  Proof.
    induction order as [|[n i] r IH]; intros H a0; cbn [fill]; [reflexivity|].
    rewrite <- (H n i (or_introl eq_refl)). destruct (lookup n sup); [|reflexivity].
    apply IH. intros m k Hk. apply (H m k). now right.
  Qed.

  Theorem extras_irrelevant o sup sup' (w : W V) :
    (forall s, run o w sb0 = Some s -> forall n i, In (n, i) (named s) -> lookup n sup = lookup n sup') ->
    to_sql o sup w = to_sql o sup' w.
  Proof.
    intro H. unfold W.to_sql, finish. destruct (run o w sb0) as [s|] eqn:R; [|reflexivity].
    now rewrite (fill_ext sup sup' (named s) (H s eq_refl)).
  Qed.

  (* the value at a name's position is the supplied value; same name <-> same position *)
  Theorem named_value o sup (w : W V) s a :
    run o w sb0 = Some s -> fill (named s) sup (args s) = Some a ->
    forall n i, In (n, i) (named s) ->
      1 <= i <= length a /\ exists v, lookup n sup = Some v /\ nth_error a (i - 1) = Some (Some v).
  Proof.
    intros R Hf n i Hi. destruct (run_from_sb0 _ _ _ R) as (il & _ & HI & _).
    destruct (fill_facts V sup _ _ _ Hf (inv_idxs _ _ HI) (named_range s HI)) as (Hl & Hn & _).
    split; [rewrite Hl; now apply (named_range s HI n i)|now apply Hn].
  Qed.

  Theorem named_injective o (w : W V) s :
    run o w sb0 = Some s ->
    forall n i m k, In (n, i) (named s) -> In (m, k) (named s) -> (n = m <-> i = k).
  Proof.
    intros R n i m k H1 H2. destruct (run_from_sb0 _ _ _ R) as (il & _ & HI & _).
    pose proof (inv_names _ _ HI) as N1. pose proof (inv_idxs _ _ HI) as N2.
    split; intro E; subst.
    - pose proof (lookup_NoDup _ _ _ N1 H1) as L1. pose proof (lookup_NoDup _ _ _ N1 H2) as L2. congruence.
    - clear N1. induction (named s) as [|[x y] r IH]; [destruct H1|].
      cbn in N2. inversion N2 as [|? ? Hn N2']; subst.
      destruct H1 as [E1|H1], H2 as [E2|H2].
      + congruence.
      + injection E1 as -> ->. exfalso. apply Hn. now apply (in_map snd) in H2.
      + injection E2 as -> ->. exfalso. apply Hn. now apply (in_map snd) in H1.
      + now apply IH.
  Qed.
End ToSql.
