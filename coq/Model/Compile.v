(* compile : Go value -> writer tree.  A line-by-line transliteration of every WriteSQL /
   innerWriteSQL / writeSQL method of builder/*.go and fn/functions_datetime.go.  All control flow of
   those methods depends on the value only (early returns after AddError included), except the reads
   of the two option switches, which are primitives of W.  No proofs in this file. *)
From Coq Require Import List String Ascii ZArith Bool.
From QRB Require Import Base.Bytes Model.W Model.Values.
Import ListNotations.
Local Open Scope string_scope.
Local Open Scope list_scope.

(* builder/op.go: opPrecedence (zero value for anything not listed) *)
Definition op_prec (op : string) : Z :=
  if String.eqb op "." then 7 else if String.eqb op "::" then 6
  else if String.eqb op "^" then 3
  else if String.eqb op "*" then 2 else if String.eqb op "/" then 2 else if String.eqb op "%" then 2
  else if String.eqb op "+" then 1 else if String.eqb op "-" then 1
  else if String.eqb op "BETWEEN" then -1 else if String.eqb op "IN" then -1
  else if String.eqb op "LIKE" then -1 else if String.eqb op "ILIKE" then -1
  else if String.eqb op "SIMILAR" then -1
  else if String.eqb op "<" then -2 else if String.eqb op ">" then -2 else if String.eqb op "=" then -2
  else if String.eqb op "<=" then -2 else if String.eqb op ">=" then -2 else if String.eqb op "<>" then -2
  else if String.eqb op "IS" then -3 else if String.eqb op "ISNULL" then -3
  else if String.eqb op "NOTNULL" then -3
  else if String.eqb op "NOT" then -4
  else if String.eqb op "AND" then -5 else if String.eqb op "OR" then -5
  else 0.

Section Compile.
  Variable V : Type.
  Notation exp := (exp V).
  Notation W := (W V).

  Definition kw (s : string) : W := WKw s.

  Fixpoint sep_by (sep : W) (l : list W) : list W :=
    match l with
    | [] => []
    | [x] => [x]
    | x :: r => x :: sep :: sep_by sep r
    end.

  Definition nonempty (s : string) : bool := negb (String.eqb s "").
  Definition nonnil {A} (l : list A) : bool := match l with [] => false | _ => true end.
  Definition when (b : bool) (l : list W) : W := if b then WSeq l else WSeq [].
  Definition raws (sep : string) (l : list string) : W := WSeq (sep_by (kw sep) (map (@WRaw V) l)).

  (* x.(Precedencer): opExp, unaryExp and junctionExp are the only types with a Precedence method *)
  Definition prec_of (e : exp) : option Z :=
    match e with
    | EOp _ op _ _ => Some (op_prec op)
    | EUnary _ _ _ p => Some p
    | EJunction _ op => Some (op_prec op)
    | _ => None
    end.
  Definition is_junction (e : exp) : bool := match e with EJunction _ _ => true | _ => false end.
  Definition is_select (e : exp) : bool := match e with ESelect _ _ _ => true | _ => false end.
  Definition is_join (e : exp) : bool := match e with EJoin _ _ _ _ _ _ => true | _ => false end.

  Definition paren_if (b : bool) (w : W) : W := if b then WSeq [kw "("; w; kw ")"] else w.

  (* junctionExp.WriteSQL, also used for And(conjunction...) of WHERE / HAVING / FILTER / ON CONFLICT *)
  Definition c_junction (f : exp -> W) (l : list exp) (op : string) : W :=
    match l with
    | [x] => f x
    | _ => WSeq (sep_by (WSeq [kw " "; kw op; kw " "])
                  (map (fun x => paren_if (is_junction x) (f x)) l))
    end.

  Definition c_obc (f : exp -> W) (o : obc exp) : W :=
    WSeq [f (ob_exp o);
          when (nonempty (ob_order o)) [kw " "; kw (ob_order o)];
          when (nonempty (ob_nulls o)) [kw " "; kw (ob_nulls o)]].

  Definition c_fromitem (f : exp -> W) (i : fromitem exp) : W :=
    WSeq [when (fi_lateral i && fi_only i) [WErr EkLateralOnly];
               when (fi_only i) [kw "ONLY "];
               when (fi_lateral i) [kw "LATERAL "];
               f (fi_from i);
               when (nonempty (fi_alias i)) [kw " AS "; WRaw (fi_alias i)];
               when (nonnil (fi_colaliases i))
                 [when (negb (nonempty (fi_alias i))) [kw " AS"];
                  kw " ("; raws "," (fi_colaliases i); kw ")"]].

  Definition c_set (f : exp -> W) (l : list exp) : W :=
    match l with
    | [x] => f x
    | _ => WSeq [kw "("; WSeq (sep_by (kw ",") (map f l)); kw ")"]
    end.

  Definition c_grouping (f : exp -> W) (g : grouping exp) : W :=
    if negb (nonempty (ge_type g)) then
      match ge_sets g with
      | s :: _ => c_set f s
      | [] => WPanic                                     (* e.sets[0] on an empty slice *)
      end
    else
      let many := match ge_sets g with _ :: _ :: _ => true | _ => false end in
      WSeq [kw (ge_type g);
            (if many then kw " (" else kw " ");
            WSeq (sep_by (kw ",") (map (c_set f) (ge_sets g)));
            when many [kw ")"]].

  Definition c_lock (l : lockc) : W :=
    WSeq [kw "FOR "; kw (lk_strength l);
          when (nonnil (lk_of l)) [kw " OF "; raws "," (lk_of l)];
          when (nonempty (lk_wait l)) [kw " "; kw (lk_wait l)]].

  Definition c_outlist (f : exp -> W) (l : list (exp * string)) : W :=
    WSeq (sep_by (kw ",")
            (map (fun x => WSeq [f (fst x); when (nonempty (snd x)) [kw " AS "; WRaw (snd x)]]) l)).

  (* writeSelectParts *)
  Definition c_from_list (f : exp -> W) (l : list (fromitem exp)) : list W :=
    match l with
    | [] => []
    | x :: r => c_fromitem f x ::
                map (fun i => WSeq [(if is_join (fi_from i) then kw " " else kw ","); c_fromitem f i]) r
    end.

  Definition c_parts (f : exp -> W) (p : parts exp) : W :=
    WSeq [kw "SELECT ";
          when (p_distinct p)
            [kw "DISTINCT ";
             when (nonnil (p_distinctOn p))
               [kw "ON ("; WSeq (sep_by (kw ",") (map f (p_distinctOn p))); kw ") "]];
          match p_json p with
          | Some j => WSeq [f j;
                            when (nonempty (p_jsonAlias p)) [kw " AS "; WRaw (p_jsonAlias p)];
                            when (nonnil (p_list p)) [kw ","]]
          | None => WSeq []
          end;
          c_outlist f (p_list p);
          when (nonnil (p_from p)) [kw " FROM "; WSeq (c_from_list f (p_from p))];
          when (nonnil (p_where p)) [kw " WHERE "; c_junction f (p_where p) "AND"];
          when (nonnil (p_groupBys p))
            [kw " GROUP BY "; when (p_gbDistinct p) [kw "DISTINCT "];
             WSeq (sep_by (kw ",") (map (c_grouping f) (p_groupBys p)))];
          when (nonnil (p_having p)) [kw " HAVING "; c_junction f (p_having p) "AND"]].

  Definition c_wsearch (f : exp -> W) (s : wsearch exp) : W :=
    WSeq [kw " SEARCH "; kw (ws_type s); kw " FIRST BY ";
          WSeq (sep_by (kw ",") (map f (ws_by s))); kw " SET "; WRaw (ws_set s)].

  Definition c_withq (f : exp -> W) (q : withq exp) : W :=
    WSeq [WRaw (wq_name q);
          when (nonnil (wq_cols q)) [kw "("; raws "," (wq_cols q); kw ")"];
          kw " AS ";
          match wq_mat q with
          | Some m => WSeq [when (negb m) [kw "NOT "]; kw "MATERIALIZED "]
          | None => WSeq []
          end;
          f (wq_query q);
          match wq_search q with Some s => c_wsearch f s | None => WSeq [] end].

  (* withQueries.WriteSQL, guarded by len > 0 at every call site *)
  Definition c_withs (f : exp -> W) (l : list (withq exp)) : W :=
    when (nonnil l)
      [kw "WITH "; when (existsb (@wq_rec exp) l) [kw "RECURSIVE "];
       WSeq (sep_by (kw ",") (map (c_withq f) l)); kw " "].

  Definition c_comb (f : exp -> W) (c : comb exp) : W :=
    WSeq [c_parts f (cb_parts c); kw " "; kw (cb_type c); when (cb_all c) [kw " ALL"]; kw " "].

  (* SelectBuilder.innerWriteSQL *)
  Definition c_select_inner (f : exp -> W) (w : list (withq exp)) (c : list (comb exp)) (p : parts exp) : W :=
    WSeq [c_withs f w;
          WSeq (map (c_comb f) c);
          c_parts f p;
          when (nonnil (p_orderBys p))
            [kw " ORDER BY "; WSeq (sep_by (kw ",") (map (c_obc f) (p_orderBys p)))];
          when (negb (is_nil (p_limit p))) [kw " LIMIT "; f (p_limit p)];
          when (negb (is_nil (p_offset p))) [kw " OFFSET "; f (p_offset p)];
          when (nonempty (lk_strength (p_lock p))) [kw " "; c_lock (p_lock p)]].

  Definition c_returning (f : exp -> W) (l : list (exp * string)) : W :=
    when (nonnil l) [kw " RETURNING "; c_outlist f l].

  Definition c_setitems (f : exp -> W) (l : list (string * exp)) : W :=
    WSeq (sep_by (kw ",") (map (fun x => WSeq [WRaw (fst x); kw " = "; f (snd x)]) l)).

  Definition opt_nonnil {A} (o : option A) : bool := match o with Some _ => true | None => false end.

  (* InsertBuilder.innerWriteSQL; [finner] writes a SelectExp without parentheses *)
  Definition c_insert_inner (f finner : exp -> W) (b : insb exp) : W :=
    let head :=
      [c_withs f (i_with b);
       kw "INSERT INTO "; f (i_table b);
       when (nonempty (i_alias b)) [kw " AS "; WRaw (i_alias b)];
       match i_cols b with
       | Some cols => WSeq [kw " ("; WSeq (sep_by (WSeq [kw ","; WPretty PwComma]) (map (@WRaw V) cols)); kw ")"]
       | None => WSeq []
       end] in
    let conflict := when (opt_nonnil (i_values b) && negb (is_nil (i_query b))) [WErr EkValuesQuery] in
      let body :=
        if negb (is_nil (i_query b)) then WSeq [kw " "; finner (i_query b)]
        else match i_values b with
             | Some rows =>
                 WSeq [WPretty PwBreak; kw "VALUES ";
                       WSeq (sep_by (WSeq [kw ","; WPretty PwRow])
                               (map (fun row => WSeq [kw "(";
                                                      WSeq (sep_by (WSeq [kw ","; WPretty PwComma]) (map f row));
                                                      kw ")"]) rows))]
             | None => when (i_default b) [kw " DEFAULT VALUES"]
             end in
      if negb (nonempty (i_caction b)) then WSeq (head ++ [conflict; body; c_returning f (i_returning b)])
      else
        let conflict_head := [WPretty PwBreak; kw "ON CONFLICT"] in
          WSeq (head ++ [conflict; body] ++ conflict_head ++
                [when (nonempty (i_cconstraint b) && nonnil (i_ctargets b)) [WErr EkConflict];
                 when (nonempty (i_cconstraint b)) [kw " ON CONSTRAINT "; WRaw (i_cconstraint b)];
                 when (nonnil (i_ctargets b))
                   [kw " ("; WSeq (sep_by (kw ",") (map f (i_ctargets b))); kw ")"];
                 when (nonnil (i_ctwhere b)) [kw " WHERE "; c_junction f (i_ctwhere b) "AND"];
                 kw " "; kw (i_caction b);
                 when (String.eqb (i_caction b) "DO UPDATE")
                   [when (nonnil (i_cset b))
                      [WPretty PwSet; kw "SET "; c_setitems f (i_cset b)];
                    when (nonnil (i_cwhere b))
                      [WPretty PwBreak; kw "WHERE "; c_junction f (i_cwhere b) "AND"]];
                 c_returning f (i_returning b)]).

  Definition c_update_inner (f : exp -> W) (b : updb exp) : W :=
    WSeq [c_withs f (u_with b);
          kw "UPDATE "; f (u_table b);
          when (nonempty (u_alias b)) [kw " AS "; WRaw (u_alias b)];
          kw " SET "; c_setitems f (u_set b);
          when (nonnil (u_from b)) [kw " FROM "; WSeq (sep_by (kw ",") (map (c_fromitem f) (u_from b)))];
          when (nonnil (u_where b)) [kw " WHERE "; c_junction f (u_where b) "AND"];
          c_returning f (u_returning b)].

  Definition c_delete (f : exp -> W) (b : delb exp) : W :=
    WSeq [c_withs f (d_with b);
          kw "DELETE FROM "; f (d_table b);
          when (nonempty (d_alias b)) [kw " AS "; WRaw (d_alias b)];
          when (nonnil (d_using b)) [kw " USING "; WSeq (sep_by (kw ",") (map (c_fromitem f) (d_using b)))];
          when (nonnil (d_where b)) [kw " WHERE "; c_junction f (d_where b) "AND"];
          c_returning f (d_returning b)].

  Definition c_args (f : exp -> W) (l : list exp) : W := WSeq (sep_by (kw ",") (map f l)).

  Fixpoint compile (e : exp) {struct e} : W :=
    match e with
    | ENil => WPanic
    | EBase e' => compile e'                             (* promoted WriteSQL of the embedded interface *)
    | EArg v => WArg v
    | EBind n => WBind n
    | EExprs l => WSeq [kw "("; c_args compile l; kw ")"]
    | EIdent _ s => WIdent s
    | EType s => WType s
    | EStr s => WLit s
    | EFloat t => WNum t
    | EInt z => WNum (z_dec z)
    | EBool b => WNum (if b then "true" else "false")
    | EArray l => WSeq [kw "ARRAY["; c_args compile l; kw "]"]
    | ENull => kw "NULL"
    | EDefault => kw "DEFAULT"
    | EInterval s => WSeq [kw "INTERVAL "; WLit s]
    | EOp l op r unspaced =>
        let cp := op_prec op in
        let lp := match prec_of l with Some p => Z.ltb p cp | None => false end in
        let rp := match prec_of r with
                  | Some p =>
                      Z.ltb p cp ||
                      match r with
                      | EOp _ op' _ _ => negb (String.eqb op' op) && Z.eqb p cp
                      | _ => false
                      end
                  | None => false
                  end in
        WSeq [paren_if lp (compile l);
              when (negb unspaced) [kw " "]; WRaw op; when (negb unspaced) [kw " "];
              paren_if rp (compile r)]
    | EUnary prefix e' suffix prec =>
        let np := match prec_of e' with Some p => Z.ltb p prec | None => false end in
        WSeq [when (nonempty prefix) [kw prefix; kw " "];
              paren_if np (compile e');
              when (nonempty suffix) [kw " "; kw suffix]]
    | EJunction l op => c_junction compile l op
    | EIn l op r => WSeq [compile l; kw " "; kw op; kw " "; compile r]
    | EExists q => WSeq [kw "EXISTS "; compile q]
    | EMatch l r op esc =>
        WSeq [compile l; kw " "; kw op; kw " "; compile r;
              match esc with
              | Some c => WSeq [kw " ESCAPE "; WLit (utf8_encode c)]
              | None => WSeq []
              end]
    | ESubq op e' =>
        WSeq [kw op; kw " "; paren_if (negb (is_select e')) (compile e')]
    | ECase _ expr conds els =>
        WSeq [kw "CASE";
              when (negb (is_nil expr)) [kw " "; compile expr];
              when (negb (nonnil conds)) [WErrV EkNoCond];
              WSeq (map (fun c => WSeq [kw " WHEN "; compile (fst c); kw " THEN "; compile (snd c)]) conds);
              when (negb (is_nil els)) [kw " ELSE "; compile els];
              kw " END"]
    | EFuncExp _ name a => WSeq [WRaw name; kw "("; c_args compile a; kw ")"]
    | EFunc _ name a ord alias coldefs =>
        let head := [WRaw name; kw "("; c_args compile a; kw ")";
                     when ord [kw " WITH ORDINALITY"];
                     when (nonempty alias) [kw " AS "; WRaw alias]] in
        if nonnil coldefs then
          if ord then WSeq (head ++ [WErr EkOrdCols])
          else WSeq (head ++ [when (negb (nonempty alias)) [kw " AS"];
                              kw " (";
                              WSeq (sep_by (kw ",")
                                      (map (fun d => WSeq [WRaw (fst d); kw " "; WRaw (snd d)]) coldefs));
                              kw ")"])
        else WSeq head
    | EAgg _ name distinct a obs filter within =>
        WSeq [WRaw name; kw "(";
              when distinct [kw "DISTINCT "];
              c_args compile a;
              when (negb within && nonnil obs)
                [kw " ORDER BY "; WSeq (sep_by (kw ",") (map (c_obc compile) obs))];
              kw ")";
              when within
                [kw " WITHIN GROUP (ORDER BY "; WSeq (sep_by (kw ",") (map (c_obc compile) obs)); kw ")"];
              when (nonnil filter) [kw " FILTER (WHERE "; c_junction compile filter "AND"; kw ")"]]
    | EJson isb props =>
        WSeq [kw (if isb then "jsonb_build_object(" else "json_build_object(");
              WSeq (sep_by (kw ",")
                      (map (fun kv => WSeq [WLit (fst kv); kw ","; compile (snd kv)]) props));
              kw ")"]
    | EExtract field from => WSeq [kw "EXTRACT("; WRaw field; kw " FROM "; compile from; kw ")"]
    | ESelect w c p => WSeq [kw "("; c_select_inner compile w c p; kw ")"]
    | EInsert b =>
        WSeq [kw "(";
              c_insert_inner compile
                (fun q => match q with
                          | ESelect w c p => c_select_inner compile w c p
                          | _ => WPanic
                          end) b;
              kw ")"]
    | EUpdate b => WSeq [kw "("; c_update_inner compile b; kw ")"]
    | EDelete b => c_delete compile b
    | EJoin jt lateral from alias on usingc =>
        WSeq [kw jt; when lateral [kw " LATERAL"]; kw " "; compile from;
              when (nonempty alias) [kw " AS "; WRaw alias];
              if negb (is_nil on) then WSeq [kw " ON "; compile on]
              else when (nonnil usingc) [kw " USING ("; raws ", " usingc; kw ")"]]
    | ERowsFrom fns ord =>
        WSeq [kw "ROWS FROM ("; c_args compile fns; kw ")"; when ord [kw " WITH ORDINALITY"]]
    end.

  Definition select_inner (q : exp) : W :=
    match q with
    | ESelect w c p => c_select_inner compile w c p
    | _ => WPanic
    end.

  (* writeToSQLString: w.(innerSQLWriter) holds for select, insert and update builders *)
  Definition compile_top (e : exp) : W :=
    match e with
    | ESelect w c p => c_select_inner compile w c p
    | EInsert b => c_insert_inner compile select_inner b
    | EUpdate b => c_update_inner compile b
    | _ => compile e
    end.
End Compile.

Arguments compile {V}. Arguments compile_top {V}. Arguments prec_of {V}. Arguments sep_by {V}.
Arguments is_junction {V}. Arguments is_select {V}. Arguments is_join {V}.
