(* The value universe: one constructor per Go concrete type of qrb that can sit behind an
   Exp / SQLWriter / FromExp / WithQuery / SelectExp interface, fields in declaration order.
   Type-state wrapper structs (FromSelectBuilder, JoinSelectBuilder, ...) only embed their base
   builder and are collapsed onto it.  No proofs in this file. *)
From Coq Require Import List String ZArith Bool.
Import ListNotations.

Section Values.
  Variable V : Type.

  (* parameterised pieces (struct types that are not themselves behind an interface) *)
  Record obc (E : Type) := mkObc { ob_exp : E; ob_order : string; ob_nulls : string }.
  Record fromitem (E : Type) := mkFromItem {
    fi_lateral : bool; fi_only : bool; fi_from : E; fi_alias : string; fi_colaliases : list string }.
  Record grouping (E : Type) := mkGrouping { ge_type : string; ge_sets : list (list E) }.
  Record lockc := mkLock { lk_strength : string; lk_of : list string; lk_wait : string }.
  Record parts (E : Type) := mkParts {
    p_distinct : bool;
    p_distinctOn : list E;
    p_json : option E;                    (* *JsonBuildObjectBuilder *)
    p_jsonAlias : string;
    p_list : list (E * string);           (* outputExp *)
    p_from : list (fromitem E);
    p_where : list E;
    p_gbDistinct : bool;
    p_groupBys : list (grouping E);
    p_having : list E;
    p_orderBys : list (obc E);
    p_limit : E;
    p_offset : E;
    p_lock : lockc }.
  Record comb (E : Type) := mkComb { cb_parts : parts E; cb_type : string; cb_all : bool }.
  Record wsearch (E : Type) := mkWSearch { ws_type : string; ws_by : list E; ws_set : string }.
  Record withq (E : Type) := mkWithq {
    wq_rec : bool; wq_name : string; wq_cols : list string; wq_mat : option bool;
    wq_query : E; wq_search : option (wsearch E) }.
  Record insb (E : Type) := mkIns {
    i_with : list (withq E);
    i_table : E;
    i_alias : string;
    i_cols : option (list string);        (* nil-ness is tested *)
    i_default : bool;
    i_values : option (list (list E));    (* nil-ness is tested *)
    i_query : E;
    i_ctargets : list E;                  (* conflictTarget{exp} *)
    i_ctwhere : list E;
    i_cconstraint : string;
    i_caction : string;
    i_cset : list (string * E);           (* updateSetItem *)
    i_cwhere : list E;
    i_returning : list (E * string) }.
  Record updb (E : Type) := mkUpd {
    u_with : list (withq E); u_table : E; u_alias : string; u_set : list (string * E);
    u_from : list (fromitem E); u_where : list E; u_returning : list (E * string) }.
  Record delb (E : Type) := mkDel {
    d_with : list (withq E); d_table : E; d_alias : string;
    d_using : list (fromitem E); d_where : list E; d_returning : list (E * string) }.

  Inductive exp :=
  | ENil                                               (* nil interface value *)
  | EBase (e : exp)                                    (* ExpBase{Exp: e} *)
  | EArg (v : V)
  | EBind (n : string)
  | EExprs (l : list exp)                              (* Expressions *)
  | EIdent (self : exp) (s : string)                   (* IdentExp; self = embedded ExpBase.Exp *)
  | EType (s : string)
  | EStr (s : string)
  | EFloat (txt : string)                              (* txt = strconv.FormatFloat(f,'f',-1,64), an oracle *)
  | EInt (z : Z)
  | EBool (b : bool)
  | EArray (l : list exp)
  | ENull
  | EDefault
  | EInterval (s : string)
  | EOp (l : exp) (op : string) (r : exp) (unspaced : bool)
  | EUnary (prefix : string) (e : exp) (suffix : string) (prec : Z)
  | EJunction (l : list exp) (op : string)
  | EIn (l : exp) (op : string) (r : exp)
  | EExists (q : exp)
  | EMatch (l r : exp) (op : string) (esc : option Z)
  | ESubq (op : string) (e : exp)
  | ECase (self : exp) (expr : exp) (conds : list (exp * exp)) (els : exp)
  | EFuncExp (self : exp) (name : string) (a : list exp)
  | EFunc (self : exp) (name : string) (a : list exp) (ord : bool) (alias : string)
          (coldefs : list (string * string))
  | EAgg (self : exp) (name : string) (distinct : bool) (a : list exp) (obs : list (obc exp))
         (filter : list exp) (within : bool)
  | EJson (isb : bool) (props : list (string * exp))
  | EExtract (field : string) (from : exp)
  | ESelect (w : list (withq exp)) (c : list (comb exp)) (p : parts exp)
  | EInsert (b : insb exp)
  | EUpdate (b : updb exp)
  | EDelete (b : delb exp)
  | EJoin (jt : string) (lateral : bool) (from : exp) (alias : string) (on : exp) (usingc : list string)
  | ERowsFrom (fns : list exp) (ord : bool).

  Definition is_nil (e : exp) : bool := match e with ENil => true | _ => false end.
End Values.

Arguments mkObc {E}. Arguments ob_exp {E}. Arguments ob_order {E}. Arguments ob_nulls {E}.
Arguments mkFromItem {E}. Arguments fi_lateral {E}. Arguments fi_only {E}. Arguments fi_from {E}.
Arguments fi_alias {E}. Arguments fi_colaliases {E}.
Arguments mkGrouping {E}. Arguments ge_type {E}. Arguments ge_sets {E}.
Arguments mkParts {E}. Arguments p_distinct {E}. Arguments p_distinctOn {E}. Arguments p_json {E}.
Arguments p_jsonAlias {E}. Arguments p_list {E}. Arguments p_from {E}. Arguments p_where {E}.
Arguments p_gbDistinct {E}. Arguments p_groupBys {E}. Arguments p_having {E}. Arguments p_orderBys {E}.
Arguments p_limit {E}. Arguments p_offset {E}. Arguments p_lock {E}.
Arguments mkComb {E}. Arguments cb_parts {E}. Arguments cb_type {E}. Arguments cb_all {E}.
Arguments mkWSearch {E}. Arguments ws_type {E}. Arguments ws_by {E}. Arguments ws_set {E}.
Arguments mkWithq {E}. Arguments wq_rec {E}. Arguments wq_name {E}. Arguments wq_cols {E}.
Arguments wq_mat {E}. Arguments wq_query {E}. Arguments wq_search {E}.
Arguments mkIns {E}. Arguments i_with {E}. Arguments i_table {E}. Arguments i_alias {E}. Arguments i_cols {E}.
Arguments i_default {E}. Arguments i_values {E}. Arguments i_query {E}. Arguments i_ctargets {E}.
Arguments i_ctwhere {E}. Arguments i_cconstraint {E}. Arguments i_caction {E}. Arguments i_cset {E}.
Arguments i_cwhere {E}. Arguments i_returning {E}.
Arguments mkUpd {E}. Arguments u_with {E}. Arguments u_table {E}. Arguments u_alias {E}. Arguments u_set {E}.
Arguments u_from {E}. Arguments u_where {E}. Arguments u_returning {E}.
Arguments mkDel {E}. Arguments d_with {E}. Arguments d_table {E}. Arguments d_alias {E}.
Arguments d_using {E}. Arguments d_where {E}. Arguments d_returning {E}.

Arguments ENil {V}. Arguments EBase {V}. Arguments EArg {V}. Arguments EBind {V}. Arguments EExprs {V}.
Arguments EIdent {V}. Arguments EType {V}. Arguments EStr {V}. Arguments EFloat {V}. Arguments EInt {V}.
Arguments EBool {V}. Arguments EArray {V}. Arguments ENull {V}. Arguments EDefault {V}.
Arguments EInterval {V}. Arguments EOp {V}. Arguments EUnary {V}. Arguments EJunction {V}.
Arguments EIn {V}. Arguments EExists {V}. Arguments EMatch {V}. Arguments ESubq {V}. Arguments ECase {V}.
Arguments EFuncExp {V}. Arguments EFunc {V}. Arguments EAgg {V}. Arguments EJson {V}. Arguments EExtract {V}.
Arguments ESelect {V}. Arguments EInsert {V}. Arguments EUpdate {V}. Arguments EDelete {V}.
Arguments EJoin {V}. Arguments ERowsFrom {V}. Arguments is_nil {V}.
