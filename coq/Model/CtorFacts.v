(* Facts about the constructor model: every modelled expression constructor and every modelled method of an
   expression value yields a well-formed value whose self handle (b.Exp, what the inherited operators use as their
   left operand) is well-formed too, given well-formed arguments - the expression half of "API-reachable values
   cannot make the renderer panic" (C20). *)
From Coq Require Import String List Ascii ZArith Bool Lia.
From QRB Require Import Base.Bytes Model.W Model.Values Model.Compile Model.Wfe Model.Handle Model.Api Model.ApiFacts Model.Ctor.
Import ListNotations.
Local Open Scope string_scope.
Local Open Scope list_scope.

Section Facts.
  Variable V : Type.
  Notation exp := (exp V).
  Notation wfe := (@wfe V).

  (* well-formed including the handle the inherited methods will use *)
  Definition hwf (e : exp) : bool :=
    wfe e && match handle_of e with Some h => wfe h | None => true end.

  Lemma wfe_with_self (x s : exp) : wfe (with_self x s) = wfe x.
  Proof. destruct x; reflexivity. Qed.

  Lemma hwf_set_self x : self_of x <> None -> wfe x = true -> hwf (set_self x) = true.
  Proof.
    intros Hs Hx. unfold hwf, set_self. destruct (self_of x) as [old|] eqn:E; [|congruence].
    rewrite wfe_with_self, Hx. cbn [andb].
    destruct x; cbn in E; try discriminate; cbn; exact Hx.
  Qed.

  Lemma wfe_unwrap r : wfe (unwrap_base V r) = wfe r.
  Proof. destruct r; reflexivity. Qed.

  Lemma forallb_nonnil l : forallb wfe l = true -> forallb wfe (nonnil V l) = true.
  Proof. unfold nonnil. apply forallb_filter. Qed.

  Definition C_ok (kh : string * (list (aarg V) -> option exp)) : Prop :=
    forall args r, forallb (aarg_wfe V) args = true -> snd kh args = Some r -> hwf r = true.

  Ltac args_cases Hh :=
    repeat match type of Hh with
           | match ?x with _ => _ end = Some _ => destruct x; try discriminate Hh
           end.
  Ltac splitb :=
    repeat match goal with
           | H : _ && _ = true |- _ => apply andb_true_iff in H; destruct H
           | |- _ && _ = true => apply andb_true_iff; split
           end.

  Lemma forallb_map_arg (l : list V) : forallb wfe (map (fun v => EBase (EArg v)) l) = true.
  Proof. induction l as [|x r IH]; cbn; [reflexivity|exact IH]. Qed.

  Theorem exp_ctors_ok : Forall C_ok (@exp_ctors V).
  Proof.
    unfold exp_ctors. repeat (apply Forall_cons; [|]); try apply Forall_nil.
    all: intros args r Ha Hh; cbn [fst snd] in Hh; args_cases Hh; injection Hh as <-.
    all: cbn [forallb aarg_wfe] in Ha; rewrite ?andb_true_r in Ha.
    all: try (apply hwf_set_self; [cbn; discriminate|cbn; rewrite ?andb_true_r; assumption]).
    all: unfold hwf, func_exp; cbn [handle_of self_of wfe forallb andb]; rewrite ?andb_true_r.
    all: splitb; rewrite ?forallb_map_arg; try assumption; try reflexivity.
    all: try (apply forallb_nonnil; assumption).
  Qed.

  Theorem ctor_wfe name args r :
    forallb (aarg_wfe V) args = true -> lookup_h V name exp_ctors args = Some r -> hwf r = true.
  Proof.
    unfold lookup_h. intros Ha H. destruct (find _ exp_ctors) as [kh|] eqn:E; [|discriminate].
    apply find_some in E. destruct E as [Hin _]. pose proof exp_ctors_ok as Hf. rewrite Forall_forall in Hf.
    exact (Hf kh Hin args r Ha H).
  Qed.

  (* ---------------------------------------------------------------- methods *)
  Lemma base_handlers_ok h : wfe h = true -> Forall C_ok (base_handlers V h).
  Proof.
    intro Hh. unfold base_handlers, binops, matchops. cbn [map app].
    repeat (apply Forall_cons; [|]); try apply Forall_nil.
    all: intros args r Ha Hr; cbn [fst snd] in Hr; args_cases Hr; injection Hr as <-.
    all: cbn [forallb aarg_wfe] in Ha; rewrite ?andb_true_r in Ha.
    all: unfold hwf, op_of; cbn [handle_of self_of wfe andb]; rewrite ?wfe_unwrap, ?Hh, ?andb_true_r; cbn [andb].
    all: splitb; try assumption; try reflexivity.
  Qed.

  Lemma own_handlers_ok recv : wfe recv = true -> Forall C_ok (own_handlers V recv).
  Proof.
    intro Hw. destruct recv; cbn [own_handlers]; try apply Forall_nil.
    all: repeat (apply Forall_cons; [|]); try apply Forall_nil.
    all: intros args r Ha Hr; cbn [fst snd] in Hr; args_cases Hr.
    all: cbn [forallb aarg_wfe] in Ha; rewrite ?andb_true_r in Ha.
    all: try (unfold opt_bind in Hr;
              match type of Hr with match ?u with _ => _ end = Some _ => destruct u eqn:Eu; [|discriminate Hr] end).
    all: injection Hr as <-.
    all: try (apply hwf_set_self; [cbn; discriminate|]).
    all: cbn [wfe] in *; splitb; rewrite ?forallb_app; cbn [forallb]; unfold obc_b; cbn [ob_exp]; rewrite ?andb_true_r;
         splitb; try assumption; try reflexivity.
    all: try (unfold hwf; cbn [handle_of self_of wfe]; splitb; try assumption; reflexivity).
    all: try (eapply upd_last_forallb; [exact Eu|assumption|intros x Hx; exact Hx]).
  Qed.

  Theorem meth_wfe key recv args r :
    hwf recv = true -> forallb (aarg_wfe V) args = true ->
    lookup_h V key (exp_meth_handlers recv) args = Some r -> hwf r = true.
  Proof.
    unfold hwf at 1. intros Hr Ha H. apply andb_true_iff in Hr. destruct Hr as [Hw Hh].
    unfold lookup_h in H. destruct (find _ (exp_meth_handlers recv)) as [kh|] eqn:E; [|discriminate].
    apply find_some in E. destruct E as [Hin _]. unfold exp_meth_handlers in Hin. apply in_app_or in Hin.
    destruct Hin as [Hin|Hin].
    - pose proof (own_handlers_ok recv Hw) as Hf. rewrite Forall_forall in Hf. exact (Hf kh Hin args r Ha H).
    - destruct (handle_of recv) as [h|]; [|destruct Hin].
      pose proof (base_handlers_ok h Hh) as Hf. rewrite Forall_forall in Hf. exact (Hf kh Hin args r Ha H).
  Qed.
End Facts.
