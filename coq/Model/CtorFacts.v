(* Facts about the constructor model: every modelled expression constructor and every modelled method of an
   expression value yields a well-formed value whose self handle (b.Exp, what the inherited operators use as their
   left operand) is well-formed too, given well-formed arguments - the expression half of "API-reachable values
   cannot make the renderer panic" (C20). *)
From Coq Require Import String List Ascii ZArith Bool Lia.
From QRB Require Import Base.Bytes Model.W Model.Values Model.Compile Model.Wfe Model.Handle Model.Api Model.ApiFacts Model.JsonMap Model.Ctor.
Import ListNotations.
Local Open Scope string_scope.
Local Open Scope list_scope.

Section Facts.
  Variable V : Type.
  Notation exp := (exp V).
  Notation wfe := (@wfe V).

  (* well-formed including the handle the inherited methods will use *)
  Definition hwf (e : exp) : bool :=
    wfe e && match handle_of e with Some h => wfe h | None => true end.

  Lemma wfe_with_self (x s : exp) : wfe (with_self x s) = wfe x.
  Proof. destruct x; reflexivity. Qed.

  Lemma hwf_set_self x : self_of x <> None -> wfe x = true -> hwf (set_self x) = true.
  Proof.
    intros Hs Hx. unfold hwf, set_self. destruct (self_of x) as [old|] eqn:E; [|congruence].
    rewrite wfe_with_self, Hx. cbn [andb].
    destruct x; cbn in E; try discriminate; cbn; exact Hx.
  Qed.

  Lemma wfe_unwrap r : wfe (unwrap_base V r) = wfe r.
  Proof. destruct r; reflexivity. Qed.

  Lemma forallb_nonnil l : forallb wfe l = true -> forallb wfe (nonnil V l) = true.
  Proof. unfold nonnil. apply forallb_filter. Qed.

  Definition C_ok (kh : string * (list (aarg V) -> option exp)) : Prop :=
    forall args r, forallb (aarg_wfe V) args = true -> snd kh args = Some r -> hwf r = true.

  Ltac args_cases Hh :=
    repeat match type of Hh with
           | match ?x with _ => _ end = Some _ => destruct x; try discriminate Hh
           end.
  Ltac splitb :=
    repeat match goal with
           | H : _ && _ = true |- _ => apply andb_true_iff in H; destruct H
           | |- _ && _ = true => apply andb_true_iff; split
           end.

  Lemma forallb_map_arg (l : list V) : forallb wfe (map (fun v => EBase (EArg v)) l) = true.
  Proof. induction l as [|x r IH]; cbn; [reflexivity|exact IH]. Qed.

  Theorem exp_ctors_ok : Forall C_ok (@exp_ctors V).
  Proof.
    unfold exp_ctors. repeat (apply Forall_cons; [|]); try apply Forall_nil.
    all: intros args r Ha Hh; cbn [fst snd] in Hh; args_cases Hh; injection Hh as <-.
    all: cbn [forallb aarg_wfe] in Ha; rewrite ?andb_true_r in Ha.
    all: try (apply hwf_set_self; [cbn; discriminate|cbn; rewrite ?andb_true_r; assumption]).
    all: unfold hwf, func_exp; cbn [handle_of self_of wfe forallb andb]; rewrite ?andb_true_r.
    all: splitb; rewrite ?forallb_map_arg; try assumption; try reflexivity.
    all: try (apply forallb_nonnil; assumption).
  Qed.

  Theorem ctor_wfe name args r :
    forallb (aarg_wfe V) args = true -> lookup_h V name exp_ctors args = Some r -> hwf r = true.
  Proof.
    unfold lookup_h. intros Ha H. destruct (find _ exp_ctors) as [kh|] eqn:E; [|discriminate].
    apply find_some in E. destruct E as [Hin _]. pose proof exp_ctors_ok as Hf. rewrite Forall_forall in Hf.
    exact (Hf kh Hin args r Ha H).
  Qed.

  (* ---------------------------------------------------------------- methods *)
  Lemma base_handlers_ok h : wfe h = true -> Forall C_ok (base_handlers V h).
  Proof.
    intro Hh. unfold base_handlers, binops, matchops. cbn [map app].
    repeat (apply Forall_cons; [|]); try apply Forall_nil.
    all: intros args r Ha Hr; cbn [fst snd] in Hr; args_cases Hr; injection Hr as <-.
    all: cbn [forallb aarg_wfe] in Ha; rewrite ?andb_true_r in Ha.
    all: unfold hwf, op_of; cbn [handle_of self_of wfe andb]; rewrite ?wfe_unwrap, ?Hh, ?andb_true_r; cbn [andb].
    all: splitb; try assumption; try reflexivity.
  Qed.

  (* the slice map operations keep "every value is well-formed" *)
  Lemma set_b_jset (m : list (string * exp)) k v :
    set_b V wfe m = true -> wfe v = true -> set_b V wfe (jset m k v) = true.
  Proof.
    unfold set_b, jset. intros Hm Hv. destruct (has_key k m).
    - rewrite forallb_forall in *. intros x Hx. apply in_map_iff in Hx. destruct Hx as (e & <- & He).
      destruct (String.eqb (fst e) k); [exact Hv|exact (Hm e He)].
    - rewrite forallb_app, Hm. cbn. now rewrite Hv.
  Qed.

  Lemma set_b_jdel (m : list (string * exp)) k : set_b V wfe m = true -> set_b V wfe (jdel m k) = true.
  Proof.
    unfold set_b. induction m as [|e r IH]; cbn; [reflexivity|]. intro H. apply andb_true_iff in H. destruct H as [He Hr].
    destruct (String.eqb (fst e) k); [exact Hr|]. cbn. now rewrite He, IH.
  Qed.

  Lemma own_handlers_ok recv : wfe recv = true -> Forall C_ok (own_handlers V recv).
  Proof.
    intro Hw. destruct recv; cbn [own_handlers]; try apply Forall_nil.
    all: repeat (apply Forall_cons; [|]); try apply Forall_nil.
    all: intros args r Ha Hr; cbn [fst snd] in Hr; args_cases Hr.
    all: cbn [forallb aarg_wfe] in Ha; rewrite ?andb_true_r in Ha.
    all: try (unfold opt_bind in Hr;
              match type of Hr with match ?u with _ => _ end = Some _ => destruct u eqn:Eu; [|discriminate Hr] end).
    all: injection Hr as <-.
    all: try (apply hwf_set_self; [cbn; discriminate|]).
    all: cbn [wfe] in *; splitb; rewrite ?forallb_app; cbn [forallb]; unfold obc_b; cbn [ob_exp]; rewrite ?andb_true_r;
         splitb; try assumption; try reflexivity.
    all: try (unfold hwf; cbn [handle_of self_of wfe]; splitb; try assumption; reflexivity).
    all: try (eapply upd_last_forallb; [exact Eu|assumption|intros x Hx; exact Hx]).
    all: unfold hwf; cbn [handle_of self_of wfe]; rewrite andb_true_r; cbn [wfe] in Hw.
    all: try (apply set_b_jdel; assumption).
    all: try (apply set_b_jset; assumption).
    all: try (match goal with |- context [if ?c then _ else _] => destruct c end; [apply set_b_jset|]; assumption).
  Qed.

  Theorem meth_wfe key recv args r :
    hwf recv = true -> forallb (aarg_wfe V) args = true ->
    lookup_h V key (exp_meth_handlers recv) args = Some r -> hwf r = true.
  Proof.
    unfold hwf at 1. intros Hr Ha H. apply andb_true_iff in Hr. destruct Hr as [Hw Hh].
    unfold lookup_h in H. destruct (find _ (exp_meth_handlers recv)) as [kh|] eqn:E; [|discriminate].
    apply find_some in E. destruct E as [Hin _]. unfold exp_meth_handlers in Hin. apply in_app_or in Hin.
    destruct Hin as [Hin|Hin].
    - pose proof (own_handlers_ok recv Hw) as Hf. rewrite Forall_forall in Hf. exact (Hf kh Hin args r Ha H).
    - destruct (handle_of recv) as [h|]; [|destruct Hin].
      pose proof (base_handlers_ok h Hh) as Hf. rewrite Forall_forall in Hf. exact (Hf kh Hin args r Ha H).
  Qed.

  (* ---------------------------------------------------------------- the CASE chain as one composite constructor *)
  Definition cmeth (key : string) (args : list (aarg V)) (st : option exp) : option exp :=
    opt_bind st (fun e => lookup_h V key (case_handlers V e) args).

  (* Case(ex?).When(c1).Then(r1) ... [.Else(els)].End() *)
  Definition case_chain (ex : exp) (conds : list (exp * exp)) (els : exp) : option exp :=
    let start := lookup_h V "Case" (case_ctors V) [AExps (if is_nil ex then [] else [ex])] in
    let body := fold_left (fun st c => cmeth "CaseWhenBuilder.Then" [AExp (snd c)] (cmeth "CaseBuilder.When" [AExp (fst c)] st))
                          conds start in
    cmeth "CaseBuilder.End" [] (if is_nil els then body else cmeth "CaseBuilder.Else" [AExp els] body).

  Lemma case_body s ex els (conds : list (exp * exp)) : forall acc,
    fold_left (fun st c => cmeth "CaseWhenBuilder.Then" [AExp (snd c)] (cmeth "CaseBuilder.When" [AExp (fst c)] st))
              conds (Some (ECase s ex acc els))
    = Some (ECase s ex (acc ++ conds) els).
  Proof.
    induction conds as [|[c r] rest IH]; intro acc; cbn [fold_left]; [now rewrite app_nil_r|].
    assert (E : cmeth "CaseWhenBuilder.Then" [AExp r] (cmeth "CaseBuilder.When" [AExp c] (Some (ECase s ex acc els)))
                = Some (ECase s ex (acc ++ [(c, r)]) els)).
    { unfold cmeth at 2. cbn [opt_bind case_handlers]. unfold lookup_h at 1. cbn [find fst snd String.eqb Ascii.eqb Bool.eqb].
      unfold cmeth. cbn [opt_bind case_handlers]. unfold lookup_h. cbn [find fst snd String.eqb Ascii.eqb Bool.eqb].
      assert (U : forall (l : list (exp * exp)) x g, upd_last g (l ++ [x]) = Some (l ++ [g x])).
      { induction l as [|y l IHl]; intros x g; [reflexivity|]. destruct l as [|z l]; [reflexivity|].
        change (upd_last g ((y :: z :: l) ++ [x])) with (option_map (cons y) (upd_last g ((z :: l) ++ [x]))). now rewrite IHl. }
      rewrite U. reflexivity. }
    cbn [fst snd]. rewrite E, IH, <- app_assoc. reflexivity.
  Qed.

  Theorem case_chain_result ex conds els :
    case_chain ex conds els = Some (set_self (ECase ENil ex conds els)).
  Proof.
    unfold case_chain.
    assert (S0 : lookup_h V "Case" (case_ctors V) [AExps (if is_nil ex then [] else [ex])] = Some (ECase ENil ex [] ENil)).
    { destruct ex; reflexivity. }
    rewrite S0, (case_body ENil ex ENil conds []). cbn [app].
    destruct (is_nil els) eqn:En.
    - destruct els; try discriminate. reflexivity.
    - destruct els; try discriminate; reflexivity.
  Qed.

  (* ---------------------------------------------------------------- everything that can be built *)
  (* values built in at most n nested calls of the modelled API: constructors, methods of expression values, entry
     points and methods of the statement builders, the WITH builders - every expression argument being built
     likewise (so: never a nil interface) *)
  Definition arg_ok (P : exp -> Prop) (Pw : wrecv V -> Prop) (a : aarg V) : Prop :=
    match a with
    | AExp e => P e
    | AExps l => Forall P l
    | AExpss l => Forall (Forall P) l
    | AWith ws => Pw (WB ws)
    | _ => True
    end.

  Fixpoint builtn (n : nat) : (exp -> Prop) * (wrecv V -> Prop) :=
    match n with
    | O => (fun _ => False, fun _ => False)
    | S n' =>
        let P := fst (builtn n') in
        let Pw := snd (builtn n') in
        let ok := Forall (arg_ok P Pw) in
        (fun e =>
           P e
           \/ (exists name args, ok args /\ lookup_h V name exp_ctors args = Some e)
           \/ (exists key recv args, P recv /\ ok args /\ lookup_h V key (exp_meth_handlers recv) args = Some e)
           \/ (exists name args, ok args /\ entry name args = Some e)
           \/ (exists rt m recv args, P recv /\ ok args /\ query_ok V (mkey rt m) args /\ api rt m recv args = Some e)
           \/ (exists m w args, Pw w /\ ok args /\ api_with m w args = Some (RExp e))
           \/ (exists ex conds els, (is_nil ex = true \/ P ex) /\ Forall (fun c => P (fst c) /\ P (snd c)) conds /\
                                    (is_nil els = true \/ P els) /\ case_chain ex conds els = Some e),
         fun w =>
           Pw w
           \/ (exists name args, entry_with name args = Some w)
           \/ (exists m w0 args, Pw w0 /\ ok args /\ api_with m w0 args = Some (RWith w)))
    end.

  Definition built (e : exp) : Prop := exists n, fst (builtn n) e.

  Lemma arg_ok_wfe (P : exp -> Prop) (Pw : wrecv V -> Prop) :
    (forall e, P e -> hwf e = true) -> (forall w, Pw w -> wr_ok V w = true) ->
    forall args, Forall (arg_ok P Pw) args -> forallb (aarg_wfe V) args = true.
  Proof.
    intros HP HPw. assert (W : forall e, P e -> wfe e = true).
    { intros e He. specialize (HP e He). unfold hwf in HP. apply andb_true_iff in HP. tauto. }
    assert (L : forall l, Forall P l -> forallb wfe l = true).
    { induction 1 as [|x r Hx _ IH]; cbn; [reflexivity|]. now rewrite (W x Hx). }
    induction 1 as [|a r Ha _ IH]; cbn [forallb]; [reflexivity|]. rewrite IH, andb_true_r.
    destruct a; cbn [aarg_wfe arg_ok] in *; try reflexivity.
    - now apply W.
    - now apply L.
    - induction Ha as [|x l Hx _ IHl]; cbn; [reflexivity|]. now rewrite (L x Hx).
    - exact (HPw _ Ha).
  Qed.

  Lemma hwf_of_wfe_stmt e : wfe e = true -> handle_of e = None -> hwf e = true.
  Proof. intros H1 H2. unfold hwf. now rewrite H1, H2. Qed.

  Lemma sel_result_no_handle (hs : list (string * (list (aarg V) -> option exp))) : True. Proof. exact I. Qed.

  (* the results of the statement API are statements (no handle) - or, for ApplyIf, the value its function returned,
     which is one of the arguments *)
  Definition R_ok (kh : string * (list (aarg V) -> option exp)) : Prop :=
    forall args r, snd kh args = Some r -> handle_of r = None \/ In (AExp r) args.

  Ltac r_ok :=
    repeat (apply Forall_cons; [|]); try apply Forall_nil;
    intros a0 r0 Hh; cbn [fst snd] in Hh; args_cases Hh;
    try (unfold opt_bind in Hh; match type of Hh with match ?u with _ => _ end = Some _ => destruct u; [|discriminate Hh] end);
    try discriminate Hh; injection Hh as <-;
    try (left; reflexivity);
    match goal with |- context [if ?b then _ else _] => destruct b; [right; right; left; reflexivity|left; reflexivity] end.

  Lemma handlers_result_stmt recv kh args r :
    In kh (handlers_of V recv) -> snd kh args = Some r -> handle_of r = None \/ In (AExp r) args.
  Proof.
    assert (F : Forall R_ok (handlers_of V recv)).
    { destruct recv; cbn [handlers_of]; try apply Forall_nil.
      - unfold sel_handlers. r_ok.
      - unfold ins_handlers. r_ok.
      - unfold upd_handlers. r_ok.
      - unfold del_handlers. r_ok. }
    rewrite Forall_forall in F. intros Hin. exact (F kh Hin args r).
  Qed.

  Lemma api_result_stmt rt m (recv : exp) args r : api rt m recv args = Some r -> handle_of r = None \/ In (AExp r) args.
  Proof.
    unfold api, lookup_h. destruct (find _ (handlers_of V recv)) as [kh|] eqn:E; [|discriminate].
    apply find_some in E. destruct E as [Hin _]. now apply (handlers_result_stmt recv kh args r).
  Qed.

  Lemma entry_result_stmt name args (r : exp) : entry name args = Some r -> handle_of r = None.
  Proof.
    unfold entry. destruct (String.eqb name "Select").
    { intro H. assert (C : exists l, args = [AExps l]).
      { unfold api, lookup_h in H. cbn in H. destruct args as [|[| |l| | | | | | | |] [|? ?]]; try discriminate. now exists l. }
      destruct C as [l ->]. cbn in H. injection H as <-. reflexivity. }
    destruct (String.eqb name "SelectJson").
    { destruct args as [|[t| | | | | | | | | |] [|? ?]]; try discriminate. now injection 1 as <-. }
    destruct args as [|[t| | | | | | | | | |] [|? ?]]; try discriminate.
    destruct (String.eqb name "InsertInto"); [now injection 1 as <-|].
    destruct (String.eqb name "Update"); [now injection 1 as <-|].
    destruct (String.eqb name "DeleteFrom"); [now injection 1 as <-|discriminate].
  Qed.

  Definition RW_ok (kh : string * (list (aarg V) -> option (ares V))) : Prop :=
    forall args r, snd kh args = Some (RExp r) -> handle_of r = None.

  Lemma api_with_result_stmt m w args (r : exp) : api_with m w args = Some (RExp r) -> handle_of r = None.
  Proof.
    unfold api_with. destruct (find _ (with_handlers V w)) as [kh|] eqn:E; [|discriminate].
    apply find_some in E. destruct E as [Hin _].
    assert (F : Forall RW_ok (with_handlers V w)).
    { destruct w; cbn [with_handlers]; repeat (apply Forall_cons; [|]); try apply Forall_nil.
      all: intros a0 r0 Hh; cbn [fst snd] in Hh; args_cases Hh.
      all: try (unfold opt_bind in Hh; match type of Hh with match ?u with _ => _ end = Some _ => destruct u; [|discriminate Hh] end).
      all: try discriminate Hh; injection Hh as <-; reflexivity. }
    rewrite Forall_forall in F. exact (F kh Hin args r).
  Qed.

  Theorem builtn_ok n :
    (forall e, fst (builtn n) e -> hwf e = true) /\ (forall w, snd (builtn n) w -> wr_ok V w = true).
  Proof.
    induction n as [|n [IHe IHw]]; [split; intros ? []|].
    pose proof (arg_ok_wfe _ _ IHe IHw) as A.
    assert (W : forall e, fst (builtn n) e -> wfe e = true).
    { intros e He. specialize (IHe e He). unfold hwf in IHe. apply andb_true_iff in IHe. tauto. }
    split.
    - intros e H. cbn [builtn fst] in H.
      destruct H as [H|[(name & args & Ha & H)|[(key & recv & args & Hr & Ha & H)|[(name & args & Ha & H)|
                    [(rt & m & recv & args & Hr & Ha & Hq & H)|[(m & w & args & Hw & Ha & H)|(ex & conds & els & Hex & Hc & Hel & H)]]]]]].
      + now apply IHe.
      + exact (ctor_wfe name args e (A args Ha) H).
      + exact (meth_wfe key recv args e (IHe recv Hr) (A args Ha) H).
      + apply hwf_of_wfe_stmt; [exact (entry_wfe V name args e (A args Ha) H)|exact (entry_result_stmt name args e H)].
      + destruct (api_result_stmt rt m recv args e H) as [Hn|Hin].
        * apply hwf_of_wfe_stmt; [exact (api_wfe V rt m recv args e (W recv Hr) (A args Ha) Hq H)|exact Hn].
        * rewrite Forall_forall in Ha. exact (IHe e (Ha (AExp e) Hin)).
      + apply hwf_of_wfe_stmt; [exact (api_with_ok V m w args (RExp e) (IHw w Hw) (A args Ha) H)|exact (api_with_result_stmt m w args e H)].
      + rewrite case_chain_result in H. injection H as <-.
        apply hwf_set_self; [cbn; discriminate|]. cbn [wfe]. unfold nil_or.
        assert (X : (is_nil ex || wfe ex) = true) by (destruct Hex as [->|Hx]; [reflexivity|rewrite (W ex Hx); apply orb_true_r]).
        assert (Y : (is_nil els || wfe els) = true) by (destruct Hel as [->|Hx]; [reflexivity|rewrite (W els Hx); apply orb_true_r]).
        rewrite X, Y, andb_true_r. cbn [andb].
        induction Hc as [|c r [H1 H2] _ IHc]; cbn [forallb]; [reflexivity|]. now rewrite (W _ H1), (W _ H2), IHc.
    - intros w H. cbn [builtn snd] in H.
      destruct H as [H|[(name & args & H)|(m & w0 & args & Hw & Ha & H)]].
      + now apply IHw.
      + exact (entry_with_ok V name args w H).
      + exact (api_with_ok V m w0 args (RWith w) (IHw w0 Hw) (A args Ha) H).
  Qed.

  (* introduction rules, level by level *)
  Notation Bn n := (fst (builtn n)).
  Notation okn n := (Forall (arg_ok (fst (builtn n)) (snd (builtn n)))).
  Lemma bn_keep n e : Bn n e -> Bn (S n) e.
  Proof. intro H. cbn [builtn fst]. now left. Qed.
  Lemma bn_mono n m e : (n <= m)%nat -> Bn n e -> Bn m e.
  Proof. induction 1 as [|m _ IH]; [trivial|]. intro H. apply bn_keep. now apply IH. Qed.
  Lemma bn_ctor n name args e : okn n args -> lookup_h V name exp_ctors args = Some e -> Bn (S n) e.
  Proof. intros Ha H. cbn [builtn fst]. right. left. now exists name, args. Qed.
  Lemma bn_meth n key recv args e :
    Bn n recv -> okn n args -> lookup_h V key (exp_meth_handlers recv) args = Some e -> Bn (S n) e.
  Proof. intros Hr Ha H. cbn [builtn fst]. right. right. left. now exists key, recv, args. Qed.
  Lemma bn_entry n name args e : okn n args -> entry name args = Some e -> Bn (S n) e.
  Proof. intros Ha H. cbn [builtn fst]. right. right. right. left. now exists name, args. Qed.
  Lemma bn_step n rt m recv args e :
    Bn n recv -> okn n args -> query_ok V (mkey rt m) args -> api rt m recv args = Some e -> Bn (S n) e.
  Proof. intros Hr Ha Hq H. cbn [builtn fst]. right. right. right. right. left. now exists rt, m, recv, args. Qed.

  Theorem built_wfe e : built e -> wfe e = true.
  Proof. intros [n H]. destruct (builtn_ok n) as [He _]. specialize (He e H). unfold hwf in He. apply andb_true_iff in He. tauto. Qed.
End Facts.

(* ---------------------------------------------------------------- the JSON object builder calls are the map steps of JsonMap.v *)
Section JsonCalls.
  Variable V : Type.
  Notation exp := (exp V).

  (* the builder call a (non-batch) step of a C16 history stands for *)
  Definition sop_call (o : sop V) : option (string * list (aarg V)) :=
    match o with
    | SoProp k v => Some ("JsonBuildObjectBuilder.Prop", [AStr k; AExp v])
    | SoPropIf c k v => Some ("JsonBuildObjectBuilder.PropIf", [ABool c; AStr k; AExp v])
    | SoUnset k => Some ("JsonBuildObjectBuilder.Unset", [AStr k])
    | SoBatch _ => None
    end.

  Definition json_call (st : option exp) (o : sop V) : option exp :=
    match st, sop_call o with
    | Some e, Some (key, args) => meth key e args
    | _, _ => None
    end.

  (* one modelled call on a JSON object value = one step of the insertion-ordered map specification *)
  Theorem json_meth_is_step (j : jobj V) o key args :
    sop_call o = Some (key, args) -> meth key (to_exp j) args = Some (to_exp (s_step j o)).
  Proof.
    destruct j as [b m]. destruct o as [k v|c k v|k|l]; cbn [sop_call]; intro H; try discriminate; injection H as <- <-.
    - reflexivity.
    - destruct c; reflexivity.
    - reflexivity.
  Qed.

  Definition plain_sop (o : sop V) : bool := match o with SoBatch _ => false | _ => true end.

  (* any history of Prop / PropIf / Unset calls through the constructor model, starting at builder.JsonBuildObject(b) *)
  Theorem json_chain_result b (l : list (sop V)) :
    forallb plain_sop l = true ->
    fold_left json_call l (ctor "JsonBuildObject" [ABool b]) = Some (to_exp (fold_left s_step l (@mkJ V b []))).
  Proof.
    change (@ctor V "JsonBuildObject" [ABool b]) with (Some (to_exp (@mkJ V b []))).
    generalize (@mkJ V b []). induction l as [|o r IH]; intros j H; cbn [fold_left]; [reflexivity|].
    cbn [forallb] in H. apply andb_true_iff in H. destruct H as [Ho Hr].
    assert (E : json_call (Some (to_exp j)) o = Some (to_exp (s_step j o))).
    { unfold json_call. destruct (sop_call o) as [[key args]|] eqn:Ec.
      - now apply json_meth_is_step.
      - destruct o; discriminate. }
    rewrite E. now apply IH.
  Qed.
End JsonCalls.

(* ---------------------------------------------------------------- Args: one slot per value, equal values included *)
Section ArgsSlots.
  Variable V : Type.
  Variables validI validT : string -> bool.
  Notation exp := (exp V).

  Definition arg_exps (vs : list V) : list exp := map (fun v => EBase (EArg v)) vs.

  Lemma run_arg_list o (vs : list V) : forall s,
    exists s', run validI validT o (WSeq (sep_by (WKw ",") (map (@compile V) (arg_exps vs)))) s = Some s' /\
               args s' = args s ++ map Some vs /\ named s' = named s /\ errs s' = errs s.
  Proof.
    induction vs as [|v r IH]; intro s.
    - exists s. cbn. rewrite app_nil_r. repeat split; reflexivity.
    - destruct r as [|v2 r'].
      + cbn. eexists. split; [reflexivity|]. cbn. repeat split; reflexivity.
      + set (s1 := emit (CKw ",") (emit (CParam (S (argIdx s))) (mkSb (out s) (S (argIdx s)) (args s ++ [Some v]) (named s) (errs s)))).
        destruct (IH s1) as (s' & R & A & N & E). exists s'.
        split; [|subst s1; cbn in *; rewrite A, <- app_assoc; repeat split; assumption].
        change (arg_exps (v :: v2 :: r')) with (EBase (EArg v) :: arg_exps (v2 :: r')).
        cbn [map sep_by]. change (compile (EBase (EArg v))) with (@WArg V v).
        cbn [map sep_by arg_exps] in R. cbn [run] in *. exact R.
  Qed.

  (* builder.Args(v1 .. vn): n placeholders and n argument slots carrying v1 .. vn in order - whether or not values repeat *)
  Theorem args_one_slot_each o sup (vs : list V) r :
    lookup_h V "Args" exp_ctors [AAnys vs] = Some r ->
    exists sql, to_sql validI validT o sup (compile r) = ROk sql (map Some vs) [].
  Proof.
    assert (C : lookup_h V "Args" exp_ctors [AAnys vs] = Some (EExprs (arg_exps vs))) by reflexivity.
    intro H. rewrite C in H. injection H as <-.
    unfold to_sql. cbn [compile]. unfold c_args.
    destruct (run_arg_list o vs (emit (CKw "(") sb0)) as (s' & R & A & N & E).
    cbn [run]. unfold kw. cbn [run]. cbn [run] in R. rewrite R. unfold finish. cbn [named emit]. rewrite N. cbn [fill args emit errs].
    rewrite A, E. cbn. eexists. reflexivity.
  Qed.
End ArgsSlots.
