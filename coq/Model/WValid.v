(* Validation reaches every name and type of the writer tree, failures are reported and not
   rendered (C09 at the level of an arbitrary writer tree). *)
From Coq Require Import String List Ascii ZArith Bool Lia.
From QRB Require Import Base.Bytes Model.W Model.WInd.
Import ListNotations.

Section Valid.
  Variable V : Type.
  Variables validI validT : string -> bool.
  Notation run := (run validI validT).
  Notation run_list := (run_list validI validT).

  (* the names / types a tree visits, in rendering order *)
  Fixpoint idents (w : W V) : list string :=
    match w with
    | WIdent s => [s]
    | WSeq l => (fix go (l : list (W V)) := match l with [] => [] | x :: r => idents x ++ go r end) l
    | _ => []
    end.
  Fixpoint wtypes (w : W V) : list string :=
    match w with
    | WType s => [s]
    | WSeq l => (fix go (l : list (W V)) := match l with [] => [] | x :: r => wtypes x ++ go r end) l
    | _ => []
    end.

  Lemma idents_seq l : idents (WSeq l) = flat_map idents l.
  Proof. cbn [idents]. induction l as [|x r IH]; cbn [flat_map]; [reflexivity|now rewrite IH]. Qed.
  Lemma wtypes_seq l : wtypes (WSeq l) = flat_map wtypes l.
  Proof. cbn [wtypes]. induction l as [|x r IH]; cbn [flat_map]; [reflexivity|now rewrite IH]. Qed.

  (* the errors one validating rendering adds, statically *)
  Fixpoint expected_errs (w : W V) : list (ekind * string) :=
    match w with
    | WIdent s => if validI s then [] else [(EkIdent, s)]
    | WType s => if validT s then [] else [(EkType, s)]
    | WErr k | WErrV k => [(k, EmptyString)]
    | WSeq l => (fix go (l : list (W V)) := match l with [] => [] | x :: r => expected_errs x ++ go r end) l
    | _ => []
    end.
  Lemma expected_errs_seq l : expected_errs (WSeq l) = flat_map expected_errs l.
  Proof. cbn [expected_errs]. induction l as [|x r IH]; cbn [flat_map]; [reflexivity|now rewrite IH]. Qed.

  (* the validated chunks of an output *)
  Fixpoint out_idents (l : list chunk) : list string :=
    match l with [] => [] | CIdent s :: r => s :: out_idents r | _ :: r => out_idents r end.
  Fixpoint out_types (l : list chunk) : list string :=
    match l with [] => [] | CType s :: r => s :: out_types r | _ :: r => out_types r end.
  Lemma out_idents_app a b : out_idents (a ++ b) = out_idents a ++ out_idents b.
  Proof. induction a as [|c a IH]; cbn; [reflexivity|]. destruct c; cbn; now rewrite ?IH. Qed.
  Lemma out_types_app a b : out_types (a ++ b) = out_types a ++ out_types b.
  Proof. induction a as [|c a IH]; cbn; [reflexivity|]. destruct c; cbn; now rewrite ?IH. Qed.

  Definition von (p : bool) : opts := Build_opts true p.

  Theorem validating_run p (w : W V) :
    forall s s', run (von p) w s = Some s' ->
      errs s' = errs s ++ expected_errs w /\
      out_idents (out s') = out_idents (out s) ++ filter validI (idents w) /\
      out_types (out s') = out_types (out s) ++ filter validT (wtypes w).
  Proof.
    induction w as [t|t|t|t|v|n|t|t|k|k|pk|l IH|] using W_ind'; intros s s' H.
    1-11: cbn [W.run validating von] in H.
    1-4, 11: injection H as <-; cbn [errs out emit expected_errs idents wtypes filter];
      rewrite ?app_nil_r, out_idents_app, out_types_app; cbn; now rewrite ?app_nil_r.
    - injection H as <-. cbn [errs out emit expected_errs idents wtypes filter].
      rewrite ?app_nil_r, out_idents_app, out_types_app. cbn. now rewrite ?app_nil_r.
    - destruct (lookup n (named s)); injection H as <-; cbn [errs out emit expected_errs idents wtypes filter];
        rewrite ?app_nil_r, out_idents_app, out_types_app; cbn; now rewrite ?app_nil_r.
    - cbn [andb] in H. cbn [expected_errs idents wtypes filter]. destruct (validI t); cbn [negb] in H; injection H as <-;
        cbn [errs out emit add_err]; rewrite ?app_nil_r, ?out_idents_app, ?out_types_app; cbn; now rewrite ?app_nil_r.
    - cbn [andb] in H. cbn [expected_errs idents wtypes filter]. destruct (validT t); cbn [negb] in H; injection H as <-;
        cbn [errs out emit add_err]; rewrite ?app_nil_r, ?out_idents_app, ?out_types_app; cbn; now rewrite ?app_nil_r.
    - injection H as <-. cbn. now rewrite ?app_nil_r.
    - injection H as <-. cbn. now rewrite ?app_nil_r.
    - rewrite run_seq in H. rewrite expected_errs_seq, idents_seq, wtypes_seq.
      revert s s' H. induction IH as [|w r Hw _ IHr]; intros s s' H; cbn [W.run_list flat_map] in *.
      + injection H as <-. cbn. now rewrite ?app_nil_r.
      + destruct (run (von p) w s) as [s1|] eqn:E; [|discriminate].
        destruct (Hw _ _ E) as (A1 & A2 & A3). destruct (IHr _ _ H) as (B1 & B2 & B3).
        rewrite B1, B2, B3, A1, A2, A3, !filter_app, !app_assoc. auto.
    - discriminate.
  Qed.

  (* consequences for a rendering from the empty builder *)
  Corollary no_error_means_all_valid p (w : W V) s' :
    run (von p) w sb0 = Some s' -> errs s' = [] ->
    Forall (fun x => validI x = true) (idents w) /\ Forall (fun x => validT x = true) (wtypes w).
  Proof.
    intros H He. destruct (validating_run p w sb0 s' H) as (A & _ & _). cbn in A. rewrite He in A.
    clear H He. revert A.
    induction w as [t|t|t|t|v|n|t|t|k|k|pk|l IH|] using W_ind'; intro A.
    1-11, 13: cbn [expected_errs idents wtypes] in *.
    1-6, 11-12: split; constructor.
    - destruct (validI t) eqn:E; [split; repeat constructor; assumption|discriminate].
    - destruct (validT t) eqn:E; [split; repeat constructor; assumption|discriminate].
    - discriminate.
    - discriminate.
    - fold (expected_errs (WSeq l)) in A. fold (idents (WSeq l)). fold (wtypes (WSeq l)).
      rewrite expected_errs_seq in A. rewrite idents_seq, wtypes_seq.
      induction IH as [|x r Hx _ IHr]; cbn [flat_map] in *; [split; constructor|].
      symmetry in A. apply app_eq_nil in A. destruct A as [A1 A2]. symmetry in A1, A2.
      destruct (Hx A1) as [X1 X2]. destruct (IHr A2) as [R1 R2].
      split; apply Forall_app; split; assumption.
  Qed.

  Corollary emitted_names_are_valid p (w : W V) s' :
    run (von p) w sb0 = Some s' ->
    Forall (fun x => validI x = true) (out_idents (out s')) /\ Forall (fun x => validT x = true) (out_types (out s')).
  Proof.
    intro H. destruct (validating_run p w sb0 s' H) as (_ & A & B). cbn in A, B. rewrite A, B.
    split; apply Forall_forall; intros x Hx; apply filter_In in Hx; tauto.
  Qed.

  (* AddError(sentinel) sites never use the two name / type sentinels *)
  Fixpoint plain_errs (w : W V) : bool :=
    match w with
    | WErr k | WErrV k => negb (ekind_eqb k EkIdent) && negb (ekind_eqb k EkType)
    | WSeq l => (fix go (l : list (W V)) := match l with [] => true | x :: r => plain_errs x && go r end) l
    | _ => true
    end.
  Lemma plain_errs_seq l : plain_errs (WSeq l) = forallb plain_errs l.
  Proof. cbn [plain_errs]. induction l as [|x r IH]; cbn [forallb]; [reflexivity|now rewrite IH]. Qed.

  Lemma expected_ident_errs (w : W V) x :
    plain_errs w = true ->
    In (EkIdent, x) (expected_errs w) <-> In x (idents w) /\ validI x = false.
  Proof.
    induction w as [t|t|t|t|v|n|t|t|k|k|pk|l IH|] using W_ind'; intro Hp.
    1-11, 13: cbn [expected_errs idents].
    1-6, 11-12: split; [intros []|intros [[] _]].
    - destruct (validI t) eqn:E; cbn [In]; split.
      + intros [].
      + intros [[<- |[]] K]. congruence.
      + intros [[= <-]|[]]. split; [now left|assumption].
      + intros [[<- |[]] _]. now left.
    - destruct (validT t); cbn [In]; split; try tauto; intros [[=]|[]].
    - cbn [In]. cbn [plain_errs] in Hp. split; [intros [[= -> _]|[]]; discriminate|intros [[] _]].
    - cbn [In]. cbn [plain_errs] in Hp. split; [intros [[= -> _]|[]]; discriminate|intros [[] _]].
    - rewrite expected_errs_seq, idents_seq. rewrite plain_errs_seq in Hp.
      induction IH as [|y r Hy _ IHr]; cbn [flat_map forallb] in *; [split; [intros []|intros [[] _]]|].
      apply andb_true_iff in Hp. destruct Hp as [P1 P2].
      rewrite !in_app_iff, (Hy P1), (IHr P2). tauto.
  Qed.

  Lemma expected_type_errs (w : W V) x :
    plain_errs w = true ->
    In (EkType, x) (expected_errs w) <-> In x (wtypes w) /\ validT x = false.
  Proof.
    induction w as [t|t|t|t|v|n|t|t|k|k|pk|l IH|] using W_ind'; intro Hp.
    1-11, 13: cbn [expected_errs wtypes].
    1-6, 11-12: split; [intros []|intros [[] _]].
    - destruct (validI t); cbn [In]; split; try tauto; intros [[=]|[]].
    - destruct (validT t) eqn:E; cbn [In]; split.
      + intros [].
      + intros [[<- |[]] K]. congruence.
      + intros [[= <-]|[]]. split; [now left|assumption].
      + intros [[<- |[]] _]. now left.
    - cbn [In]. cbn [plain_errs] in Hp. split; [intros [[= -> _]|[]]; rewrite andb_false_r in Hp; discriminate|intros [[] _]].
    - cbn [In]. cbn [plain_errs] in Hp. split; [intros [[= -> _]|[]]; rewrite andb_false_r in Hp; discriminate|intros [[] _]].
    - rewrite expected_errs_seq, wtypes_seq. rewrite plain_errs_seq in Hp.
      induction IH as [|y r Hy _ IHr]; cbn [flat_map forallb] in *; [split; [intros []|intros [[] _]]|].
      apply andb_true_iff in Hp. destruct Hp as [P1 P2].
      rewrite !in_app_iff, (Hy P1), (IHr P2). tauto.
  Qed.

  Corollary offenders_reported p (w : W V) s' :
    plain_errs w = true ->
    run (von p) w sb0 = Some s' ->
    (forall x, In (EkIdent, x) (errs s') <-> In x (idents w) /\ validI x = false) /\
    (forall x, In (EkType, x) (errs s') <-> In x (wtypes w) /\ validT x = false).
  Proof.
    intros Hp H. destruct (validating_run p w sb0 s' H) as (A & _ & _). cbn in A. rewrite A.
    split; intro x; [now apply expected_ident_errs|now apply expected_type_errs].
  Qed.
End Valid.
