(* C17: the self handle (ExpBase.Exp of an operator-capable builder).  Go's  x.Exp = x  stores a copy
   of x (whose own Exp field is the previous handle) into x.Exp; the inherited operators take b.Exp
   as their left operand. *)
From Coq Require Import String List ZArith Bool.
From QRB Require Import Base.Bytes Model.W Model.Values Model.Compile.
Import ListNotations.

Section Handle.
  Variable V : Type.
  Notation exp := (exp V).

  Definition self_of (e : exp) : option exp :=
    match e with
    | EIdent s _ | ECase s _ _ _ | EFuncExp s _ _ | EFunc s _ _ _ _ _ | EAgg s _ _ _ _ _ _ => Some s
    | _ => None
    end.

  Definition with_self (e s : exp) : exp :=
    match e with
    | EIdent _ n => EIdent s n
    | ECase _ a b c => ECase s a b c
    | EFuncExp _ n a => EFuncExp s n a
    | EFunc _ n a o al cd => EFunc s n a o al cd
    | EAgg _ n d a ob f w => EAgg s n d a ob f w
    | _ => e
    end.

  Definition erase_self (e : exp) : exp := with_self e ENil.

  (* the handle is current: it is a copy of the value itself (up to its own, older handle) *)
  Definition Handle (h : exp) : Prop :=
    exists s, self_of h = Some s /\ erase_self s = erase_self h.

  (* rendering never looks at the handle *)
  Lemma compile_erase (e : exp) : compile (erase_self e) = compile e.
  Proof. destruct e; reflexivity. Qed.

  Lemma prec_of_erase (e : exp) : prec_of (erase_self e) = prec_of e.
  Proof. destruct e; reflexivity. Qed.

  Theorem handle_renders_like_value h s :
    Handle h -> self_of h = Some s -> compile s = compile h /\ prec_of s = prec_of h.
  Proof.
    intros (s' & E & H) E'. rewrite E in E'. injection E' as <-.
    split.
    - now rewrite <- (compile_erase s'), H, compile_erase.
    - now rewrite <- (prec_of_erase s'), H, prec_of_erase.
  Qed.

  Lemma handle_types_no_prec h s : self_of h = Some s -> prec_of h = None.
  Proof. destruct h; cbn; congruence. Qed.

  (* x.Exp = x *)
  Definition set_self (x : exp) : exp :=
    match self_of x with Some old => with_self x (with_self x old) | None => x end.

  Theorem set_self_establishes x old : self_of x = Some old -> Handle (set_self x).
  Proof.
    intro E. unfold set_self. rewrite E. exists (with_self x old). split.
    - destruct x; cbn in *; try discriminate; reflexivity.
    - destruct x; cbn in *; try discriminate; reflexivity.
  Qed.

  (* an inherited operator (builder/op.go ExpBase.Op and friends): left operand is the handle *)
  Definition unwrap_base (r : exp) : exp := match r with EBase x => x | _ => r end.
  Definition apply_op (h : exp) (op : string) (r : exp) : option exp :=
    match self_of h with
    | Some s => Some (EBase (EOp s op (unwrap_base r) false))
    | None => None
    end.

  (* the operand that appears inside the larger expression is exactly the refined value: its text is
     the standalone rendering, without parentheses (a builder is not a Precedencer) *)
  Theorem operand_is_refined_value h op r e :
    Handle h -> apply_op h op r = Some e ->
    exists rest, compile e = WSeq (compile h :: rest).
  Proof.
    intros Hh A. unfold apply_op in A. destruct (self_of h) as [s|] eqn:E; [|discriminate].
    injection A as <-. destruct (handle_renders_like_value h s Hh E) as [Hc Hp].
    cbn [compile]. rewrite Hp, (handle_types_no_prec h s E). unfold paren_if. rewrite Hc.
    eexists. reflexivity.
  Qed.

  (* without the handle being re-established a refinement is lost on the operator path *)
  Definition refine_forgetting (x : exp) : exp := x.   (* newBuilder := b; newBuilder.f = v; return newBuilder *)
End Handle.

Arguments self_of {V}. Arguments with_self {V}. Arguments erase_self {V}. Arguments Handle {V}.
Arguments set_self {V}. Arguments apply_op {V}.
