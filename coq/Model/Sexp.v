(* Transport format between the Go harness and the model: s-expressions whose atoms are
   s<hex> (byte string), i<decimal> (integer), a<decimal> (argument pool id), T / F, nil, or a bare
   Go type name.  Glue, not model: no theorem is about this file. *)
From Coq Require Import List String Ascii ZArith NArith Bool.
From QRB Require Import Base.Bytes.
Import ListNotations.
Local Open Scope string_scope.

Inductive sexp := SAtom (s : string) | SList (l : list sexp).

Definition hexval (c : ascii) : option N :=
  let n := N_of_ascii c in
  if (48 <=? n)%N && (n <=? 57)%N then Some (n - 48)%N
  else if (97 <=? n)%N && (n <=? 102)%N then Some (n - 87)%N
  else None.

Fixpoint unhex (s : string) : option string :=
  match s with
  | EmptyString => Some EmptyString
  | String a (String b r) =>
      match hexval a, hexval b, unhex r with
      | Some x, Some y, Some t => Some (String (ascii_of_N (16 * x + y)) t)
      | _, _, _ => None
      end
  | _ => None
  end.

Definition hexdigit (n : N) : ascii :=
  if (n <? 10)%N then ascii_of_N (48 + n) else ascii_of_N (87 + n).

Fixpoint hex (s : string) : string :=
  match s with
  | EmptyString => EmptyString
  | String c r => let n := N_of_ascii c in String (hexdigit (n / 16)) (String (hexdigit (n mod 16)) (hex r))
  end.

Fixpoint undec_aux (s : string) (acc : N) : option N :=
  match s with
  | EmptyString => Some acc
  | String c r =>
      let n := N_of_ascii c in
      if (48 <=? n)%N && (n <=? 57)%N then undec_aux r (10 * acc + (n - 48))%N else None
  end.
Definition undec (s : string) : option N :=
  match s with EmptyString => None | _ => undec_aux s 0%N end.

Definition d_str (x : sexp) : option string :=
  match x with SAtom (String "s"%char h) => unhex h | _ => None end.
Definition d_bool (x : sexp) : option bool :=
  match x with SAtom "T" => Some true | SAtom "F" => Some false | _ => None end.
Definition d_int (x : sexp) : option Z :=
  match x with
  | SAtom (String "i"%char (String "-"%char d)) => option_map (fun n => (- Z.of_N n)%Z) (undec d)
  | SAtom (String "i"%char d) => option_map Z.of_N (undec d)
  | _ => None
  end.
Definition d_any (x : sexp) : option nat :=
  match x with SAtom (String "a"%char d) => option_map N.to_nat (undec d) | _ => None end.
Definition d_float (x : sexp) : option string :=
  match x with SAtom (String "f"%char h) => unhex h | _ => None end.

(* (Name x) with Name neither list nor ptr: a named non-struct Go type around its underlying value *)
Definition strip_named (x : sexp) : sexp :=
  match x with
  | SList [SAtom n; y] => if String.eqb n "list" || String.eqb n "ptr" then x else y
  | _ => x
  end.

Definition d_list {A} (f : sexp -> option A) (x : sexp) : option (list A) :=
  match strip_named x with
  | SAtom "nil" => Some []
  | SList (SAtom "list" :: l) =>
      fold_right (fun y acc => match f y, acc with Some a, Some r => Some (a :: r) | _, _ => None end)
                 (Some []) l
  | _ => None
  end.

(* nil-ness preserved *)
Definition d_list_opt {A} (f : sexp -> option A) (x : sexp) : option (option (list A)) :=
  match strip_named x with
  | SAtom "nil" => Some None
  | _ => option_map Some (d_list f x)
  end.

Definition d_ptr {A} (f : sexp -> option A) (x : sexp) : option (option A) :=
  match x with
  | SAtom "nil" => Some None
  | SList [SAtom "ptr"; y] => option_map Some (f y)
  | _ => None
  end.

Definition d_nstr (x : sexp) : option string := d_str (strip_named x).

Fixpoint sexp_size (x : sexp) : nat :=
  match x with
  | SAtom _ => 1
  | SList l => S ((fix go (l : list sexp) := match l with [] => 0 | y :: r => sexp_size y + go r end) l)
  end.
