(* A functional model of the fluent builder API (select / insert / update / delete builders and their
   intermediate handle types): every method as a pure function on the value records.  [api] is tied to the
   code by the harness mode "api" (every applied method: receiver, arguments and result are dumped, the model
   result is compared observationally with the implementation's).  Definitions only. *)
From Coq Require Import String List Ascii ZArith Bool.
From QRB Require Import Base.Bytes Model.W Model.Values Model.Compile.
Import ListNotations.
Local Open Scope string_scope.
Local Open Scope list_scope.

Section Api.
  Variable V : Type.
  Notation exp := (exp V).

  Inductive aarg :=
  | AExp (e : exp)                   (* any Exp / FromExp / SelectExp / Identer argument (ENil for a nil interface) *)
  | AStr (s : string)
  | AExps (l : list exp)             (* variadic / slice of expressions *)
  | AStrs (l : list string)
  | AExpss (l : list (list exp))     (* ...[]Exp *)
  | AMap (l : list (string * V))     (* map[string]any, keys sorted (Go: sort.Strings) *)
  | AWith (ws : list (withq exp))    (* a WithBuilder (its list of WITH queries) *)
  | AAny (v : V)                     (* an argument of type any (a value to be bound) *)
  | AAnys (l : list V)
  | ABool (b : bool)
  | AInt (z : Z).                    (* int / rune *)

  (* ---------------------------------------------------------------- record updates *)
  Definition p_set_list (p : parts exp) l :=
    mkParts (p_distinct p) (p_distinctOn p) (p_json p) (p_jsonAlias p) l (p_from p) (p_where p) (p_gbDistinct p)
            (p_groupBys p) (p_having p) (p_orderBys p) (p_limit p) (p_offset p) (p_lock p).
  Definition p_set_distinct (p : parts exp) d on :=
    mkParts d on (p_json p) (p_jsonAlias p) (p_list p) (p_from p) (p_where p) (p_gbDistinct p)
            (p_groupBys p) (p_having p) (p_orderBys p) (p_limit p) (p_offset p) (p_lock p).
  Definition p_set_jsonAlias (p : parts exp) a :=
    mkParts (p_distinct p) (p_distinctOn p) (p_json p) a (p_list p) (p_from p) (p_where p) (p_gbDistinct p)
            (p_groupBys p) (p_having p) (p_orderBys p) (p_limit p) (p_offset p) (p_lock p).
  Definition p_set_from (p : parts exp) f :=
    mkParts (p_distinct p) (p_distinctOn p) (p_json p) (p_jsonAlias p) (p_list p) f (p_where p) (p_gbDistinct p)
            (p_groupBys p) (p_having p) (p_orderBys p) (p_limit p) (p_offset p) (p_lock p).
  Definition p_set_where (p : parts exp) w :=
    mkParts (p_distinct p) (p_distinctOn p) (p_json p) (p_jsonAlias p) (p_list p) (p_from p) w (p_gbDistinct p)
            (p_groupBys p) (p_having p) (p_orderBys p) (p_limit p) (p_offset p) (p_lock p).
  Definition p_set_group (p : parts exp) d g :=
    mkParts (p_distinct p) (p_distinctOn p) (p_json p) (p_jsonAlias p) (p_list p) (p_from p) (p_where p) d
            g (p_having p) (p_orderBys p) (p_limit p) (p_offset p) (p_lock p).
  Definition p_set_having (p : parts exp) h :=
    mkParts (p_distinct p) (p_distinctOn p) (p_json p) (p_jsonAlias p) (p_list p) (p_from p) (p_where p) (p_gbDistinct p)
            (p_groupBys p) h (p_orderBys p) (p_limit p) (p_offset p) (p_lock p).
  Definition p_set_order (p : parts exp) o :=
    mkParts (p_distinct p) (p_distinctOn p) (p_json p) (p_jsonAlias p) (p_list p) (p_from p) (p_where p) (p_gbDistinct p)
            (p_groupBys p) (p_having p) o (p_limit p) (p_offset p) (p_lock p).
  Definition p_set_limit (p : parts exp) l :=
    mkParts (p_distinct p) (p_distinctOn p) (p_json p) (p_jsonAlias p) (p_list p) (p_from p) (p_where p) (p_gbDistinct p)
            (p_groupBys p) (p_having p) (p_orderBys p) l (p_offset p) (p_lock p).
  Definition p_set_offset (p : parts exp) o :=
    mkParts (p_distinct p) (p_distinctOn p) (p_json p) (p_jsonAlias p) (p_list p) (p_from p) (p_where p) (p_gbDistinct p)
            (p_groupBys p) (p_having p) (p_orderBys p) (p_limit p) o (p_lock p).
  Definition p_set_lock (p : parts exp) l :=
    mkParts (p_distinct p) (p_distinctOn p) (p_json p) (p_jsonAlias p) (p_list p) (p_from p) (p_where p) (p_gbDistinct p)
            (p_groupBys p) (p_having p) (p_orderBys p) (p_limit p) (p_offset p) l.
  Definition empty_parts : parts exp :=
    mkParts false [] None "" [] [] [] false [] [] [] ENil ENil (mkLock "" [] "").

  (* modify the last element of a list (Go: index len-1; panics on an empty list) *)
  Fixpoint upd_last {A} (f : A -> A) (l : list A) : option (list A) :=
    match l with
    | [] => None
    | [x] => Some [f x]
    | x :: r => option_map (cons x) (upd_last f r)
    end.

  Definition fi_set_alias (i : fromitem exp) a := mkFromItem (fi_lateral i) (fi_only i) (fi_from i) a (fi_colaliases i).
  Definition fi_set_cols (i : fromitem exp) c := mkFromItem (fi_lateral i) (fi_only i) (fi_from i) (fi_alias i) c.
  Definition join_item jt lateral from : fromitem exp := mkFromItem false false (EJoin jt lateral from "" ENil []) "" [].
  (* JoinSelectBuilder methods assert that the last FROM item is a join *)
  Definition upd_last_join (f : string -> bool -> exp -> string -> exp -> list string -> exp) (l : list (fromitem exp)) :=
    match rev l with
    | i :: _ =>
        match fi_from i with
        | EJoin jt lat from al on us =>
            upd_last (fun i => mkFromItem (fi_lateral i) (fi_only i) (f jt lat from al on us) (fi_alias i) (fi_colaliases i)) l
        | _ => None
        end
    | [] => None
    end.

  Definition ob_set (o : obc exp) ord nulls := mkObc (ob_exp o) ord nulls.

  Definition opt_bind {A B} (o : option A) (f : A -> option B) : option B := match o with Some x => f x | None => None end.

  (* ---------------------------------------------------------------- SELECT builders *)
  Definition sel_handlers (w : list (withq exp)) (c : list (comb exp)) (p : parts exp) : list (string * (list aarg -> option exp)) :=
    let ret p' := Some (ESelect w c p') in
    [
      ("Select", fun args => match args with [AExps l] => ret (p_set_list p (p_list p ++ map (fun e => (e, "")) l))
                          | _ => None end);
      ("SelectSelectBuilder.As", fun args => match args with [AStr a] =>
        opt_bind (upd_last (fun x => (fst x, a)) (p_list p)) (fun l => ret (p_set_list p l))
                          | _ => None end);
      ("SelectSelectBuilder.Distinct", fun args => match args with [] => ret (p_set_distinct p true (p_distinctOn p))
                          | _ => None end);
      ("SelectDistinctBuilder.On", fun args => match args with [AExp e; AExps l] => ret (p_set_distinct p (p_distinct p) (e :: l))
                          | _ => None end);
      ("SelectJsonSelectBuilder.As", fun args => match args with [AStr a] => ret (p_set_jsonAlias p a)
                          | _ => None end);
      ("From", fun args => match args with [AExp f] => ret (p_set_from p (p_from p ++ [mkFromItem false false f "" []]))
                          | _ => None end);
      ("FromLateral", fun args => match args with [AExp f] => ret (p_set_from p (p_from p ++ [mkFromItem true false f "" []]))
                          | _ => None end);
      ("FromOnly", fun args => match args with [AExp f] => ret (p_set_from p (p_from p ++ [mkFromItem false true f "" []]))
                          | _ => None end);
      ("FromSelectBuilder.As", fun args => match args with [AStr a] =>
        opt_bind (upd_last (fun i => fi_set_alias i a) (p_from p)) (fun l => ret (p_set_from p l))
                          | _ => None end);
      ("FromSelectBuilder.ColumnAliases", fun args => match args with [AStrs cs] =>
        opt_bind (upd_last (fun i => fi_set_cols i cs) (p_from p)) (fun l => ret (p_set_from p l))
                          | _ => None end);
      ("Join", fun args => match args with [AExp f] => ret (p_set_from p (p_from p ++ [join_item "JOIN" false f]))
                          | _ => None end);
      ("JoinLateral", fun args => match args with [AExp f] => ret (p_set_from p (p_from p ++ [join_item "JOIN" true f]))
                          | _ => None end);
      ("LeftJoin", fun args => match args with [AExp f] => ret (p_set_from p (p_from p ++ [join_item "LEFT JOIN" false f]))
                          | _ => None end);
      ("LeftJoinLateral", fun args => match args with [AExp f] => ret (p_set_from p (p_from p ++ [join_item "LEFT JOIN" true f]))
                          | _ => None end);
      ("RightJoin", fun args => match args with [AExp f] => ret (p_set_from p (p_from p ++ [join_item "RIGHT JOIN" false f]))
                          | _ => None end);
      ("FullJoin", fun args => match args with [AExp f] => ret (p_set_from p (p_from p ++ [join_item "FULL JOIN" false f]))
                          | _ => None end);
      ("CrossJoin", fun args => match args with [AExp f] => ret (p_set_from p (p_from p ++ [join_item "CROSS JOIN" false f]))
                          | _ => None end);
      ("CrossJoinLateral", fun args => match args with [AExp f] => ret (p_set_from p (p_from p ++ [join_item "CROSS JOIN" true f]))
                          | _ => None end);
      ("JoinSelectBuilder.As", fun args => match args with [AStr a] =>
        opt_bind (upd_last_join (fun jt lat from _ on us => EJoin jt lat from a on us) (p_from p)) (fun l => ret (p_set_from p l))
                          | _ => None end);
      ("JoinSelectBuilder.On", fun args => match args with [AExp cnd; AExps rest] =>
        let on := match rest with [] => cnd | _ => EJunction (filter (fun e => negb (is_nil e)) (cnd :: rest)) "AND" end in
        opt_bind (upd_last_join (fun jt lat from al _ us => EJoin jt lat from al on us) (p_from p)) (fun l => ret (p_set_from p l))
                          | _ => None end);
      ("JoinSelectBuilder.Using", fun args => match args with [AStrs cs] =>
        opt_bind (upd_last_join (fun jt lat from al on _ => EJoin jt lat from al on cs) (p_from p)) (fun l => ret (p_set_from p l))
                          | _ => None end);
      ("Where", fun args => match args with [AExp e] => ret (p_set_where p (p_where p ++ [e]))
                          | _ => None end);
      ("Having", fun args => match args with [AExp e] => ret (p_set_having p (p_having p ++ [e]))
                          | _ => None end);
      ("GroupBy", fun args => match args with [AExps l] =>
        match l with
        | [] => ret p
        | _ => ret (p_set_group p (p_gbDistinct p) (p_groupBys p ++ [mkGrouping "" [l]]))
        end
                          | _ => None end);
      ("GroupyBySelectBuilder.Distinct", fun args => match args with [] => ret (p_set_group p true (p_groupBys p))
                          | _ => None end);
      ("GroupyBySelectBuilder.Empty", fun args => match args with [] => ret (p_set_group p (p_gbDistinct p) (p_groupBys p ++ [mkGrouping "" [[]]]))
                          | _ => None end);
      ("GroupyBySelectBuilder.Rollup", fun args => match args with [AExpss s] => ret (p_set_group p (p_gbDistinct p) (p_groupBys p ++ [mkGrouping "ROLLUP" s]))
                          | _ => None end);
      ("GroupyBySelectBuilder.Cube", fun args => match args with [AExpss s] => ret (p_set_group p (p_gbDistinct p) (p_groupBys p ++ [mkGrouping "CUBE" s]))
                          | _ => None end);
      ("GroupyBySelectBuilder.GroupingSets", fun args => match args with [AExpss s] =>
        ret (p_set_group p (p_gbDistinct p) (p_groupBys p ++ [mkGrouping "GROUPING SETS" s]))
                          | _ => None end);
      ("OrderBy", fun args => match args with [AExp e] => ret (p_set_order p (p_orderBys p ++ [mkObc e "" ""]))
                          | _ => None end);
      ("OrderBySelectBuilder.Asc", fun args => match args with [] =>
        opt_bind (upd_last (fun o => ob_set o "ASC" (ob_nulls o)) (p_orderBys p)) (fun l => ret (p_set_order p l))
                          | _ => None end);
      ("OrderBySelectBuilder.Desc", fun args => match args with [] =>
        opt_bind (upd_last (fun o => ob_set o "DESC" (ob_nulls o)) (p_orderBys p)) (fun l => ret (p_set_order p l))
                          | _ => None end);
      ("OrderBySelectBuilder.NullsFirst", fun args => match args with [] =>
        opt_bind (upd_last (fun o => ob_set o (ob_order o) "NULLS FIRST") (p_orderBys p)) (fun l => ret (p_set_order p l))
                          | _ => None end);
      ("OrderBySelectBuilder.NullsLast", fun args => match args with [] =>
        opt_bind (upd_last (fun o => ob_set o (ob_order o) "NULLS LAST") (p_orderBys p)) (fun l => ret (p_set_order p l))
                          | _ => None end);
      ("Limit", fun args => match args with [AExp e] => ret (p_set_limit p e)
                          | _ => None end);
      ("Offset", fun args => match args with [AExp e] => ret (p_set_offset p e)
                          | _ => None end);
      ("ForUpdate", fun args => match args with [] => ret (p_set_lock p (mkLock "UPDATE" [] ""))
                          | _ => None end);
      ("ForNoKeyUpdate", fun args => match args with [] => ret (p_set_lock p (mkLock "NO KEY UPDATE" [] ""))
                          | _ => None end);
      ("ForShare", fun args => match args with [] => ret (p_set_lock p (mkLock "SHARE" [] ""))
                          | _ => None end);
      ("ForKeyShare", fun args => match args with [] => ret (p_set_lock p (mkLock "KEY SHARE" [] ""))
                          | _ => None end);
      ("ForSelectBuilder.Of", fun args => match args with [AStr t; AStrs ts] => ret (p_set_lock p (mkLock (lk_strength (p_lock p)) (t :: ts) (lk_wait (p_lock p))))
                          | _ => None end);
      ("ForSelectBuilder.Nowait", fun args => match args with [] => ret (p_set_lock p (mkLock (lk_strength (p_lock p)) (lk_of (p_lock p)) "NOWAIT"))
                          | _ => None end);
      ("ForSelectBuilder.SkipLocked", fun args => match args with [] => ret (p_set_lock p (mkLock (lk_strength (p_lock p)) (lk_of (p_lock p)) "SKIP LOCKED"))
                          | _ => None end);
      ("AppendWith", fun args => match args with [AWith ws] => Some (ESelect (w ++ ws) c p)
                          | _ => None end);
      (* the function arguments travel as what they return on this receiver (ENil: a nil function) *)
      ("ApplyIf", fun args => match args with
                              | [ABool cnd; AExp r] => Some (if cnd && negb (is_nil r) then r else ESelect w c p)
                              | _ => None end);
      ("ApplySelectJson", fun args => match args with
                              | [AExp j] => ret (mkParts (p_distinct p) (p_distinctOn p) (Some j) (p_jsonAlias p) (p_list p) (p_from p)
                                                   (p_where p) (p_gbDistinct p) (p_groupBys p) (p_having p) (p_orderBys p)
                                                   (p_limit p) (p_offset p) (p_lock p))
                              | _ => None end);
      ("Union", fun args => match args with [] => Some (ESelect w (c ++ [mkComb p "UNION" false]) empty_parts)
                          | _ => None end);
      ("Intersect", fun args => match args with [] => Some (ESelect w (c ++ [mkComb p "INTERSECT" false]) empty_parts)
                          | _ => None end);
      ("Except", fun args => match args with [] => Some (ESelect w (c ++ [mkComb p "EXCEPT" false]) empty_parts)
                          | _ => None end);
      ("CombinationBuilder.All", fun args => match args with [] =>
        opt_bind (upd_last (fun b => mkComb (cb_parts b) (cb_type b) true) c) (fun c' => Some (ESelect w c' p))
                          | _ => None end)
    ].

  (* ---------------------------------------------------------------- INSERT / UPDATE / DELETE builders *)
  Definition ins_set (b : insb exp) alias cols dflt vals q ct ctw cc ca cs cw r : insb exp :=
    mkIns (i_with b) (i_table b) alias cols dflt vals q ct ctw cc ca cs cw r.
  Definition ins_handlers (b : insb exp) : list (string * (list aarg -> option exp)) :=
    let keep alias cols dflt vals q ct ctw cc ca cs cw r := Some (EInsert (ins_set b alias cols dflt vals q ct ctw cc ca cs cw r)) in
    let k := keep in
    [
      ("InsertBuilder.As", fun args => match args with [AStr a] =>
        k a (i_cols b) (i_default b) (i_values b) (i_query b) (i_ctargets b) (i_ctwhere b) (i_cconstraint b) (i_caction b) (i_cset b) (i_cwhere b) (i_returning b)
                          | _ => None end);
      (* promoted through the other handle types *)
      ("As", fun args => match args with [AStr a] =>
        k a (i_cols b) (i_default b) (i_values b) (i_query b) (i_ctargets b) (i_ctwhere b) (i_cconstraint b) (i_caction b) (i_cset b) (i_cwhere b) (i_returning b)
                          | _ => None end);
      ("ColumnNames", fun args => match args with [AStr c; AStrs cs] =>
        k (i_alias b) (Some (c :: cs)) (i_default b) (i_values b) (i_query b) (i_ctargets b) (i_ctwhere b) (i_cconstraint b) (i_caction b) (i_cset b) (i_cwhere b) (i_returning b)
                          | _ => None end);
      ("DefaultValues", fun args => match args with [] =>
        k (i_alias b) (i_cols b) true (i_values b) (i_query b) (i_ctargets b) (i_ctwhere b) (i_cconstraint b) (i_caction b) (i_cset b) (i_cwhere b) (i_returning b)
                          | _ => None end);
      ("Values", fun args => match args with [AExps l] =>
        k (i_alias b) (i_cols b) (i_default b) (Some (match i_values b with Some rows => rows | None => [] end ++ [l])) (i_query b)
          (i_ctargets b) (i_ctwhere b) (i_cconstraint b) (i_caction b) (i_cset b) (i_cwhere b) (i_returning b)
                          | _ => None end);
      ("SetMap", fun args => match args with [AMap kv] =>
        k (i_alias b) (Some (map fst kv)) (i_default b) (Some [map (fun x => EBase (EArg (snd x))) kv]) (i_query b)
          (i_ctargets b) (i_ctwhere b) (i_cconstraint b) (i_caction b) (i_cset b) (i_cwhere b) (i_returning b)
                          | _ => None end);
      ("Query", fun args => match args with [AExp q] =>
        k (i_alias b) (i_cols b) (i_default b) (i_values b) q (i_ctargets b) (i_ctwhere b) (i_cconstraint b) (i_caction b) (i_cset b) (i_cwhere b) (i_returning b)
                          | _ => None end);
      ("OnConflict", fun args => match args with [AExps ts] =>
        k (i_alias b) (i_cols b) (i_default b) (i_values b) (i_query b) (i_ctargets b ++ ts) (i_ctwhere b) (i_cconstraint b) (i_caction b) (i_cset b) (i_cwhere b) (i_returning b)
                          | _ => None end);
      ("OnConflictInsertBuilder.OnConstraint", fun args => match args with [AStr n] =>
        k (i_alias b) (i_cols b) (i_default b) (i_values b) (i_query b) (i_ctargets b) (i_ctwhere b) n (i_caction b) (i_cset b) (i_cwhere b) (i_returning b)
                          | _ => None end);
      ("OnConflictInsertBuilder.DoUpdate", fun args => match args with [] =>
        k (i_alias b) (i_cols b) (i_default b) (i_values b) (i_query b) (i_ctargets b) (i_ctwhere b) (i_cconstraint b) "DO UPDATE" (i_cset b) (i_cwhere b) (i_returning b)
                          | _ => None end);
      ("OnConflictInsertBuilder.DoNothing", fun args => match args with [] =>
        k (i_alias b) (i_cols b) (i_default b) (i_values b) (i_query b) (i_ctargets b) (i_ctwhere b) (i_cconstraint b) "DO NOTHING" (i_cset b) (i_cwhere b) (i_returning b)
                          | _ => None end);
      ("OnConflictInsertBuilder.Where", fun args => match args with [AExp e] =>
        k (i_alias b) (i_cols b) (i_default b) (i_values b) (i_query b) (i_ctargets b) (i_ctwhere b ++ [e]) (i_cconstraint b) (i_caction b) (i_cset b) (i_cwhere b) (i_returning b)
                          | _ => None end);
      ("OnConflictDoUpdateInsertBuilder.Set", fun args => match args with [AStr c; AExp v] =>
        k (i_alias b) (i_cols b) (i_default b) (i_values b) (i_query b) (i_ctargets b) (i_ctwhere b) (i_cconstraint b) (i_caction b) (i_cset b ++ [(c, v)]) (i_cwhere b) (i_returning b)
                          | _ => None end);
      ("OnConflictDoUpdateInsertBuilder.Where", fun args => match args with [AExp e] =>
        k (i_alias b) (i_cols b) (i_default b) (i_values b) (i_query b) (i_ctargets b) (i_ctwhere b) (i_cconstraint b) (i_caction b) (i_cset b) (i_cwhere b ++ [e]) (i_returning b)
                          | _ => None end);
      ("Returning", fun args => match args with [AExp e; AExps l] =>
        k (i_alias b) (i_cols b) (i_default b) (i_values b) (i_query b) (i_ctargets b) (i_ctwhere b) (i_cconstraint b) (i_caction b) (i_cset b) (i_cwhere b)
          (i_returning b ++ map (fun x => (x, "")) (e :: l))
                          | _ => None end);
      ("ReturningInsertBuilder.As", fun args => match args with [AStr a] =>
        opt_bind (upd_last (fun x => (fst x, a)) (i_returning b)) (fun r =>
          k (i_alias b) (i_cols b) (i_default b) (i_values b) (i_query b) (i_ctargets b) (i_ctwhere b) (i_cconstraint b) (i_caction b) (i_cset b) (i_cwhere b) r)
                          | _ => None end)
    ].

  Definition upd_handlers (b : updb exp) : list (string * (list aarg -> option exp)) :=
    let k alias set from wh r := Some (EUpdate (mkUpd (u_with b) (u_table b) alias set from wh r)) in
    [
      ("UpdateBuilder.As", fun args => match args with [AStr a] => k a (u_set b) (u_from b) (u_where b) (u_returning b)
                          | _ => None end);
      (* promoted through the other handle types *)
      ("As", fun args => match args with [AStr a] => k a (u_set b) (u_from b) (u_where b) (u_returning b)
                          | _ => None end);
      ("Set", fun args => match args with [AStr c; AExp v] => k (u_alias b) (u_set b ++ [(c, v)]) (u_from b) (u_where b) (u_returning b)
                          | _ => None end);
      ("SetMap", fun args => match args with [AMap kv] => k (u_alias b) (map (fun x => (fst x, EBase (EArg (snd x)))) kv) (u_from b) (u_where b) (u_returning b)
                          | _ => None end);
      ("From", fun args => match args with [AExp f] => k (u_alias b) (u_set b) (u_from b ++ [mkFromItem false false f "" []]) (u_where b) (u_returning b)
                          | _ => None end);
      ("FromUpdateBuilder.As", fun args => match args with [AStr a] =>
        opt_bind (upd_last (fun i => fi_set_alias i a) (u_from b)) (fun l => k (u_alias b) (u_set b) l (u_where b) (u_returning b))
                          | _ => None end);
      ("FromUpdateBuilder.ColumnAliases", fun args => match args with [AStrs cs] =>
        opt_bind (upd_last (fun i => fi_set_cols i cs) (u_from b)) (fun l => k (u_alias b) (u_set b) l (u_where b) (u_returning b))
                          | _ => None end);
      ("Where", fun args => match args with [AExp e] => k (u_alias b) (u_set b) (u_from b) (u_where b ++ [e]) (u_returning b)
                          | _ => None end);
      ("Returning", fun args => match args with [AExp e] => k (u_alias b) (u_set b) (u_from b) (u_where b) (u_returning b ++ [(e, "")])
                          | _ => None end);
      ("ReturningUpdateBuilder.As", fun args => match args with [AStr a] =>
        opt_bind (upd_last (fun x => (fst x, a)) (u_returning b)) (fun r => k (u_alias b) (u_set b) (u_from b) (u_where b) r)
                          | _ => None end);
      ("ApplyIf", fun args => match args with
                              | [ABool cnd; AExp r] => Some (if cnd && negb (is_nil r) then r else EUpdate b)
                              | _ => None end)
    ].

  Definition del_handlers (b : delb exp) : list (string * (list aarg -> option exp)) :=
    let k alias us wh r := Some (EDelete (mkDel (d_with b) (d_table b) alias us wh r)) in
    [
      ("DeleteBuilder.As", fun args => match args with [AStr a] => k a (d_using b) (d_where b) (d_returning b)
                          | _ => None end);
      (* promoted through the other handle types *)
      ("As", fun args => match args with [AStr a] => k a (d_using b) (d_where b) (d_returning b)
                          | _ => None end);
      ("Using", fun args => match args with [AExp f] => k (d_alias b) (d_using b ++ [mkFromItem false false f "" []]) (d_where b) (d_returning b)
                          | _ => None end);
      ("FromDeleteBuilder.As", fun args => match args with [AStr a] =>
        opt_bind (upd_last (fun i => fi_set_alias i a) (d_using b)) (fun l => k (d_alias b) l (d_where b) (d_returning b))
                          | _ => None end);
      ("FromDeleteBuilder.ColumnAliases", fun args => match args with [AStrs cs] =>
        opt_bind (upd_last (fun i => fi_set_cols i cs) (d_using b)) (fun l => k (d_alias b) l (d_where b) (d_returning b))
                          | _ => None end);
      ("Where", fun args => match args with [AExp e] => k (d_alias b) (d_using b) (d_where b ++ [e]) (d_returning b)
                          | _ => None end);
      ("Returning", fun args => match args with [AExp e] => k (d_alias b) (d_using b) (d_where b) (d_returning b ++ [(e, "")])
                          | _ => None end);
      ("ReturningDeleteBuilder.As", fun args => match args with [AStr a] =>
        opt_bind (upd_last (fun x => (fst x, a)) (d_returning b)) (fun r => k (d_alias b) (d_using b) (d_where b) r)
                          | _ => None end)
    ].

  (* the method key: "Type.Method" for the methods of a handle type that are not promoted from the underlying
     builder, else the bare method name *)
  Definition specific : list string :=
    ["SelectSelectBuilder.As"; "SelectSelectBuilder.Distinct"; "SelectDistinctBuilder.On"; "SelectJsonSelectBuilder.As";
     "FromSelectBuilder.As"; "FromSelectBuilder.ColumnAliases"; "JoinSelectBuilder.As"; "JoinSelectBuilder.On";
     "JoinSelectBuilder.Using"; "GroupyBySelectBuilder.Distinct"; "GroupyBySelectBuilder.Empty"; "GroupyBySelectBuilder.Rollup";
     "GroupyBySelectBuilder.Cube"; "GroupyBySelectBuilder.GroupingSets"; "OrderBySelectBuilder.Asc"; "OrderBySelectBuilder.Desc";
     "OrderBySelectBuilder.NullsFirst"; "OrderBySelectBuilder.NullsLast"; "ForSelectBuilder.Of"; "ForSelectBuilder.Nowait";
     "ForSelectBuilder.SkipLocked"; "CombinationBuilder.All";
     "InsertBuilder.As"; "OnConflictInsertBuilder.OnConstraint"; "OnConflictInsertBuilder.DoUpdate";
     "OnConflictInsertBuilder.DoNothing"; "OnConflictInsertBuilder.Where"; "OnConflictDoUpdateInsertBuilder.Set";
     "OnConflictDoUpdateInsertBuilder.Where"; "ReturningInsertBuilder.As";
     "UpdateBuilder.As"; "FromUpdateBuilder.As"; "FromUpdateBuilder.ColumnAliases"; "ReturningUpdateBuilder.As";
     "DeleteBuilder.As"; "FromDeleteBuilder.As"; "FromDeleteBuilder.ColumnAliases"; "ReturningDeleteBuilder.As"].

  Definition mkey (rtype meth : string) : string :=
    let full := (rtype ++ "." ++ meth)%string in
    if existsb (String.eqb full) specific then full else meth.

  Definition lookup_h (m : string) (hs : list (string * (list aarg -> option exp))) (args : list aarg) : option exp :=
    match find (fun kh => String.eqb (fst kh) m) hs with
    | Some kh => snd kh args
    | None => None
    end.

  Definition handlers_of (recv : exp) : list (string * (list aarg -> option exp)) :=
    match recv with
    | ESelect w c p => sel_handlers w c p
    | EInsert b => ins_handlers b
    | EUpdate b => upd_handlers b
    | EDelete b => del_handlers b
    | _ => []
    end.

  Definition api (rtype meth : string) (recv : exp) (args : list aarg) : option exp :=
    lookup_h (mkey rtype meth) (handlers_of recv) args.

  (* ---------------------------------------------------------------- WITH builders (with_builder.go) *)
  (* the four handle types: a finished list of WITH queries; a list whose last query still lacks its statement;
     a search clause under construction for the last query *)
  Inductive wrecv :=
  | WB (ws : list (withq exp))
  | WWB (ws : list (withq exp))
  | WSB (ws : list (withq exp)) (ty : string)
  | WSBB (ws : list (withq exp)) (ty : string) (by_ : list exp).
  Inductive ares := RExp (e : exp) | RWith (w : wrecv).

  Definition wq_set_cols (q : withq exp) c := mkWithq (wq_rec q) (wq_name q) c (wq_mat q) (wq_query q) (wq_search q).
  Definition wq_set_query (q : withq exp) e m := mkWithq (wq_rec q) (wq_name q) (wq_cols q) m e (wq_search q).
  Definition wq_set_search (q : withq exp) s := mkWithq (wq_rec q) (wq_name q) (wq_cols q) (wq_mat q) (wq_query q) (Some s).
  Definition wq_start (r : bool) (n : string) : withq exp := mkWithq r n [] None ENil None.

  Definition with_handlers (r : wrecv) : list (string * (list aarg -> option ares)) :=
    match r with
    | WB ws =>
        [("With", fun args => match args with [AStr n] => Some (RWith (WWB (ws ++ [wq_start false n]))) | _ => None end);
         ("WithRecursive", fun args => match args with [AStr n] => Some (RWith (WWB (ws ++ [wq_start true n]))) | _ => None end);
         ("SearchDepthFirst", fun args => match args with [] => Some (RWith (WSB ws "DEPTH")) | _ => None end);
         ("SearchBreadthFirst", fun args => match args with [] => Some (RWith (WSB ws "BREADTH")) | _ => None end);
         ("Select", fun args => match args with
                                | [AExps l] => Some (RExp (ESelect ws [] (p_set_list empty_parts (map (fun e => (e, "")) l))))
                                | _ => None end);
         ("InsertInto", fun args => match args with
                                    | [AExp t] => Some (RExp (EInsert (mkIns ws t "" None false None ENil [] [] "" "" [] [] [])))
                                    | _ => None end);
         ("Update", fun args => match args with [AExp t] => Some (RExp (EUpdate (mkUpd ws t "" [] [] [] []))) | _ => None end);
         ("DeleteFrom", fun args => match args with [AExp t] => Some (RExp (EDelete (mkDel ws t "" [] [] []))) | _ => None end)]
    | WWB ws =>
        let fin q m := opt_bind (upd_last (fun x => wq_set_query x q m) ws) (fun l => Some (RWith (WB l))) in
        [("ColumnNames", fun args => match args with
                                     | [AStrs c] => opt_bind (upd_last (fun x => wq_set_cols x c) ws) (fun l => Some (RWith (WWB l)))
                                     | _ => None end);
         ("As", fun args => match args with [AExp q] => fin q None | _ => None end);
         ("AsNotMaterialized", fun args => match args with [AExp q] => fin q (Some false) | _ => None end);
         ("AsMaterialized", fun args => match args with [AExp q] => fin q (Some true) | _ => None end)]
    | WSB ws ty =>
        [("By", fun args => match args with [AExp e; AExps l] => Some (RWith (WSBB ws ty (e :: l))) | _ => None end)]
    | WSBB ws ty by_ =>
        [("Set", fun args => match args with
                             | [AStr n] => opt_bind (upd_last (fun x => wq_set_search x (mkWSearch ty by_ n)) ws)
                                             (fun l => Some (RWith (WB l)))
                             | _ => None end)]
    end.

  Definition api_with (meth : string) (r : wrecv) (args : list aarg) : option ares :=
    match find (fun kh => String.eqb (fst kh) meth) (with_handlers r) with
    | Some kh => snd kh args
    | None => None
    end.

  Definition entry_with (name : string) (args : list aarg) : option wrecv :=
    match args with
    | [AStr n] => if String.eqb name "With" then Some (WWB [wq_start false n])
                  else if String.eqb name "WithRecursive" then Some (WWB [wq_start true n]) else None
    | _ => None
    end.

  (* the package-level entry points (root.go): Select is SelectBuilder{}.Select; the three table statements start
     from a builder holding only the table *)
  Definition entry (name : string) (args : list aarg) : option exp :=
    if String.eqb name "Select" then api "SelectBuilder" "Select" (ESelect [] [] empty_parts) args
    else if String.eqb name "SelectJson" then
      match args with
      | [AExp obj] => Some (ESelect [] [] (mkParts false [] (Some obj) "" [] [] [] false [] [] [] ENil ENil (mkLock "" [] "")))
      | _ => None
      end
    else match args with
         | [AExp t] =>
             if String.eqb name "InsertInto" then Some (EInsert (mkIns [] t "" None false None ENil [] [] "" "" [] [] []))
             else if String.eqb name "Update" then Some (EUpdate (mkUpd [] t "" [] [] [] []))
             else if String.eqb name "DeleteFrom" then Some (EDelete (mkDel [] t "" [] [] []))
             else None
         | _ => None
         end.
End Api.

Arguments AExp {V}. Arguments AStr {V}. Arguments AExps {V}. Arguments AStrs {V}. Arguments AExpss {V}. Arguments AMap {V}. Arguments AWith {V}. Arguments AAny {V}. Arguments AAnys {V}. Arguments ABool {V}. Arguments AInt {V}.
Arguments api {V}. Arguments entry {V}. Arguments api_with {V}. Arguments entry_with {V}.
Arguments WB {V}. Arguments WWB {V}. Arguments WSB {V}. Arguments WSBB {V}. Arguments RExp {V}. Arguments RWith {V}.
