(* "Every node of the writer tree satisfies Q" and its closure under the combinators Compile.v is
   built from; the links to the boolean tree predicates of WModes.v. *)
From Coq Require Import String List Ascii ZArith Bool Lia.
From QRB Require Import Base.Bytes Model.W Model.WInd Model.WModes Model.Values Model.Compile.
Import ListNotations.

Section Wall.
  Variable V : Type.
  Notation W := (W V).
  Variable Q : W -> Prop.

  Definition is_seq (w : W) : Prop := match w with WSeq _ => True | _ => False end.

  Inductive Wall : W -> Prop :=
  | Wall_seq l : Forall Wall l -> Wall (WSeq l)
  | Wall_prim w : ~ is_seq w -> Q w -> Wall w.

  Lemma Wall_seq_inv l : Wall (WSeq l) -> Forall Wall l.
  Proof. intro H. inversion H as [l' HF|w Hn Hq]; subst; [assumption|exfalso; apply Hn; exact I]. Qed.

  Lemma Wall_nil : Wall (WSeq []).
  Proof. constructor. constructor. Qed.

  Lemma Wall_when b l : Forall Wall l -> Wall (when V b l).
  Proof. intro H. unfold when. destruct b; [now constructor|apply Wall_nil]. Qed.

  Lemma Wall_when_lazy b l : (b = true -> Forall Wall l) -> Wall (when V b l).
  Proof. intro H. unfold when. destruct b; [constructor; now apply H|apply Wall_nil]. Qed.

  Lemma Forall_sep_by sep l : Wall sep -> Forall Wall l -> Forall Wall (sep_by sep l).
  Proof.
    intros Hs H. induction H as [|x r Hx Hr IH]; cbn [sep_by]; [constructor|].
    destruct r; [constructor; [assumption|constructor]|]. constructor; [assumption|]. constructor; assumption.
  Qed.

  Lemma Wall_sep sep l : Wall sep -> Forall Wall l -> Wall (WSeq (sep_by sep l)).
  Proof. intros. constructor. now apply Forall_sep_by. Qed.

  Lemma Forall_map_Wall {A} (f : A -> W) l : Forall (fun x => Wall (f x)) l -> Forall Wall (map f l).
  Proof. intro H. now apply Forall_map. Qed.

  Lemma Wall_paren_if b w : Q (WKw "(") -> Q (WKw ")") -> Wall w -> Wall (paren_if V b w).
  Proof.
    intros H1 H2 H. unfold paren_if. destruct b; [|assumption].
    constructor. repeat (apply Forall_cons || apply Forall_nil); try assumption; apply Wall_prim; cbn; tauto.
  Qed.
End Wall.

Arguments Wall {V}.

(* links to the boolean predicates *)
Section Links.
  Variable V : Type.

  Lemma Wall_impl (Q Q' : W V -> Prop) w : (forall x, Q x -> Q' x) -> Wall Q w -> Wall Q' w.
  Proof.
    intro H. induction w as [t|t|t|t|v|n|t|t|k|k|pk|l IH|] using W_ind'; intro K;
      try (inversion K as [|? Hn Hq]; subst; apply Wall_prim; [assumption|now apply H]).
    apply Wall_seq_inv in K. constructor. induction IH as [|x r Hx _ IHr]; [constructor|].
    inversion K; subst. constructor; [now apply Hx|now apply IHr].
  Qed.

  Lemma Wall_no_panic w : Wall (fun x => x <> WPanic) w -> panics V w = false.
  Proof.
    induction w as [t|t|t|t|v|n|t|t|k|k|pk|l IH|] using W_ind'; intro K; try reflexivity.
    - apply Wall_seq_inv in K. rewrite panics_seq. induction IH as [|x r Hx _ IHr]; [reflexivity|].
      inversion K; subst. cbn [existsb]. rewrite Hx by assumption. now apply IHr.
    - inversion K as [|? _ Hq]; subst. congruence.
  Qed.

  Definition err_kinds_ok (x : W V) : Prop :=
    match x with
    | WErr k => is_validation (k, EmptyString) = false
    | WErrV k => is_validation (k, EmptyString) = true
    | _ => True
    end.

  Lemma Wall_errv_ok w : Wall err_kinds_ok w -> errv_ok V w = true.
  Proof.
    induction w as [t|t|t|t|v|n|t|t|k|k|pk|l IH|] using W_ind'; intro K; try reflexivity.
    - inversion K as [|? _ Hq]; subst. cbn in *. now rewrite Hq.
    - inversion K as [|? _ Hq]; subst. cbn in *. exact Hq.
    - apply Wall_seq_inv in K. rewrite errv_ok_seq. induction IH as [|x r Hx _ IHr]; [reflexivity|].
      inversion K; subst. cbn [forallb]. rewrite Hx by assumption. now apply IHr.
  Qed.
End Links.
