(* The two option switches (properties C14, C15) and totality (C20), for an arbitrary writer tree. *)
From Coq Require Import String List Ascii ZArith Bool Lia Arith.
From QRB Require Import Base.Bytes Model.W Model.WInd.
Import ListNotations.

Section Modes.
  Variable V : Type.
  Variables validI validT : string -> bool.
  Notation run := (run validI validT).
  Notation run_list := (run_list validI validT).
  Notation sb := (sb V).

  (* ---------------------------------------------------------------- totality *)
  Fixpoint panics (w : W V) : bool :=
    match w with
    | WPanic => true
    | WSeq l => (fix go (l : list (W V)) := match l with [] => false | x :: r => panics x || go r end) l
    | _ => false
    end.

  Lemma panics_seq l : panics (WSeq l) = existsb panics l.
  Proof. cbn [panics]. induction l as [|x r IH]; cbn [existsb]; [reflexivity|now rewrite IH]. Qed.

  (* a rendering fails to return normally exactly when the tree contains a panic site;
     in particular termination and the outcome None/Some do not depend on the state or the options *)
  Theorem run_total o (w : W V) : forall s, (exists s', run o w s = Some s') <-> panics w = false.
  Proof.
    induction w as [t|t|t|t|v|n|t|t|k|k|pk|l IH|] using W_ind'; intro s.
    1-11: cbn [W.run panics]; split; [reflexivity|intros _].
    1-4, 9, 11: eexists; reflexivity.
    - eexists; reflexivity.
    - destruct (lookup n (named s)); eexists; reflexivity.
    - destruct (validating o && negb (validI t)); eexists; reflexivity.
    - destruct (validating o && negb (validT t)); eexists; reflexivity.
    - destruct (validating o); eexists; reflexivity.
    - rewrite run_seq, panics_seq. revert s. induction IH as [|w r Hw _ IHr]; intro s; cbn [W.run_list existsb].
      + split; [reflexivity|intros _; eexists; reflexivity].
      + rewrite orb_false_iff. split.
        * intros [s' H]. destruct (run o w s) as [s1|] eqn:E; [|discriminate]. split.
          -- apply (Hw s). eauto.
          -- apply (IHr s1). eauto.
        * intros [H1 H2]. apply (Hw s) in H1. destruct H1 as [s1 E]. rewrite E. now apply IHr.
    - cbn [W.run panics]. split; [intros [s' H]; discriminate|discriminate].
  Qed.

  (* ---------------------------------------------------------------- C14 *)
  Definition is_validation (e : ekind * string) : bool :=
    match fst e with EkIdent | EkType | EkNoCond => true | _ => false end.
  Definition vcount (l : list (ekind * string)) : nat := length (filter is_validation l).
  Definition structural (l : list (ekind * string)) := filter (fun e => negb (is_validation e)) l.

  Lemma vcount_app a b : vcount (a ++ b) = vcount a + vcount b.
  Proof. unfold vcount. now rewrite filter_app, app_length. Qed.

  Lemma vcount_mono o (w : W V) s s' : run o w s = Some s' -> vcount (errs s) <= vcount (errs s').
  Proof.
    intro H. destruct (run_extends V validI validT o w s s' H) as (_ & _ & _ & [d Hd]).
    rewrite Hd, vcount_app. lia.
  Qed.

  Definition on (p : bool) : opts := Build_opts true p.
  Definition off (p : bool) : opts := Build_opts false p.

  (* WErrV is only used with validation kinds; stated as a side condition on the tree *)
  Fixpoint errv_ok (w : W V) : bool :=
    match w with
    | WErrV k => is_validation (k, EmptyString)
    | WErr k => negb (is_validation (k, EmptyString))
    | WSeq l => (fix go (l : list (W V)) := match l with [] => true | x :: r => errv_ok x && go r end) l
    | _ => true
    end.

  Lemma errv_ok_seq l : errv_ok (WSeq l) = forallb errv_ok l.
  Proof. cbn [errv_ok]. induction l as [|x r IH]; cbn [forallb]; [reflexivity|now rewrite IH]. Qed.

  (* if the validating run adds no validation error, the non-validating run is the same run *)
  Theorem validation_neutral p (w : W V) :
    errv_ok w = true ->
    forall s s1, run (on p) w s = Some s1 -> vcount (errs s1) = vcount (errs s) -> run (off p) w s = Some s1.
  Proof.
    induction w as [t|t|t|t|v|n|t|t|k|k|pk|l IH|] using W_ind'; intros Hok s s1 H Hc.
    1-11: cbn [W.run validating pretty on off] in *.
    1-6, 9, 11: assumption.
    - destruct (negb (validI t)); cbn [andb] in *; [|assumption].
      injection H as <-. cbn [errs add_err] in Hc. rewrite vcount_app in Hc. cbn in Hc. lia.
    - destruct (negb (validT t)); cbn [andb] in *; [|assumption].
      injection H as <-. cbn [errs add_err] in Hc. rewrite vcount_app in Hc. cbn in Hc. lia.
    - injection H as <-. cbn [errs add_err] in Hc. rewrite vcount_app in Hc. cbn [errv_ok] in Hok.
      unfold vcount at 2 in Hc. cbn [filter] in Hc. unfold is_validation in *. cbn [fst] in *.
      rewrite Hok in Hc. cbn in Hc. lia.
    - rewrite run_seq in *. rewrite errv_ok_seq in Hok. revert Hok s s1 H Hc.
      induction IH as [|w r Hw _ IHr]; intros Hok s s1 H Hc; cbn [W.run_list forallb] in *; [assumption|].
      apply andb_true_iff in Hok. destruct Hok as [Ho1 Ho2].
      destruct (run (on p) w s) as [s2|] eqn:E; [|discriminate].
      assert (K1 : vcount (errs s) <= vcount (errs s2)) by (eapply vcount_mono; eassumption).
      assert (K2 : vcount (errs s2) <= vcount (errs s1)).
      { destruct (run_extends V validI validT (on p) (WSeq r) s2 s1) as (_ & _ & _ & [d Hd]).
        - now rewrite run_seq.
        - rewrite Hd, vcount_app. lia. }
      rewrite (Hw Ho1 s s2 E) by lia. apply IHr; [assumption|assumption|lia].
    - discriminate.
  Qed.

  (* structural conflicts are reported identically in both modes *)
  Theorem structural_both_modes p (w : W V) :
    errv_ok w = true ->
    forall s s' s1 s2, run (on p) w s = Some s1 -> run (off p) w s' = Some s2 ->
      structural (errs s) = structural (errs s') -> structural (errs s1) = structural (errs s2).
  Proof.
    induction w as [t|t|t|t|v|n|t|t|k|k|pk|l IH|] using W_ind'; intros Hok s s' s1 s2 H1 H2 Hs.
    1-11: cbn [W.run validating pretty on off] in *.
    1-4, 11: injection H1 as <-; injection H2 as <-; exact Hs.
    - injection H1 as <-; injection H2 as <-; exact Hs.
    - destruct (lookup n (named s)), (lookup n (named s')); injection H1 as <-; injection H2 as <-; exact Hs.
    - injection H2 as <-. destruct (negb (validI t)); cbn [andb] in H1; injection H1 as <-; cbn [errs add_err emit]; [|exact Hs].
      unfold structural. rewrite filter_app. cbn. rewrite app_nil_r. exact Hs.
    - injection H2 as <-. destruct (negb (validT t)); cbn [andb] in H1; injection H1 as <-; cbn [errs add_err emit]; [|exact Hs].
      unfold structural. rewrite filter_app. cbn. rewrite app_nil_r. exact Hs.
    - injection H1 as <-; injection H2 as <-. cbn [errs add_err]. unfold structural in *.
      rewrite !filter_app. now rewrite Hs.
    - injection H1 as <-; injection H2 as <-. cbn [errs add_err]. cbn [errv_ok] in Hok.
      unfold structural in *. rewrite filter_app. cbn [filter]. unfold is_validation in *. cbn [fst] in *.
      rewrite Hok. cbn. rewrite app_nil_r. exact Hs.
    - rewrite run_seq in *. rewrite errv_ok_seq in Hok. revert Hok s s' s1 s2 H1 H2 Hs.
      induction IH as [|w r Hw _ IHr]; intros Hok s s' s1 s2 H1 H2 Hs; cbn [W.run_list forallb] in *.
      + injection H1 as <-; injection H2 as <-; exact Hs.
      + apply andb_true_iff in Hok. destruct Hok as [Ho1 Ho2].
        destruct (run (on p) w s) as [m1|] eqn:E1; [|discriminate].
        destruct (run (off p) w s') as [m2|] eqn:E2; [|discriminate].
        apply (IHr Ho2 m1 m2 s1 s2 H1 H2). apply (Hw Ho1 s s' m1 m2 E1 E2 Hs).
    - discriminate.
  Qed.

  (* ---------------------------------------------------------------- C15 *)
  (* two outputs that differ only in pretty-dependent white space *)
  Definition ws_rel (c1 c2 : chunk) : Prop :=
    c1 = c2 \/ exists k, c1 = CWs (pws_pretty k) /\ c2 = CWs (pws_plain k).
  Definition sb_rel (a b : sb) : Prop :=
    Forall2 ws_rel (out a) (out b) /\ argIdx a = argIdx b /\ args a = args b /\ named a = named b /\
    errs a = errs b.

  Lemma Forall2_snoc {A B} (R : A -> B -> Prop) l l' x y :
    Forall2 R l l' -> R x y -> Forall2 R (l ++ [x]) (l' ++ [y]).
  Proof. intros H K. apply Forall2_app; [assumption|constructor; [assumption|constructor]]. Qed.

  Lemma sb_rel_emit c a b : sb_rel a b -> sb_rel (emit c a) (emit c b).
  Proof.
    intros (H1 & H2 & H3 & H4 & H5). repeat split; cbn; try assumption.
    apply Forall2_snoc; [assumption|now left].
  Qed.

  Lemma sb_rel_err e a b : sb_rel a b -> sb_rel (add_err e a) (add_err e b).
  Proof. intros (H1 & H2 & H3 & H4 & H5). repeat split; cbn; try assumption. now rewrite H5. Qed.

  Definition pp (v : bool) : opts := Build_opts v true.
  Definition pl (v : bool) : opts := Build_opts v false.

  Theorem pretty_ws_only v (w : W V) :
    forall a b a', sb_rel a b -> run (pp v) w a = Some a' ->
      exists b', run (pl v) w b = Some b' /\ sb_rel a' b'.
  Proof.
    induction w as [t|t|t|t|x|n|t|t|k|k|pk|l IH|] using W_ind'; intros a b a' R H.
    1-11: cbn [W.run validating pretty pp pl] in *.
    1-4: injection H as <-; eexists; split; [reflexivity|now apply sb_rel_emit].
    - injection H as <-. eexists; split; [reflexivity|].
      destruct R as (H1 & H2 & H3 & H4 & H5). rewrite H2, H3. repeat split; cbn; try congruence.
      apply Forall2_snoc; [assumption|now left].
    - destruct R as (H1 & H2 & H3 & H4 & H5). rewrite <- H4.
      destruct (lookup n (named a)); injection H as <-; eexists; (split; [reflexivity|]).
      + apply sb_rel_emit. repeat split; assumption.
      + rewrite H2, H3. repeat split; cbn; try congruence. apply Forall2_snoc; [assumption|now left].
    - destruct (v && negb (validI t)); injection H as <-; eexists; (split; [reflexivity|]);
        [now apply sb_rel_err|now apply sb_rel_emit].
    - destruct (v && negb (validT t)); injection H as <-; eexists; (split; [reflexivity|]);
        [now apply sb_rel_err|now apply sb_rel_emit].
    - injection H as <-; eexists; split; [reflexivity|now apply sb_rel_err].
    - destruct v; injection H as <-; eexists; (split; [reflexivity|]); [now apply sb_rel_err|assumption].
    - injection H as <-. eexists; split; [reflexivity|].
      destruct R as (H1 & H2 & H3 & H4 & H5). repeat split; cbn; try assumption.
      apply Forall2_snoc; [assumption|]. right. now exists pk.
    - rewrite run_seq in H. setoid_rewrite run_seq. revert a b a' R H.
      induction IH as [|w r Hw _ IHr]; intros a b a' R H; cbn [W.run_list] in *.
      + injection H as <-. eexists; split; [reflexivity|assumption].
      + destruct (run (pp v) w a) as [a1|] eqn:E; [|discriminate].
        destruct (Hw a b a1 R E) as (b1 & E1 & R1). rewrite E1. now apply (IHr a1 b1 a').
    - discriminate.
  Qed.

  (* every pretty-dependent chunk is blanks and newlines only *)
  Definition blank (c : ascii) : bool := Ascii.eqb c " "%char || Ascii.eqb c "010"%char.
  Fixpoint all_blank (s : string) : bool :=
    match s with EmptyString => true | String c r => blank c && all_blank r end.
  Lemma pws_blank k : all_blank (pws_pretty k) = true /\ all_blank (pws_plain k) = true.
  Proof. destruct k; split; reflexivity. Qed.
End Modes.
