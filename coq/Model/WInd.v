(* Induction principle for the writer language and the basic frame lemmas of [run]:
   a run only ever extends the output, the argument list, the bind table and the error list. *)
From Coq Require Import List String Ascii ZArith Bool Lia.
From QRB Require Import Base.Bytes Model.W.
Import ListNotations.

Section WInd.
  Variable V : Type.
  Variable P : W V -> Prop.
  Hypothesis HKw : forall s, P (WKw s).
  Hypothesis HRaw : forall s, P (WRaw s).
  Hypothesis HLit : forall s, P (WLit s).
  Hypothesis HNum : forall s, P (WNum s).
  Hypothesis HArg : forall v, P (WArg v).
  Hypothesis HBind : forall n, P (WBind n).
  Hypothesis HIdent : forall s, P (WIdent s).
  Hypothesis HType : forall s, P (WType s).
  Hypothesis HErr : forall k, P (WErr k).
  Hypothesis HErrV : forall k, P (WErrV k).
  Hypothesis HPretty : forall k, P (WPretty k).
  Hypothesis HSeq : forall l, Forall P l -> P (WSeq l).
  Hypothesis HPanic : P WPanic.

  Fixpoint W_ind' (w : W V) : P w :=
    match w with
    | WKw s => HKw s | WRaw s => HRaw s | WLit s => HLit s | WNum s => HNum s
    | WArg v => HArg v | WBind n => HBind n | WIdent s => HIdent s | WType s => HType s
    | WErr k => HErr k | WErrV k => HErrV k | WPretty k => HPretty k
    | WSeq l =>
        HSeq l ((fix go (l : list (W V)) : Forall P l :=
                   match l with
                   | [] => Forall_nil P
                   | x :: r => Forall_cons x (W_ind' x) (go r)
                   end) l)
    | WPanic => HPanic
    end.
End WInd.

Section Frame.
  Variable V : Type.
  Variables validI validT : string -> bool.
  Notation run := (run validI validT).
  Notation run_list := (run_list validI validT).

  Lemma run_seq o (l : list (W V)) s : run o (WSeq l) s = run_list o l s.
  Proof.
    cbn [W.run]. revert s. induction l as [|w r IH]; intro s; cbn [W.run_list]; [reflexivity|].
    destruct (run o w s); [apply IH|reflexivity].
  Qed.

  Lemma run_list_app o (a b : list (W V)) s :
    run_list o (a ++ b) s = match run_list o a s with Some s' => run_list o b s' | None => None end.
  Proof.
    revert s. induction a as [|w r IH]; intro s; cbn [W.run_list List.app]; [reflexivity|].
    destruct (run o w s); [apply IH|reflexivity].
  Qed.

  (* s' extends s *)
  Definition extends (s s' : sb V) : Prop :=
    (exists d, out s' = out s ++ d) /\ (exists d, args s' = args s ++ d) /\
    (exists d, named s' = named s ++ d) /\ (exists d, errs s' = errs s ++ d).

  Lemma extends_refl s : extends s s.
  Proof. repeat split; exists []; now rewrite app_nil_r. Qed.

  Lemma extends_trans a b c : extends a b -> extends b c -> extends a c.
  Proof.
    intros (H1 & H2 & H3 & H4) (K1 & K2 & K3 & K4).
    destruct H1 as [d1 H1], H2 as [d2 H2], H3 as [d3 H3], H4 as [d4 H4].
    destruct K1 as [e1 K1], K2 as [e2 K2], K3 as [e3 K3], K4 as [e4 K4].
    repeat split.
    - exists (d1 ++ e1). now rewrite K1, H1, app_assoc.
    - exists (d2 ++ e2). now rewrite K2, H2, app_assoc.
    - exists (d3 ++ e3). now rewrite K3, H3, app_assoc.
    - exists (d4 ++ e4). now rewrite K4, H4, app_assoc.
  Qed.

  Lemma extends_emit c s : extends s (emit c s).
  Proof. repeat split; cbn; try (exists []; now rewrite app_nil_r). now exists [c]. Qed.

  Lemma extends_add_err e s : extends s (add_err e s).
  Proof. repeat split; cbn; try (exists []; now rewrite app_nil_r). now exists [e]. Qed.

  Lemma run_extends o (w : W V) : forall s s', run o w s = Some s' -> extends s s'.
  Proof.
    induction w as [t|t|t|t|v|n|t|t|k|k|pk|l IH|] using W_ind'; intros s s' H.
    1-11: cbn [W.run] in H.
    1-4: injection H as <-; apply extends_emit.
    - injection H as <-. repeat split; cbn; try (exists []; now rewrite app_nil_r); eexists; reflexivity.
    - destruct (lookup n (named s)).
      + injection H as <-. apply extends_emit.
      + injection H as <-. repeat split; cbn; try (exists []; now rewrite app_nil_r); eexists; reflexivity.
    - destruct (validating o && negb (validI t)); injection H as <-;
        [apply extends_add_err|apply extends_emit].
    - destruct (validating o && negb (validT t)); injection H as <-;
        [apply extends_add_err|apply extends_emit].
    - injection H as <-; apply extends_add_err.
    - destruct (validating o); injection H as <-; [apply extends_add_err|apply extends_refl].
    - injection H as <-; apply extends_emit.
    - rewrite run_seq in H.
      revert s s' H. induction IH as [|w r Hw _ IHr]; intros s s' H; cbn [W.run_list] in H.
      + injection H as <-. apply extends_refl.
      + destruct (run o w s) as [s1|] eqn:E; [|discriminate].
        eapply extends_trans; [apply (Hw _ _ E)|apply (IHr _ _ H)].
    - discriminate.
  Qed.
End Frame.

Arguments extends {V}.
