(* C02 evaluation glue (extracted): reads an emitted text back with the lexer and the precedence reader
   of Pg/Expr.v and compares the tree with the composed one, modulo re-association inside a chain of one
   and the same operator out of + * AND OR.  Also classifies the places of a composed tree where the
   checker's local condition fails (the classes of the known findings).  No theorem depends on this file. *)
From Coq Require Import String List Ascii ZArith NArith Bool Arith.
From QRB Require Import Base.Bytes Model.W Model.Values Model.Compile Pg.Lexer Pg.Expr Model.XExp.
Import ListNotations.
Local Open Scope string_scope.
Local Open Scope list_scope.

Section Eval.
  Variables validI validT : string -> bool.

  (* the text the model writes for a value, without validation or pretty printing; positional
     placeholders as written *)
  Definition text_of (e : exp nat) : option string :=
    match run validI validT (Build_opts false false) (compile e) sb0 with
    | Some s => Some (bytes_of (out s))
    | None => None
    end.

  Definition read_text (s : string) : option rexpr :=
    match pg_lex true s with
    | Some ts => pg_parse_expr ts
    | None => None
    end.

  (* the composed tree in the reader's vocabulary: an operand is what the reader makes of its own text *)
  Definition atom_r (a : exp nat) : option rexpr :=
    match text_of a with
    | Some s => match pg_lex true s with
                | Some ts => match pg_parse_expr ts with Some p => Some p | None => Some (PAtom ts) end
                | None => None
                end
    | None => None
    end.
  Definition opt_map2 {A B C} (f : A -> B -> C) (a : option A) (b : option B) : option C :=
    match a, b with Some x, Some y => Some (f x y) | _, _ => None end.

  Fixpoint to_r (p : pexpr (xatom nat) string) : option rexpr :=
    match p with
    | PAtom (AExp a) => atom_r a
    | PAtom (AEsc c) => Some (PAtom [TStr (utf8_encode c)])
    | PPre op (PAtom (AExp a)) =>
        if neglit a then atom_r a        (* the literal is written with its sign: read the whole of it *)
        else option_map (PPre op) (atom_r a)
    | PPre op e => option_map (PPre op) (to_r e)
    | PPost op e => option_map (PPost op) (to_r e)
    | PBin op l r => opt_map2 (PBin op) (to_r l) (to_r r)
    | PCast e ty => match to_r e, pg_lex true ty with Some e', Some t => Some (PCast e' t) | _, _ => None end
    | PEsc e (AEsc c) => option_map (fun e' => PEsc e' [TStr (utf8_encode c)]) (to_r e)
    | PEsc e (AExp _) => None
    | PCall _ _ | PList _ => None
    end.

  (* ---------------------------------------------------------- where the checker's local condition fails *)
  Fixpoint strip (e : xe nat) : xe nat := match e with XBase e' => strip e' | _ => e end.
  Definition is_base (e : xe nat) : bool := match e with XBase _ => true | _ => false end.
  Definition lclass (op : string) : string :=
    let k := fst (binop_level op) in
    if Nat.eqb k L_OR then "or" else if Nat.eqb k L_AND then "and" else if Nat.eqb k L_NOT then "not"
    else if Nat.eqb k L_IS then "is" else if Nat.eqb k L_CMP then "cmp" else if Nat.eqb k L_LIKE then "like"
    else if Nat.eqb k L_OP then "other" else if Nat.eqb k L_ADD then "add" else if Nat.eqb k L_MUL then "mul"
    else if Nat.eqb k L_POW then "pow" else if Nat.eqb k L_CAST then "cast" else "other".
  Definition pclass (e : xe nat) : string :=
    match e with
    | XAtom _ => "atom" | XNegLit _ => "neglit" | XBase _ => "base"
    | XOp _ op _ => if str_in op sym_ops then "op-" ++ lclass op else "rawop"
    | XCast _ _ => "cast" | XNot _ => "not" | XNeg _ => "neg" | XIsNull _ _ => "isnull"
    | XJunc _ o => if o then "or" else "and"
    | XMatch _ _ _ _ => "like" | XIn _ _ _ => "in"
    end.
  Definition same_op (p c : xe nat) : bool :=
    match p, strip c with
    | XOp _ a _, XOp _ b _ => String.eqb a b
    | XJunc _ a, XJunc _ b => Bool.eqb a b
    | _, _ => false
    end.
  Definition site (p : xe nat) (side : string) (c : xe nat) : string :=
    pclass p ++ "/" ++ side ++ "/" ++ (if is_base c then "wrapped-" else "") ++ pclass (strip c)
      ++ (if same_op p c then "-sameop" else "").

  (* the level the checker assigns to a tree when it accepts it (depends on the top node only) *)
  Fixpoint toplevel (e : xe nat) : option nat :=
    match e with
    | XAtom a => if atomic a then Some L_MAX else None
    | XNegLit _ => Some L_UMINUS
    | XBase e' => toplevel e'
    | XOp _ op _ => if str_in op sym_ops then Some (fst (binop_level op)) else None
    | XCast _ _ => Some L_CAST
    | XNot _ => Some L_NOT
    | XNeg _ => Some L_UMINUS
    | XIsNull _ _ => Some L_IS
    | XJunc [] _ => None
    | XJunc [x] _ => toplevel x
    | XJunc _ o => Some (if o then L_OR else L_AND)
    | XMatch _ _ _ _ | XIn _ _ _ => Some L_LIKE
    end.

  (* need: 0 = child level must reach ko, 1 = must exceed ko *)
  Definition local (p : xe nat) (side : string) (c : xe nat) (paren : bool) (ko : nat) (strict : bool) : list string :=
    match toplevel c with
    | Some k => let k' := lvl paren k in
                (* AND inside AND / OR inside OR without parentheses is one chain: tolerated *)
                if match p, strip c with XJunc _ a, XJunc (_ :: _ :: _) b => Bool.eqb a b | _, _ => false end then [] else
                if (if strict then Nat.ltb ko k' else Nat.leb ko k') then [] else [site p side c]
    | None => []
    end.

  Fixpoint sites (e : xe nat) : list string :=
    match e with
    | XAtom a => if atomic a then [] else ["atom/-/not-an-operand"]
    | XNegLit _ => []
    | XBase e' => sites e'
    | XOp l op r =>
        (if str_in op sym_ops then
           match binop_level op with
           | (ko, ALeft) => local e "left" l (lparen nat (op_prec op) l) ko false
                              ++ local e "right" r (rparen nat (op_prec op) op r) ko true
           | (ko, _) => local e "left" l (lparen nat (op_prec op) l) ko true
                          ++ local e "right" r (rparen nat (op_prec op) op r) ko true
           end
         else [("rawop/-/" ++ op)%string])
          ++ sites l ++ sites r
    | XCast e' _ => local e "operand" e' (lparen nat 6 e') L_CAST false ++ sites e'
    | XNot e' => local e "operand" e' (lparen nat (-4) e') L_NOT false ++ sites e'
    | XNeg e' => local e "operand" e' (lparen nat 4 e') L_UMINUS false ++ sites e'
    | XIsNull e' _ => local e "operand" e' (lparen nat (-3) e') L_IS false ++ sites e'
    | XJunc l o =>
        let ko := if o then L_OR else L_AND in
        match l with
        | [] => ["junction/-/empty"]
        | [x] => sites x
        | x :: r =>
            local e "first" x (x_is_junction nat x) ko false ++ sites x ++
            (fix go (r : list (xe nat)) : list string :=
               match r with
               | [] => []
               | y :: r' => local e "rest" y (x_is_junction nat y) ko true ++ sites y ++ go r'
               end) r
        end
    | XMatch l r op _ =>
        (if like_family op then local e "left" l false L_LIKE true ++ local e "right" r false L_LIKE true
         else [("like/-/" ++ op)%string]) ++ sites l ++ sites r
    | XIn l op _ =>
        (if str_in op in_ops then local e "left" l false L_LIKE true else [("in/-/" ++ op)%string]) ++ sites l
    end.

  (* ---------------------------------------------------------- verdict *)
  Inductive verdict :=
  | VOk (covered : bool) (s : list string)
  | VMismatch (covered : bool) (composed parsed : string) (s : list string)
  | VReject (covered : bool) (composed : string) (s : list string)     (* the text is not an expression *)
  | VSkip (why : string).

  Definition c02_eval (e : exp nat) (sql : string) : verdict :=
    let x := xe_of e in
    let cov := match chk x with Some _ => true | None => false end in
    match to_r (abstract x) with
    | None => VSkip "operand"
    | Some composed =>
        match read_text sql with
        | None => VReject cov (show composed) (sites x)
        | Some parsed =>
            if String.eqb (show (norm composed)) (show (norm parsed)) then VOk cov (sites x)
            else VMismatch cov (show composed) (show parsed) (sites x)
        end
    end.

  (* the same question asked of the model's own text *)
  Definition c02_model (e : exp nat) : verdict :=
    match text_of e with Some s => c02_eval e s | None => VSkip "panic" end.
End Eval.
