(* Entry points of the extracted model used by the correspondence check (ocaml/driver.ml).
   Glue: decodes a request, runs the model, prints the observables in canonical form. *)
From Coq Require Import List String Ascii ZArith NArith Bool.
From QRB Require Import Base.Bytes Model.W Model.Values Model.Compile Model.Sexp Model.Decode.
From QRB Require Import Meta.Regex Gen.Regex Model.WArgs Model.Wfe Pg.Lexer Model.JsonMap.
From QRB Require Import Pg.Expr Pg.Stmt Model.XExp Model.C02Eval Model.C01Eval Model.Api Model.ApiEval.
Import ListNotations.
Local Open Scope string_scope.

Definition valid_ident (s : string) : bool := re_match minterm_table ident_re s.
Definition valid_type (s : string) : bool := re_match minterm_table type_re s.

Definition err_text (e : ekind * string) : string :=
  match fst e with
  | EkIdent => "identifier: invalid: " ++ snd e
  | EkType => "type: invalid: " ++ snd e
  | EkNoCond => "case: no conditions given"
  | EkLateralOnly => "from item: cannot specify both LATERAL and ONLY"
  | EkValuesQuery => "insert: cannot set both values and query"
  | EkConflict => "insert: cannot set both conflict constraint name and targets"
  | EkOrdCols => "func: WITH ORDINALITY is not supported with column definitions, use ROWS FROM instead"
  end.

Definition nl : string := String "010"%char "".

Fixpoint join_with (sep : string) (l : list string) : string :=
  match l with
  | [] => ""
  | [x] => x
  | x :: r => x ++ sep ++ join_with sep r
  end.

Definition show_arg (a : option nat) : string :=
  match a with Some i => "a" ++ nat_dec i | None => "_" end.

Definition chunk_tag (c : chunk) : string :=
  match c with
  | CKw _ => "K" | CRaw _ => "R" | CLit _ => "L" | CNum _ => "N" | CParam _ => "P"
  | CIdent _ => "I" | CType _ => "Y" | CWs _ => "S"
  end.

(* "OK <sql hex> <args> <err hex>" / "PANIC" / "MISSING" *)
Definition show_result (r : result nat) : string :=
  match r with
  | RPanic => "PANIC"
  | RMissing => "MISSING"
  | ROk sql a e =>
      "OK s" ++ hex (bytes_of sql) ++ " [" ++ join_with "," (map show_arg a) ++ "] s"
        ++ hex (join_with nl (map err_text e))
  end.

Definition show_token (t : token) : string :=
  match t with
  | TWord s _ => "W" ++ hex s | TRun s _ => "O" ++ hex s | TQIdent s => "Q" ++ hex s | TUIdent s => "U" ++ hex s
  | TStr s => "S" ++ hex s | TNum s => "N" ++ hex s | TParam s => "P" ++ hex s | TOp s => "O" ++ hex s
  | TSelf c => "C" ++ hex (String c "") | TCast => "::" | TDotDot => ".." | TColonEq => ":="
  | TBad c => "B" ++ hex (String c "")
  end.

Definition d_named (x : sexp) : option (list (string * nat)) :=
  d_list (fun y => match y with
                   | SList [k; v] => match d_str k, d_any v with
                                     | Some k', Some v' => Some (k', v') | _, _ => None end
                   | _ => None end) x.

(* C16 histories: (P k v) (PI c k v) (U k) (B bop...) (AI c sop...) *)
Definition d_ident (x : sexp) : option (Values.exp nat) :=
  match d_str x with Some v => Some (EIdent ENil v) | None => None end.

Definition d_bop (x : sexp) : option (bop nat) :=
  match x with
  | SList [SAtom "P"; k; v] => match d_str k, d_ident v with Some k', Some v' => Some (BProp k' v') | _, _ => None end
  | SList [SAtom "PI"; c; k; v] =>
      match d_bool c, d_str k, d_ident v with Some c', Some k', Some v' => Some (BPropIf c' k' v') | _, _, _ => None end
  | _ => None
  end.

Definition d_all {A} (f : sexp -> option A) (l : list sexp) : option (list A) :=
  fold_right (fun y acc => match f y, acc with Some a, Some r => Some (a :: r) | _, _ => None end) (Some []) l.

Definition d_sop (x : sexp) : option (sop nat) :=
  match x with
  | SList [SAtom "P"; k; v] => match d_str k, d_ident v with Some k', Some v' => Some (SoProp k' v') | _, _ => None end
  | SList [SAtom "PI"; c; k; v] =>
      match d_bool c, d_str k, d_ident v with Some c', Some k', Some v' => Some (SoPropIf c' k' v') | _, _, _ => None end
  | SList [SAtom "U"; k] => option_map (@SoUnset nat) (d_str k)
  | SList (SAtom "B" :: l) => option_map (@SoBatch nat) (d_all d_bop l)
  | _ => None
  end.

Definition d_jop (x : sexp) : option (jop nat) :=
  match x with
  | SList (SAtom "AI" :: c :: l) =>
      match d_bool c, d_all d_sop l with Some c', Some l' => Some (JApplyIf c' l') | _, _ => None end
  | _ => option_map (@JS nat) (d_sop x)
  end.

Definition empty_parts : parts (Values.exp nat) :=
  mkParts false [] None "" [] [] [] false [] [] [] ENil ENil (mkLock "" [] "").

Definition sql_of (e : Values.exp nat) : string :=
  match to_sql valid_ident valid_type (Build_opts true false) [] (compile_top e) with
  | ROk sql _ _ => hex (bytes_of sql)
  | _ => "-"
  end.

Definition render (o : opts) (supplied : list (string * nat)) (e : exp nat) : result nat :=
  to_sql valid_ident valid_type o supplied (compile_top e).

(* (render V P named value) *)
Definition handle (x : sexp) : string :=
  match x with
  | SList [SAtom "render"; v; p; n; e] =>
      match d_bool v, d_bool p, d_named n, decode_exp e with
      | Some v', Some p', Some n', Some e' => show_result (render (Build_opts v' p') n' e')
      | _, _, _, None => "DECODEFAIL value"
      | _, _, _, _ => "DECODEFAIL request"
      end
  | SList [SAtom "chunks"; v; p; e] =>
      match d_bool v, d_bool p, decode_exp e with
      | Some v', Some p', Some e' =>
          match render (Build_opts v' p') [] e' with
          | ROk sql _ _ => "CH " ++ join_with " " (map (fun c => chunk_tag c ++ hex (chunk_bytes c)) sql)
          | _ => "CH-"
          end
      | _, _, _ => "DECODEFAIL"
      end
  | SList [SAtom "inline"; v; p; n; e] =>
      (* the stateless rendering: every value written in place as \001a<id>\002 *)
      match d_bool v, d_bool p, d_named n, decode_exp e with
      | Some v', Some p', Some n', Some e' =>
          match inline nat valid_ident valid_type (Build_opts v' p') (compile_top e') with
          | None => "PANIC"
          | Some il =>
              let mark (x : option nat) :=
                String "001"%char (match x with Some i => "a" ++ nat_dec i | None => "?" end)
                  ++ String "002"%char "" in
              "IL s" ++ hex (sconcat (map (fun i => match i with
                                                    | IC _ c => chunk_bytes c
                                                    | IVal _ x => mark (Some x)
                                                    | INamed _ nm => mark (lookup nm n')
                                                    end) il))
                ++ " " ++ join_with "," (map (fun i => match i with
                                                       | INamed _ nm => "s" ++ hex nm
                                                       | _ => "-" end) il)
          end
      | _, _, _, _ => "DECODEFAIL"
      end
  | SList (SAtom "json16" :: fl :: ops) =>
      match d_bool fl, d_all d_jop ops with
      | Some b, Some l =>
          let j := j_run (mkJ b []) l in
          let sel := ESelect [] [] (mkParts false [] (select_apply_json (Some (EJson b [])) l) "" [] [] [] false [] [] []
                                      ENil ENil (mkLock "" [] "")) in
          "J16 s" ++ sql_of (to_exp j) ++ " s" ++ sql_of sel ++ " " ++ (if j_isb j then "T" else "F") ++ ":"
            ++ join_with ";" (map (fun kv => hex (fst kv) ++ "=" ++
                                    match snd kv with EIdent _ v => hex v | _ => "?" end) (j_props j))
      | _, _ => "DECODEFAIL"
      end
  | SList [SAtom "lex"; scs; s] =>
      match d_bool scs, d_str s with
      | Some b, Some s' =>
          match pg_lex b s' with
          | Some ts => "TOK " ++ join_with " " (map show_token ts)
          | None => "LEXERR"
          end
      | _, _ => "DECODEFAIL"
      end
  | SList [SAtom "c02"; e; s] =>
      match decode_exp e, d_str s with
      | Some e', Some s' =>
          let tf (b : bool) := if b then "T" else "F" in
          match c02_eval valid_ident valid_type e' s' with
          | VOk cov st => "C02 ok " ++ tf cov ++ " " ++ join_with "," st
          | VMismatch cov c p st => "C02 mismatch " ++ tf cov ++ " s" ++ hex c ++ " s" ++ hex p ++ " " ++ join_with "," st
          | VReject cov c st => "C02 reject " ++ tf cov ++ " s" ++ hex c ++ " s " ++ join_with "," st
          | VSkip why => "C02 skip " ++ why
          end
      | _, _ => "DECODEFAIL"
      end
  | SList [SAtom "c01"; e; s] =>
      (* s = "-": use the model's own text *)
      match decode_exp e, d_str s with
      | Some e', Some s' =>
          let v := if String.eqb s' "-" then c01_model valid_ident valid_type e' else c01_eval valid_ident valid_type e' s' in
          let sv (v : sverdict) :=
            match v with
            | SOk => "ok"
            | SMismatch c p cl => "mismatch s" ++ hex c ++ " s" ++ hex p ++ " " ++ join_with "," cl
            | SReject c cl => "reject s" ++ hex c ++ " s " ++ join_with "," cl
            | SSkip why => "skip " ++ why
            end in
          (* the top-level verdict, then one per nested statement (model text), separated by " | " *)
          "C01 " ++ join_with " | " (sv v :: map sv (c01_nested valid_ident valid_type e'))
      | _, _ => "DECODEFAIL"
      end
  | SList [SAtom "readstmt"; s] =>
      match d_str s with
      | Some s' => match pg_lex true s' with
                   | Some ts => match pg_read_stmt ts with
                                | Some c => "RS s" ++ hex (show_cn c)
                                | None => "RS reject"
                                end
                   | None => "RS lexerr"
                   end
      | None => "DECODEFAIL"
      end
  | SList [SAtom "api"; rt; m; recv; SList args; res] =>
      match d_str rt, d_str m with
      | Some rt', Some m' =>
          match api_check rt' m' recv args res with
          | ApiOk => "API ok"
          | ApiDiff a b => "API diff s" ++ hex a ++ " s" ++ hex b
          | ApiNone => "API none"
          | ApiDecodeFail w => "API decodefail " ++ w
          end
      | _, _ => "DECODEFAIL"
      end
  | SList [SAtom "apihyp"; rt; m; recv; SList args] =>
      match d_str rt, d_str m with
      | Some rt', Some m' =>
          match api_hyp rt' m' recv args with Some true => "T" | Some false => "F" | None => "DECODEFAIL" end
      | _, _ => "DECODEFAIL"
      end
  | SList [SAtom "apirender"; rt; m; recv; SList args] =>
      match d_str rt, d_str m with
      | Some rt', Some m' =>
          match api_result rt' m' recv args with
          | Some e' => show_result (render (Build_opts true false) [] e')
          | None => "NONE"
          end
      | _, _ => "DECODEFAIL"
      end
  | SList [SAtom "wfe"; e] =>
      match decode_exp e with Some e' => if wfe e' then "T" else "F" | None => "DECODEFAIL" end
  | SList [SAtom "validident"; s] =>
      match d_str s with Some s' => if valid_ident s' then "T" else "F" | None => "DECODEFAIL" end
  | SList [SAtom "validtype"; s] =>
      match d_str s with Some s' => if valid_type s' then "T" else "F" | None => "DECODEFAIL" end
  | _ => "BADREQUEST"
  end.
