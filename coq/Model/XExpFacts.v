(* C02: the rendering of an operator expression consists of exactly the tokens [xtoks] lists
   ([render_tokens]); whenever the checker accepts, those tokens derive the composed tree in the strict
   sub-grammar of PostgreSQL's precedence table ([chk_sound]). *)
From Coq Require Import String List Ascii ZArith Bool Arith Lia.
From QRB Require Import Base.Bytes Model.W Model.WInd Model.Values Model.Compile Pg.Lexer Pg.Expr Model.XExp.
Import ListNotations.
Local Open Scope string_scope.
Local Open Scope list_scope.

Section Facts.
  Variable V : Type.
  Notation exp := (exp V).
  Notation W := (W V).
  Notation xe := (xe V).
  Notation xtok := (xtok (xatom V) string).
  Notation pexpr := (pexpr (xatom V) string).

  (* ---------------------------------------------------------- induction over xe (nested list) *)
  Section Ind.
    Variable P : xe -> Prop.
    Hypothesis HAtom : forall a, P (XAtom a).
    Hypothesis HNegLit : forall a, P (XNegLit a).
    Hypothesis HBase : forall e, P e -> P (XBase e).
    Hypothesis HOp : forall l op r, P l -> P r -> P (XOp l op r).
    Hypothesis HCast : forall e ty, P e -> P (XCast e ty).
    Hypothesis HNot : forall e, P e -> P (XNot e).
    Hypothesis HNeg : forall e, P e -> P (XNeg e).
    Hypothesis HIsNull : forall e n, P e -> P (XIsNull e n).
    Hypothesis HJunc : forall l o, Forall P l -> P (XJunc l o).
    Hypothesis HMatch : forall l r op esc, P l -> P r -> P (XMatch l r op esc).
    Hypothesis HIn : forall l op r, P l -> P (XIn l op r).
    Fixpoint xe_ind' (e : xe) : P e :=
      match e with
      | XAtom a => HAtom a
      | XNegLit a => HNegLit a
      | XBase e' => HBase e' (xe_ind' e')
      | XOp l op r => HOp l op r (xe_ind' l) (xe_ind' r)
      | XCast e' ty => HCast e' ty (xe_ind' e')
      | XNot e' => HNot e' (xe_ind' e')
      | XNeg e' => HNeg e' (xe_ind' e')
      | XIsNull e' n => HIsNull e' n (xe_ind' e')
      | XJunc l o => HJunc l o ((fix go (l : list xe) : Forall P l :=
                                   match l with
                                   | [] => Forall_nil P
                                   | x :: r => Forall_cons x (xe_ind' x) (go r)
                                   end) l)
      | XMatch l r op esc => HMatch l r op esc (xe_ind' l) (xe_ind' r)
      | XIn l op r => HIn l op r (xe_ind' l)
      end.
  End Ind.

  (* ---------------------------------------------------------- well-formed fragment members *)
  Fixpoint wfx (e : xe) : bool :=
    match e with
    | XAtom a => atomic a
    | XNegLit a => neglit a
    | XBase e' | XCast e' _ | XNot e' | XNeg e' | XIsNull e' _ => wfx e'
    | XOp l _ r | XMatch l r _ _ => wfx l && wfx r
    | XJunc l _ => (fix go (l : list xe) := match l with [] => true | x :: r => wfx x && go r end) l
    | XIn l _ _ => wfx l
    end.
  Lemma wfx_junc l o : wfx (XJunc l o) = forallb wfx l.
  Proof. cbn [wfx]. induction l as [|x r IH]; cbn [forallb]; [reflexivity|now rewrite IH]. Qed.

  (* ---------------------------------------------------------- flattening a writer tree keeps its meaning *)
  Lemma wflat_seq (l : list W) : wflat (WSeq l) = flat_map wflat l.
  Proof. cbn [wflat]. induction l as [|x r IH]; cbn [flat_map]; [reflexivity|now rewrite IH]. Qed.

  Section Run.
    Variables validI validT : string -> bool.
    Notation run := (run validI validT).
    Notation run_list := (run_list validI validT).
    Theorem run_wflat o (w : W) : forall s, run o w s = run_list o (wflat w) s.
    Proof.
      induction w as [t|t|t|t|v|n|t|t|k|k|pk|l IH|] using W_ind'; intro s.
      1-11, 13: cbn [wflat W.run_list]; destruct (run o _ s); reflexivity.
      rewrite run_seq, wflat_seq. revert s.
      induction IH as [|w r Hw _ IHr]; intro s; cbn [W.run_list flat_map]; [reflexivity|].
      rewrite run_list_app, <- Hw. destruct (run o w s); [apply IHr|reflexivity].
    Qed.
  End Run.

  (* ---------------------------------------------------------- equations of compile on the fragment *)
  Notation compile := (@compile V).
  Lemma compile_EBase e : compile (EBase e) = compile e. Proof. reflexivity. Qed.
  Lemma compile_EType t : compile (EType t) = WType t. Proof. reflexivity. Qed.
  Lemma compile_EOp l op r u :
    compile (EOp l op r u) =
    WSeq [paren_if V (match prec_of l with Some p => Z.ltb p (op_prec op) | None => false end) (compile l);
          when V (negb u) [WKw " "]; WRaw op; when V (negb u) [WKw " "];
          paren_if V (match prec_of r with
                      | Some p => Z.ltb p (op_prec op) ||
                                  match r with
                                  | EOp _ op' _ _ => negb (String.eqb op' op) && Z.eqb p (op_prec op)
                                  | _ => false
                                  end
                      | None => false
                      end) (compile r)].
  Proof. reflexivity. Qed.
  Lemma compile_EUnary p e s prec :
    compile (EUnary p e s prec) =
    WSeq [when V (nonempty p) [WKw p; WKw " "];
          paren_if V (match prec_of e with Some q => Z.ltb q prec | None => false end) (compile e);
          when V (nonempty s) [WKw " "; WKw s]].
  Proof. reflexivity. Qed.
  Lemma compile_EJunction l op : compile (EJunction l op) = c_junction V compile l op.
  Proof. reflexivity. Qed.
  Lemma compile_EIn l op r : compile (EIn l op r) = WSeq [compile l; WKw " "; WKw op; WKw " "; compile r].
  Proof. reflexivity. Qed.
  Lemma compile_EMatch l r op esc :
    compile (EMatch l r op esc) =
    WSeq [compile l; WKw " "; WKw op; WKw " "; compile r;
          match esc with Some c => WSeq [WKw " ESCAPE "; WLit (utf8_encode c)] | None => WSeq [] end].
  Proof. reflexivity. Qed.

  Lemma wflat_paren b (w : W) :
    wflat (paren_if V b w) = if b then WKw "(" :: wflat w ++ [WKw ")"] else wflat w.
  Proof. destruct b; cbn [paren_if]; [|reflexivity]. rewrite wflat_seq. cbn [flat_map wflat]. now rewrite app_nil_r. Qed.
  Lemma leaves_par b (t : list xtok) :
    flat_map leaves (par V b t) = if b then WKw "(" :: flat_map leaves t ++ [WKw ")"] else flat_map leaves t.
  Proof. destruct b; cbn [par]; [|reflexivity]. cbn [flat_map leaves]. rewrite flat_map_app. cbn [flat_map leaves].
         now rewrite app_nil_r. Qed.

  (* a well-formed member's embedding shows the parent exactly the Precedencer facts [xprec] records *)
  Lemma atomic_noprec (a : exp) : atomic a = true -> prec_of a = None /\ is_junction a = false /\
                                              (forall l op r u, a <> EOp l op r u).
  Proof. destruct a; cbn; intro H; try discriminate; repeat split; try reflexivity; intros; discriminate. Qed.
  Lemma neglit_noprec (a : exp) : neglit a = true -> prec_of a = None /\ is_junction a = false /\
                                              (forall l op r u, a <> EOp l op r u).
  Proof. destruct a; cbn; intro H; try discriminate; repeat split; try reflexivity; intros; discriminate. Qed.

  Lemma embed_lparen cp (e : xe) :
    wfx e = true ->
    match prec_of (embed e) with Some p => Z.ltb p cp | None => false end = lparen V cp e.
  Proof.
    destruct e; cbn [wfx embed]; intro H; unfold lparen; cbn [xprec prec_of]; try reflexivity.
    - now destruct (atomic_noprec _ H) as (-> & _).
    - now destruct (neglit_noprec _ H) as (-> & _).
    - now destruct isor.
  Qed.
  Lemma embed_rparen cp op (e : xe) :
    wfx e = true ->
    match prec_of (embed e) with
    | Some p => Z.ltb p cp || match embed e with
                              | EOp _ op' _ _ => negb (String.eqb op' op) && Z.eqb p cp
                              | _ => false
                              end
    | None => false
    end = rparen V cp op e.
  Proof.
    destruct e; cbn [wfx embed]; intro H; unfold rparen; cbn [xprec xopname prec_of]; try reflexivity.
    - now destruct (atomic_noprec _ H) as (-> & _).
    - now destruct (neglit_noprec _ H) as (-> & _).
    - now destruct isor.
  Qed.
  Lemma embed_is_junction (e : xe) : wfx e = true -> is_junction (embed e) = x_is_junction V e.
  Proof.
    destruct e; cbn [wfx embed is_junction x_is_junction]; intro H; try reflexivity.
    - now destruct (atomic_noprec _ H) as (_ & -> & _).
    - now destruct (neglit_noprec _ H) as (_ & -> & _).
  Qed.

  Lemma xtoks_junc l o : xtoks (XJunc l o) = match l with [x] => xtoks x | _ => junc_toks V o true l end.
  Proof. reflexivity. Qed.

  Definition gpar (z : exp) : W := paren_if V (is_junction z) (compile z).
  Definition item (x : xe) : list W := flat_map leaves (par V (x_is_junction V x) (xtoks x)).
  Definition IHP (e : xe) : Prop := wfx e = true -> wflat (compile (embed e)) = flat_map leaves (xtoks e).

  Lemma item_eq x : IHP x -> wfx x = true -> wflat (gpar (embed x)) = item x.
  Proof. intros Hx H. unfold gpar, item. now rewrite wflat_paren, leaves_par, (Hx H), (embed_is_junction _ H). Qed.

  Lemma sep_flat (sepw a : W) (m : list W) :
    flat_map wflat (sep_by sepw (a :: m)) = wflat a ++ flat_map (fun z => wflat sepw ++ wflat z) m.
  Proof.
    revert a. induction m as [|b m IHm]; intro a; [reflexivity|].
    change (sep_by sepw (a :: b :: m)) with (a :: sepw :: sep_by sepw (b :: m)). cbn [flat_map].
    now rewrite IHm, <- app_assoc.
  Qed.

  Lemma junc_leaves o f (l : list xe) :
    flat_map leaves (junc_toks V o f l) =
    match l with
    | [] => []
    | x :: r => (if f then [] else [WKw " "; WKw (junc_op o); WKw " "]) ++ item x ++
                flat_map (fun y => [WKw " "; WKw (junc_op o); WKw " "] ++ item y) r
    end.
  Proof.
    revert f. induction l as [|x r IHr]; intro f; [reflexivity|].
    cbn [junc_toks]. fold (junc_toks V o). rewrite !flat_map_app, (IHr false). fold (item x).
    destruct f; cbn [flat_map leaves app]; destruct r; cbn [flat_map app]; rewrite ?app_nil_r; reflexivity.
  Qed.

  Lemma flat_items (S : list W) (m : list xe) :
    Forall IHP m -> forallb wfx m = true ->
    flat_map (fun z => S ++ wflat z) (map gpar (map (@embed V) m)) = flat_map (fun y => S ++ item y) m.
  Proof.
    intros IH H. induction IH as [|x r Hx _ IHr]; cbn [map flat_map forallb] in *; [reflexivity|].
    apply andb_true_iff in H. destruct H as [H1 H2]. now rewrite (item_eq _ Hx H1), (IHr H2).
  Qed.

  (* ---------------------------------------------------------- rendering = tokens *)
  Theorem render_tokens (e : xe) : wfx e = true -> wflat (compile (embed e)) = flat_map leaves (xtoks e).
  Proof.
    induction e as [a|a|e IH|l op r IHl IHr|e ty IH|e IH|e IH|e n IH|l o IH|l r op esc IHl IHr|l op r IHl] using xe_ind';
      intro H.
    - cbn [embed xtoks flat_map leaves]. now rewrite app_nil_r.
    - cbn [embed xtoks flat_map leaves]. now rewrite app_nil_r.
    - cbn [embed xtoks wfx] in *. rewrite compile_EBase. now apply IH.
    - cbn [wfx] in H. apply andb_true_iff in H. destruct H as [Hl Hr].
      cbn [embed xtoks]. rewrite compile_EOp, wflat_seq, (embed_lparen _ _ Hl), (embed_rparen _ _ _ Hr).
      cbn [flat_map negb when]. rewrite !wflat_seq, !wflat_paren, (IHl Hl), (IHr Hr). cbn [flat_map wflat].
      rewrite flat_map_app. cbn [flat_map leaves]. rewrite !leaves_par, !app_nil_r.
      now destruct (lparen _ _ l), (rparen _ _ _ r); cbn; rewrite <- ?app_assoc.
    - cbn [wfx] in H. cbn [embed xtoks]. rewrite compile_EOp, wflat_seq, (embed_lparen _ _ H).
      cbn [flat_map negb when prec_of]. rewrite !wflat_seq, !wflat_paren, (IH H), compile_EType. cbn [flat_map wflat paren_if].
      rewrite flat_map_app. cbn [flat_map leaves]. rewrite !leaves_par, !app_nil_r.
      now destruct (lparen _ _ e); cbn; rewrite <- ?app_assoc.
    - cbn [wfx] in H. cbn [embed xtoks]. rewrite compile_EUnary, wflat_seq, (embed_lparen _ _ H).
      cbn [flat_map nonempty String.eqb Ascii.eqb Bool.eqb negb when]. rewrite !wflat_seq, !wflat_paren, (IH H).
      cbn [flat_map wflat leaves]. rewrite !leaves_par, !app_nil_r.
      now destruct (lparen _ _ e); cbn; rewrite <- ?app_assoc.
    - cbn [wfx] in H. cbn [embed xtoks]. rewrite compile_EUnary, wflat_seq, (embed_lparen _ _ H).
      cbn [flat_map nonempty String.eqb Ascii.eqb Bool.eqb negb when]. rewrite !wflat_seq, !wflat_paren, (IH H).
      cbn [flat_map wflat leaves]. rewrite !leaves_par, !app_nil_r.
      now destruct (lparen _ _ e); cbn; rewrite <- ?app_assoc.
    - cbn [wfx] in H. cbn [embed xtoks]. rewrite compile_EUnary, wflat_seq, (embed_lparen _ _ H).
      assert (Hs : nonempty (isnull_suffix n) = true) by now destruct n.
      rewrite Hs. cbn [flat_map nonempty String.eqb negb when]. rewrite !wflat_seq, !wflat_paren, (IH H).
      cbn [flat_map wflat]. rewrite flat_map_app. cbn [flat_map leaves]. rewrite !leaves_par, !app_nil_r.
      now destruct (lparen _ _ e); cbn; rewrite <- ?app_assoc.
    - rewrite wfx_junc in H. cbn [embed]. rewrite compile_EJunction, xtoks_junc.
      destruct l as [|x [|y r]].
      + cbn [map c_junction sep_by]. rewrite wflat_seq. reflexivity.
      + cbn [map c_junction]. inversion IH as [|? ? Hx _]; subst. cbn [forallb] in H. rewrite andb_true_r in H.
        now apply Hx.
      + change (c_junction V compile (map (@embed V) (x :: y :: r)) (junc_op o))
          with (WSeq (sep_by (WSeq [WKw " "; WKw (junc_op o); WKw " "])
                        (map (gpar) (map (@embed V) (x :: y :: r))))).
        rewrite wflat_seq. cbn [map]. rewrite sep_flat, junc_leaves. cbn [app].
        inversion IH as [|? ? Hx Hr]; subst. cbn [forallb] in H. apply andb_true_iff in H. destruct H as [H1 H2].
        rewrite (item_eq _ Hx H1). f_equal. change (gpar (embed y) :: map gpar (map (@embed V) r)) with (map gpar (map (@embed V) (y :: r))).
        rewrite wflat_seq. cbn [flat_map wflat]. rewrite !app_nil_r.
        exact (flat_items [WKw " "; WKw (junc_op o); WKw " "] (y :: r) Hr H2).
    - cbn [wfx] in H. apply andb_true_iff in H. destruct H as [Hl Hr].
      cbn [embed xtoks]. rewrite compile_EMatch, wflat_seq. cbn [flat_map wflat]. rewrite (IHl Hl), (IHr Hr).
      rewrite flat_map_app. cbn [flat_map leaves]. rewrite flat_map_app.
      destruct esc as [c|]; rewrite wflat_seq; cbn [flat_map wflat leaves]; rewrite ?app_nil_r, <- ?app_assoc; reflexivity.
    - cbn [wfx] in H. cbn [embed xtoks]. rewrite compile_EIn, wflat_seq. cbn [flat_map wflat]. rewrite (IHl H).
      rewrite flat_map_app. cbn [flat_map leaves]. now rewrite !app_nil_r.
  Qed.

  (* ---------------------------------------------------------- the checker is sound *)
  Notation Derives := (@Derives (xatom V) string).

  Lemma Derives_par b p t k : Derives p t k -> Derives p (par V b t) (lvl b k).
  Proof. intro H. destruct b; cbn [par lvl]; [now apply DParen with (k := k)|assumption]. Qed.

  Lemma str_in_In (s : string) (l : list string) : str_in s l = true -> In s l.
  Proof. unfold str_in. intro H. apply existsb_exists in H. destruct H as (x & Hx & E). apply String.eqb_eq in E. now subst. Qed.

  Lemma like_level op : like_family op = true -> binop_level op = (L_LIKE, ANon).
  Proof.
    unfold like_family, binop_level. intro H. apply str_in_In in H. cbn [In] in H.
    destruct H as [<-|[<-|[<-|[<-|[<-|[<-|[]]]]]]]; reflexivity.
  Qed.
  Lemma in_level op : str_in op in_ops = true -> binop_level op = (L_LIKE, ANon).
  Proof. intro H. apply str_in_In in H. cbn [In in_ops] in H. destruct H as [<-|[<-|[]]]; reflexivity. Qed.
  Lemma junc_level (o : bool) : binop_level (junc_op o) = ((if o then L_OR else L_AND), ALeft) /\ upper (junc_op o) = junc_op o.
  Proof. destruct o; split; reflexivity. Qed.

  Definition chk_rest (ko : nat) :=
    fix go (r : list xe) : option nat :=
      match r with
      | [] => Some ko
      | y :: r' =>
          match chk y with
          | Some k' => if Nat.ltb ko (lvl (x_is_junction V y) k') then go r' else None
          | None => None
          end
      end.
  Lemma chk_junc l o :
    chk (XJunc l o) =
    let ko := if o then L_OR else L_AND in
    match l with
    | [] => None
    | [x] => chk x
    | x :: r => match chk x with
                | Some k => if Nat.leb ko (lvl (x_is_junction V x) k) then chk_rest ko r else None
                | None => None
                end
    end.
  Proof. reflexivity. Qed.

  Definition CHK (e : xe) : Prop := forall k, chk e = Some k -> Derives (abstract e) (xtoks e) k.

  Lemma junc_chain (o : bool) (r : list xe) :
    Forall CHK r ->
    forall acc tacc kacc k,
      Derives acc tacc kacc -> ((if o then L_OR else L_AND) <= kacc)%nat ->
      chk_rest (if o then L_OR else L_AND) r = Some k ->
      Derives (fold_left (fun a y => PBin (junc_op o) a (abstract y)) r acc)
        (tacc ++ junc_toks V o false r)
        (match r with [] => kacc | _ => if o then L_OR else L_AND end).
  Proof.
    set (ko := if o then L_OR else L_AND).
    induction 1 as [|y r Hy _ IHr]; intros acc tacc kacc k Hacc Hle Hc.
    - cbn [fold_left junc_toks]. now rewrite app_nil_r.
    - cbn [chk_rest] in Hc. destruct (chk y) as [ky|] eqn:Ey; [|discriminate].
      destruct (Nat.ltb ko (lvl (x_is_junction V y) ky)) eqn:El; [|discriminate].
      apply Nat.ltb_lt in El.
      cbn [fold_left junc_toks]. fold (junc_toks V o).
      destruct (junc_level o) as [Lv Up].
      assert (D : Derives (PBin (junc_op o) acc (abstract y))
                    (tacc ++ XInf false (junc_op o) :: par V (x_is_junction V y) (xtoks y)) ko).
      { rewrite <- Up at 1. eapply DBinLeft; [exact Lv|exact Hacc|apply Derives_par; apply Hy; exact Ey|exact Hle|exact El]. }
      pose proof (IHr _ _ _ _ D (Nat.le_refl _) Hc) as D'.
      rewrite <- app_assoc in D'. cbn [app] in D' |- *.
      destruct r; exact D'.
  Qed.

  Theorem chk_sound (e : xe) : CHK e.
  Proof.
    induction e as [a|a|e IH|l op r IHl IHr|e ty IH|e IH|e IH|e n IH|l o IH|l r op esc IHl IHr|l op r IHl] using xe_ind';
      intros k H.
    - cbn [chk] in H. destruct (atomic a); [|discriminate]. injection H as <-. apply DAtom.
    - cbn [chk] in H. destruct (neglit a); [|discriminate]. injection H as <-. apply DNegLit.
    - cbn [chk abstract xtoks] in *. now apply IH.
    - cbn [chk] in H. destruct (str_in op sym_ops); [|discriminate].
      destruct (chk l) as [kl|] eqn:El; [|discriminate]. destruct (chk r) as [kr|] eqn:Er; [|discriminate].
      cbv zeta in H. destruct (binop_level op) as [ko asc] eqn:Eb. cbn [abstract xtoks].
      destruct asc.
      + destruct (Nat.leb ko _) eqn:A; [|discriminate]. destruct (Nat.ltb ko _) eqn:B; [|discriminate].
        injection H as <-. apply Nat.leb_le in A. apply Nat.ltb_lt in B.
        eapply DBinLeft; [exact Eb|apply Derives_par, IHl, El|apply Derives_par, IHr, Er|exact A|exact B].
      + discriminate.
      + destruct (Nat.ltb ko (lvl (lparen _ _ l) kl)) eqn:A; [|discriminate].
        destruct (Nat.ltb ko (lvl (rparen _ _ _ r) kr)) eqn:B; [|discriminate].
        injection H as <-. apply Nat.ltb_lt in A. apply Nat.ltb_lt in B.
        eapply DBinNon; [exact Eb|apply Derives_par, IHl, El|apply Derives_par, IHr, Er|exact A|exact B].
    - cbn [chk] in H. destruct (chk e) as [k0|] eqn:E; [|discriminate].
      destruct (Nat.leb L_CAST _) eqn:A; [|discriminate]. injection H as <-. apply Nat.leb_le in A.
      cbn [abstract xtoks]. eapply DCast; [apply Derives_par, IH, E|exact A].
    - cbn [chk] in H. destruct (chk e) as [k0|] eqn:E; [|discriminate].
      destruct (Nat.leb L_NOT _) eqn:A; [|discriminate]. injection H as <-. apply Nat.leb_le in A.
      cbn [abstract xtoks]. eapply DNot; [apply Derives_par, IH, E|exact A].
    - cbn [chk] in H. destruct (chk e) as [k0|] eqn:E; [|discriminate].
      destruct (Nat.leb L_UMINUS _) eqn:A; [|discriminate]. injection H as <-. apply Nat.leb_le in A.
      cbn [abstract xtoks]. eapply DNeg; [apply Derives_par, IH, E|exact A].
    - cbn [chk] in H. destruct (chk e) as [k0|] eqn:E; [|discriminate].
      destruct (Nat.leb L_IS _) eqn:A; [|discriminate]. injection H as <-. apply Nat.leb_le in A.
      cbn [abstract xtoks]. eapply DPost; [destruct n; cbn; tauto|apply Derives_par, IH, E|exact A].
    - rewrite chk_junc in H. cbv zeta in H. rewrite xtoks_junc.
      destruct l as [|x [|y r]]; [discriminate| |].
      + inversion IH as [|? ? Hx _]; subst. cbn [abstract fold_left]. now apply Hx.
      + inversion IH as [|? ? Hx Hr]; subst.
        destruct (chk x) as [kx|] eqn:Ex; [|discriminate].
        destruct (Nat.leb _ (lvl (x_is_junction V x) kx)) eqn:A; [|discriminate]. apply Nat.leb_le in A.
        pose proof (junc_chain o (y :: r) Hr _ _ _ _ (Derives_par (x_is_junction V x) _ _ _ (Hx _ Ex)) A H) as D.
        cbn [abstract]. cbn [junc_toks]. fold (junc_toks V o). cbn [app].
        assert (k = if o then L_OR else L_AND) as ->.
        { clear - H. cbn [chk_rest] in H. destruct (chk y); [|discriminate]. destruct (Nat.ltb _ _); [|discriminate].
          revert H. generalize r. induction r0 as [|z r0 IHz]; cbn [chk_rest]; intro H; [congruence|].
          destruct (chk z); [|discriminate]. destruct (Nat.ltb _ _); [|discriminate]. now apply IHz. }
        exact D.
    - cbn [chk] in H. destruct (like_family op) eqn:Lf; [|discriminate].
      destruct (chk l) as [kl|] eqn:El; [|discriminate]. destruct (chk r) as [kr|] eqn:Er; [|discriminate].
      destruct (Nat.ltb L_LIKE kl) eqn:A; [|discriminate]. destruct (Nat.ltb L_LIKE kr) eqn:B; [|discriminate].
      injection H as <-. apply Nat.ltb_lt in A. apply Nat.ltb_lt in B.
      assert (D : Derives (PBin (upper op) (abstract l) (abstract r)) (xtoks l ++ XInf false op :: xtoks r) L_LIKE).
      { eapply DBinNon; [apply like_level, Lf|apply IHl, El|apply IHr, Er|exact A|exact B]. }
      cbn [abstract xtoks]. destruct esc as [c|].
      + change (xtoks l ++ XInf false op :: xtoks r ++ [XEsc (AEsc c)])
          with (xtoks l ++ (XInf false op :: xtoks r) ++ [XEsc (AEsc c)]).
        rewrite app_assoc. apply DEsc; assumption.
      + now rewrite app_nil_r.
    - cbn [chk] in H. destruct (str_in op in_ops) eqn:Io; [|discriminate].
      destruct (chk l) as [kl|] eqn:El; [|discriminate].
      destruct (Nat.ltb L_LIKE kl) eqn:A; [|discriminate]. injection H as <-. apply Nat.ltb_lt in A.
      cbn [abstract xtoks].
      eapply DBinNon; [apply in_level, Io|apply IHl, El|apply DAtom|exact A|unfold L_LIKE, L_MAX; lia].
  Qed.

  Lemma chk_rest_wfx ko (m : list xe) :
    Forall (fun z => forall k, chk z = Some k -> wfx z = true) m ->
    forall k, chk_rest ko m = Some k -> forallb wfx m = true.
  Proof.
    induction 1 as [|z m Hz _ IHm]; intros k H; [reflexivity|].
    cbn [chk_rest] in H. destruct (chk z) eqn:Ez; [|discriminate]. destruct (Nat.ltb _ _); [|discriminate].
    cbn [forallb]. rewrite (Hz _ eq_refl). cbn [andb]. eapply IHm; eassumption.
  Qed.

  Theorem chk_wfx (e : xe) : forall k, chk e = Some k -> wfx e = true.
  Proof.
    induction e as [a|a|e IH|l op r IHl IHr|e ty IH|e IH|e IH|e n IH|l o IH|l r op esc IHl IHr|l op r IHl] using xe_ind';
      intros k H.
    - cbn [chk wfx] in *. now destruct (atomic a).
    - cbn [chk wfx] in *. now destruct (neglit a).
    - cbn [chk wfx] in *. eauto.
    - cbn [chk wfx] in *. destruct (str_in op sym_ops); [|discriminate].
      destruct (chk l) eqn:El; [|discriminate]. destruct (chk r) eqn:Er; [|discriminate].
      now rewrite (IHl _ eq_refl), (IHr _ eq_refl).
    - cbn [chk wfx] in *. destruct (chk e) eqn:E; [|discriminate]. eauto.
    - cbn [chk wfx] in *. destruct (chk e) eqn:E; [|discriminate]. eauto.
    - cbn [chk wfx] in *. destruct (chk e) eqn:E; [|discriminate]. eauto.
    - cbn [chk wfx] in *. destruct (chk e) eqn:E; [|discriminate]. eauto.
    - rewrite chk_junc in H. cbv zeta in H. rewrite wfx_junc.
      destruct l as [|x [|y r]]; [discriminate| |].
      + inversion IH as [|? ? Hx _]; subst. cbn [forallb]. now rewrite (Hx _ H).
      + inversion IH as [|? ? Hx Hr]; subst.
        destruct (chk x) eqn:Ex; [|discriminate]. destruct (Nat.leb _ _); [|discriminate].
        cbn [forallb]. rewrite (Hx _ eq_refl). cbn [andb]. fold (forallb wfx (y :: r)).
        exact (chk_rest_wfx _ _ Hr _ H).
    - cbn [chk wfx] in *. destruct (like_family op); [|discriminate].
      destruct (chk l) eqn:El; [|discriminate]. destruct (chk r) eqn:Er; [|discriminate].
      now rewrite (IHl _ eq_refl), (IHr _ eq_refl).
    - cbn [chk wfx] in *. destruct (str_in op in_ops); [|discriminate].
      destruct (chk l) eqn:El; [|discriminate]. eauto.
  Qed.
End Facts.
