(* C01 evaluation glue (extracted): the canonical clause tree of a composed statement value, built from
   the builder records (not from the rendering), to be compared with what the statement reader of Pg/Stmt.v
   makes of an emitted text; and the classes of compositions with recorded deviations (D4, D5, D6, and the
   D7 sites in condition lists).  No theorem depends on this file. *)
From Coq Require Import String List Ascii ZArith NArith Bool Arith.
From QRB Require Import Base.Bytes Model.W Model.Values Model.Compile Pg.Lexer Pg.Expr Pg.Stmt Model.XExp Model.C02Eval.
Import ListNotations.
Local Open Scope string_scope.
Local Open Scope list_scope.

Fixpoint str_contains (p s : string) : bool :=
  String.prefix p s || match s with String _ r => str_contains p r | EmptyString => false end.

Section Eval.
  Variables validI validT : string -> bool.
  Notation exp := (exp nat).

  Definition toks (e : exp) : list token :=
    match text_of validI validT e with
    | Some s => match pg_lex true s with Some ts => merge_rows_from ts | None => [TBad "?"%char] end
    | None => [TBad "!"%char]
    end.
  Definition cexpr (e : exp) : cn := canon_expr (toks e).
  Definition ctext (e : exp) : cn := CS (toks_text (toks e)).
  Definition str_toks (s : string) : string :=
    match pg_lex true s with Some ts => toks_text ts | None => "?" ++ s end.

  (* c1 AND c2 AND ...: the conjunction of separately composed conditions *)
  Definition conj_of (l : list exp) : list cn :=
    match l with
    | [] => []
    | x :: r =>
        let pe (e : exp) : rexpr := parse_or_atom (toks e) in
        [CS (show (norm (fold_left (fun acc y => PBin "AND" acc (pe y)) r (pe x))))]
    end.

  Definition ctargets (l : list (exp * string)) : list cn :=
    map (fun x => CN "t" [cexpr (fst x); CS (str_toks (snd x))]) l.

  Definition nonil (e : exp) : bool := negb (is_nil e).

  (* a FROM item: ONLY / LATERAL flags, source text, alias, column aliases *)
  Definition citem (only lateral : bool) (src : exp) (alias : string) (cols : list string) : cn :=
    let '(srctext, alias', cols') :=
      match src with
      | EFunc self name a ord al defs =>
          (* the function's own alias / column definitions belong to the item *)
          (toks_text (toks (EFunc self name a ord "" [])),
           (if nonempty alias then (if nonempty al then "!two aliases" else alias) else al),
           (match cols, defs with
            | [], _ => map (fun d => (fst d ++ " " ++ snd d)%string) defs
            | _, [] => cols
            | _, _ => ["!two column lists"]
            end))
      | _ => (toks_text (toks src), alias, cols)
      end in
    CN "item" [CS (if only then "ONLY" else ""); CS (if lateral then "LATERAL" else ""); CS srctext; CS (str_toks alias');
               CN "cols" (match cols' with [] => [] | _ => [CS (str_toks (sjoin "," cols'))] end)].

  Definition cfrom (l : list (fromitem exp)) : list cn :=
    (* a join attaches to the group opened by the last non-join item *)
    let fix go (l : list (fromitem exp)) (cur : option (list cn)) (acc : list cn) : list cn :=
      match l with
      | [] => rev (match cur with Some g => CN "group" (rev g) :: acc | None => acc end)
      | i :: r =>
          match fi_from i with
          | EJoin jt lateral from alias on usingc =>
              let it := citem false lateral from alias [] in
              let q := if nonil on then CN "on" [cexpr on]
                       else match usingc with [] => CN "on" [] | _ => CN "using" (map (fun n => CS (str_toks n)) usingc) end in
              let wrapper := if fi_only i || fi_lateral i || nonempty (fi_alias i) then [CS "!join wrapped"] else [] in
              let j := CN "join" ([CS jt; it; q] ++ wrapper) in
              match cur with
              | Some g => go r (Some (j :: g)) acc
              | None => go r (Some [j; CS "!join without a left item"]) acc
              end
          | src =>
              let acc' := match cur with Some g => CN "group" (rev g) :: acc | None => acc end in
              go r (Some [citem (fi_only i) (fi_lateral i) src (fi_alias i) (fi_colaliases i)]) acc'
          end
      end in
    go l None [].

  (* a one-expression set is written as the expression; when that expression is itself a parenthesised list of two or
     more expressions (Exps / Args), PostgreSQL reads "(a, b)" at the top level of GROUP BY as the set of a and b, not
     as a row (manual, 7.2.4): the same grouping, so both are given the set form *)
  (* wrappers that write nothing of their own: ExpBase, a one-element AND / OR *)
  Fixpoint peel (x : exp) : exp :=
    match x with
    | EBase y => peel y
    | EJunction [y] _ => peel y
    | _ => x
    end.
  Definition celem (x : exp) : cn :=
    match peel x with
    | EExprs ((_ :: _ :: _) as l) => CN "set" (map cexpr l)
    | _ => cexpr x
    end.
  Definition cset (s : list exp) : cn :=
    match s with
    | [x] => celem x
    | _ => CN "set" (map cexpr s)
    end.
  Definition cgroup (g : grouping exp) : cn :=
    if negb (nonempty (ge_type g)) then
      match ge_sets g with
      | s :: _ => CN "ge" [CS ""; cset s]
      | [] => CS "!empty grouping element"
      end
    else
      match ge_sets g with
      | [s] => CN "ge" (CS (ge_type g) :: map celem s)        (* TYPE (a, b): the one set lists the elements *)
      | l => CN "ge" (CS (ge_type g) :: map cset l)
      end.

  Definition ctail (p : parts exp) : list cn :=
    [CN "ORDER BY" (map (fun o => CN "o" [cexpr (ob_exp o); CS (ob_order o); CS (ob_nulls o)]) (p_orderBys p));
     CN "LIMIT" (if nonil (p_limit p) then [cexpr (p_limit p)] else []);
     CN "OFFSET" (if nonil (p_offset p) then [cexpr (p_offset p)] else []);
     CN "FOR" (if nonempty (lk_strength (p_lock p))
               then [CN "lock" [CS (lk_strength (p_lock p)); CN "of" (map (fun n => CS (str_toks n)) (lk_of (p_lock p)));
                               CS (lk_wait (p_lock p))]]
               else [])].
  Definition has_tail (p : parts exp) : bool :=
    nonnil (p_orderBys p) || nonil (p_limit p) || nonil (p_offset p) || nonempty (lk_strength (p_lock p)).

  Definition ccore (p : parts exp) (branch_of_setop : bool) : cn :=
    CN "core"
      ([CN "distinct" [CS (if p_distinct p then "T" else "F")];
        CN "on" (if p_distinct p then map cexpr (p_distinctOn p) else []);
        CN "targets" ((match p_json p with
                       | Some j => [CN "t" [cexpr j; CS (str_toks (p_jsonAlias p))]]
                       | None => []
                       end) ++ ctargets (p_list p));
        CN "FROM" (cfrom (p_from p));
        CN "WHERE" (conj_of (p_where p));
        CN "GROUP BY" (match p_groupBys p with
                       | [] => []
                       | l => [CN "groupby" (CS (if p_gbDistinct p then "DISTINCT" else "") :: map cgroup l)]
                       end);
        CN "HAVING" (conj_of (p_having p))]
       ++ (if branch_of_setop && has_tail p then [CN "composed-but-not-emitted" (ctail p)] else [])).

  Definition cwith (f : exp -> cn) (l : list (withq exp)) : cn :=
    match l with
    | [] => CN "with" []
    | _ =>
        CN "with" (CS (if existsb (@wq_rec exp) l then "RECURSIVE" else "") ::
                   map (fun q =>
                          CN "cte" [CS (str_toks (wq_name q)); CN "cols" (map (fun c => CS (str_toks c)) (wq_cols q));
                                    CS (match wq_mat q with Some true => "MATERIALIZED" | Some false => "NOT MATERIALIZED" | None => "" end);
                                    f (wq_query q);
                                    match wq_search q with
                                    | Some s => CN "search" [CS (ws_type s ++ " FIRST BY " ++
                                                                 sjoin " , " (map (fun e => toks_text (toks e)) (ws_by s)));
                                                            CS (str_toks (ws_set s))]
                                    | None => CN "search" []
                                    end]) l)
    end.

  Definition creturning (l : list (exp * string)) : cn := CN "RETURNING" (ctargets l).
  Definition csetitems (l : list (string * exp)) : list cn :=
    map (fun x => CN "set" [CS (str_toks (fst x)); cexpr (snd x)]) l.
  Definition ctable (t : exp) (alias : string) : cn := CN "table" [CS (toks_text (toks t)); CS (str_toks alias)].

  Fixpoint canon_stmt (fuel : nat) (e : exp) : cn :=
    match fuel with
    | O => CS "!fuel"
    | S n =>
        match e with
        | ESelect w c p =>
            CN "select" ([cwith (canon_stmt n) w;
                          CN "branches" (map (fun b => ccore (cb_parts b) true) c ++ [ccore p false]);
                          CN "ops" (map (fun b => CS (cb_type b ++ (if cb_all b then " ALL" else ""))%string) c)]
                         ++ ctail p)
        | EInsert b =>
            CN "insert"
              [cwith (canon_stmt n) (i_with b);
               ctable (i_table b) (i_alias b);
               CN "cols" (match i_cols b with Some l => map (fun c => CS (str_toks c)) l | None => [CS "-"] end);
               (if nonil (i_query b) then
                  (match i_values b with
                   | Some _ => CN "query-and-values" []
                   | None => CN "query" [canon_stmt n (i_query b)]
                   end)
                else match i_values b with
                     | Some rows => CN "values" (map (fun r => CN "row" (map cexpr r)) rows)
                     | None => if i_default b then CN "default" [] else CN "nothing-to-insert" []
                     end);
               (if negb (nonempty (i_caction b)) then CN "conflict" []
                else CN "conflict"
                       [CN "targets" (map cexpr (i_ctargets b));
                        CN "WHERE" (conj_of (i_ctwhere b));
                        CN "constraint" (if nonempty (i_cconstraint b) then [CS (str_toks (i_cconstraint b))] else []);
                        (if String.eqb (i_caction b) "DO UPDATE"
                         then CN "do" [CS "UPDATE"; CN "set" (csetitems (i_cset b)); CN "WHERE" (conj_of (i_cwhere b))]
                         else CN "do" [CS "NOTHING"])]);
               creturning (i_returning b)]
        | EUpdate b =>
            CN "update" [cwith (canon_stmt n) (u_with b); ctable (u_table b) (u_alias b); CN "set" (csetitems (u_set b));
                         CN "FROM" (cfrom (u_from b)); CN "WHERE" (conj_of (u_where b)); creturning (u_returning b)]
        | EDelete b =>
            CN "delete" [cwith (canon_stmt n) (d_with b); ctable (d_table b) (d_alias b);
                         CN "USING" (cfrom (d_using b)); CN "WHERE" (conj_of (d_where b)); creturning (d_returning b)]
        | _ => CS "!not a statement"
        end
    end.

  (* the text of a statement as a statement (sub-select parentheses removed) *)
  Definition stmt_text (e : exp) : option string :=
    match run validI validT (Build_opts false false) (compile_top e) sb0 with
    | Some s => Some (bytes_of (out s))
    | None => None
    end.

  (* ------------------------------------------------------------ sub-expressions *)
  Definition parts_children (p : parts exp) : list exp :=
    p_distinctOn p ++ (match p_json p with Some j => [j] | None => [] end) ++ map fst (p_list p) ++
    map (@fi_from exp) (p_from p) ++ p_where p ++ concat (flat_map (@ge_sets exp) (p_groupBys p)) ++ p_having p ++
    map (@ob_exp exp) (p_orderBys p) ++ [p_limit p; p_offset p].
  Definition with_children (w : list (withq exp)) : list exp :=
    flat_map (fun q => wq_query q :: match wq_search q with Some s => ws_by s | None => [] end) w.
  Definition children (e : exp) : list exp :=
    match e with
    | EBase e' | EExists e' | ESubq _ e' | EUnary _ e' _ _ | EExtract _ e' => [e']
    | EExprs l | EArray l | EJunction l _ | EFuncExp _ _ l | EFunc _ _ l _ _ _ | ERowsFrom l _ => l
    | EOp l _ r _ | EIn l _ r | EMatch l r _ _ => [l; r]
    | ECase _ ex conds els => ex :: els :: flat_map (fun c => [fst c; snd c]) conds
    | EAgg _ _ _ a obs filter _ => a ++ map (@ob_exp exp) obs ++ filter
    | EJson _ props => map snd props
    | ESelect w c p => with_children w ++ flat_map (fun b => parts_children (cb_parts b)) c ++ parts_children p
    | EInsert b => with_children (i_with b) ++ [i_table b; i_query b] ++
                   (match i_values b with Some rows => concat rows | None => [] end) ++
                   i_ctargets b ++ i_ctwhere b ++ map snd (i_cset b) ++ i_cwhere b ++ map fst (i_returning b)
    | EUpdate b => with_children (u_with b) ++ [u_table b] ++ map snd (u_set b) ++ map (@fi_from exp) (u_from b) ++
                   u_where b ++ map fst (u_returning b)
    | EDelete b => with_children (d_with b) ++ [d_table b] ++ map (@fi_from exp) (d_using b) ++ d_where b ++
                   map fst (d_returning b)
    | EJoin _ _ from _ on _ => [from; on]
    | _ => []
    end.
  Fixpoint all_sub (fuel : nat) (e : exp) : list exp :=
    match fuel with
    | O => [e]
    | S n => e :: flat_map (all_sub n) (children e)
    end.

  Definition is_stmt (e : exp) : bool :=
    match e with ESelect _ _ _ | EInsert _ | EUpdate _ | EDelete _ => true | _ => false end.

  Definition refined_func (e : exp) : bool :=
    match e with EFunc _ _ _ ord al defs => ord || nonempty al || nonnil defs | _ => false end.
  (* positions where a refined FuncBuilder is a FROM item *)
  Definition from_sources (l : list (fromitem exp)) : list exp :=
    flat_map (fun i => match fi_from i with EJoin _ _ from _ _ _ => [from] | src => [src] end) l.
  Definition allowed_refined (e : exp) : nat :=
    let cnt (l : list exp) := length (filter refined_func l) in
    match e with
    | ESelect _ c p => cnt (flat_map (fun b => from_sources (p_from (cb_parts b))) c ++ from_sources (p_from p))
    | EUpdate b => cnt (from_sources (u_from b))
    | EDelete b => cnt (from_sources (d_using b))
    | ERowsFrom l _ => cnt l
    | _ => 0
    end.

  (* compositions outside the property's quantifier (empty operand lists, nil arguments in operand position,
     a star where a relation is named) and a refined function in expression position, anywhere in the value *)
  Definition global_classes (e : exp) : list string :=
    let subs := all_sub 14 e in
    let has (f : exp -> bool) := existsb f subs in
    (if has (fun x => match x with EJunction [] _ => true | _ => false end) then ["Q-empty-junction"] else []) ++
    (if has (fun x => match x with EExprs [] => true | _ => false end) then ["Q-empty-operand-list"] else []) ++
    (* Op with caller-supplied operator text that is not an operator symbol (keywords, "." ...) *)
    (if has (fun x => match x with
                      | EOp _ op (EType _) true => negb (String.eqb op "::")
                      | EOp _ op _ _ => negb (str_in op sym_ops)
                      | _ => false
                      end) then ["Q-raw-operator-text"] else []) ++
    (if has (fun x => match x with
                      | EOp l _ r _ => is_nil l || is_nil r
                      | EUnary _ x' _ _ | EExists x' | ESubq _ x' | EBase x' => is_nil x'
                      | EJunction l _ | EExprs l | EArray l | EFuncExp _ _ l | EFunc _ _ l _ _ _ => existsb (@is_nil nat) l
                      | _ => false
                      end) then ["Q-nil-operand"] else []) ++
    (if has (fun x => match x with
                      | EInsert b => match i_table b with EIdent _ n => str_contains "*" n | _ => false end
                      | EUpdate b => match u_table b with EIdent _ n => str_contains "*" n | _ => false end
                      | EDelete b => match d_table b with EIdent _ n => str_contains "*" n | _ => false end
                      | EJoin _ _ (EIdent _ n) _ _ _ => str_contains "*" n
                      | ESelect _ c p0 =>
                          existsb (fun i => match fi_from i with EIdent _ n => str_contains "*" n | _ => false end)
                            (flat_map (fun b => p_from (cb_parts b)) c ++ p_from p0)
                      | _ => false
                      end) then ["Q-star-as-relation"] else []) ++
    (if Nat.ltb (fold_right (fun x acc => allowed_refined x + acc) 0 subs) (length (filter refined_func subs))
     then ["D6-refined-function-in-expression"] else []).

  (* ------------------------------------------------------------ compositions with recorded deviations *)
  Definition lateral_src_ok (src : exp) : bool :=
    match src with
    | ESelect _ _ _ | EFunc _ _ _ _ _ _ | EFuncExp _ _ _ | ERowsFrom _ _ | EInsert _ | EUpdate _ => true
    | _ => false
    end.
  Definition name_src (src : exp) : bool := match src with EIdent _ _ => true | _ => false end.

  Definition from_classes (l : list (fromitem exp)) : list string :=
    flat_map (fun i =>
      match fi_from i with
      | EJoin jt lateral from alias on usingc =>
          (if String.eqb jt "CROSS JOIN" && (nonil on || nonnil usingc) then ["D6-cross-join-with-qualifier"] else []) ++
          (if negb (String.eqb jt "CROSS JOIN") && negb (nonil on) && negb (nonnil usingc) then ["Q-join-without-qualifier"] else []) ++
          (if lateral && negb (lateral_src_ok from) then ["D6-lateral-before-relation"] else [])
      | src =>
          (match src with
           | EFunc _ _ _ _ al defs =>
               (if nonempty al && negb (nonempty (fi_alias i)) && nonnil (fi_colaliases i)
                then ["D6-function-alias-then-item-column-aliases"] else []) ++
               (if (nonempty al && nonempty (fi_alias i)) || (nonnil defs && nonnil (fi_colaliases i))
                then ["D6-alias-on-function-and-on-item"] else []) ++
               (if nonnil defs && negb (nonempty al) && nonempty (fi_alias i)
                then ["D6-function-column-definitions-then-item-alias"] else [])
           | _ => []
           end) ++
          (if fi_lateral i && negb (lateral_src_ok src) then ["D6-lateral-before-relation"] else []) ++
          (if fi_only i && negb (name_src src) then ["D6-only-before-non-relation"] else [])
      end) l.

  Definition real_site (s : string) : bool :=
    negb (String.prefix "atom/" s) && negb (String.prefix "junction/" s) && negb (String.prefix "rawop/" s).
  Definition cond_classes (l : list exp) : list string :=
    match l with
    | [] | [_] => []
    | _ => map (fun s => ("D7-" ++ s)%string) (filter real_site (sites (XJunc (map (@xe_of nat) l) false)))
    end.
  Definition expr_classes (e : exp) : list string :=
    if is_nil e then [] else map (fun s => ("D7-" ++ s)%string) (filter real_site (sites (xe_of e))).

  Definition group_classes (l : list (grouping exp)) : list string :=
    flat_map (fun g => if nonempty (ge_type g) then
                         match ge_sets g with
                         | [[_]] => ["D4-typed-grouping-one-element"]
                         | [[]] | [] => ["Q-typed-grouping-empty"]
                         | _ => []
                         end
                       else []) l.

  Definition parts_classes (p : parts exp) (branch : bool) : list string :=
    (if branch && has_tail p then ["D5-setop-branch-tail"] else []) ++
    from_classes (p_from p) ++ cond_classes (p_where p) ++ cond_classes (p_having p) ++ group_classes (p_groupBys p).

  Fixpoint classes (fuel : nat) (e : exp) : list string :=
    match fuel with
    | O => []
    | S n =>
        let ws (l : list (withq exp)) := flat_map (fun q => classes n (wq_query q)) l in
        match e with
        | ESelect w c p => ws w ++ flat_map (fun b => parts_classes (cb_parts b) true) c ++ parts_classes p false
        | EInsert b => ws (i_with b) ++ (if nonil (i_query b) then classes n (i_query b) else []) ++
                       (if negb (nonil (i_query b)) && negb (opt_nonnil (i_values b)) && negb (i_default b)
                        then ["Q-insert-without-values"] else []) ++
                       (if opt_nonnil (i_values b) && nonil (i_query b) then ["Q-insert-values-and-query"] else []) ++
                       (match i_values b with
                        | Some rows => if existsb (fun r => match r with [] => true | _ => false end) rows || negb (nonnil rows)
                                       then ["Q-empty-value-row"] else []
                        | None => []
                        end) ++
                       (if String.eqb (i_caction b) "DO UPDATE" && negb (nonnil (i_cset b)) then ["Q-do-update-without-set"] else []) ++
                       (if nonempty (i_cconstraint b) && (nonnil (i_ctargets b) || nonnil (i_ctwhere b))
                        then ["Q-conflict-constraint-and-target"] else []) ++
                       cond_classes (i_ctwhere b) ++ cond_classes (i_cwhere b)
        | EUpdate b => ws (u_with b) ++ from_classes (u_from b) ++ cond_classes (u_where b) ++
                       (if negb (nonnil (u_set b)) then ["Q-update-without-set"] else [])
        | EDelete b => ws (d_with b) ++ from_classes (d_using b) ++ cond_classes (d_where b)
        | _ => []
        end
    end.

  (* ------------------------------------------------------------ verdict *)
  Inductive sverdict :=
  | SOk
  | SMismatch (composed parsed : string) (cls : list string)
  | SReject (composed : string) (cls : list string)
  | SSkip (why : string).

  Definition c01_eval (e : exp) (sql : string) : sverdict :=
    if negb (is_stmt e) then SSkip "not a statement"
    else
      let composed := show_cn (canon_stmt 12 e) in
      let cls := classes 12 e ++ global_classes e ++
                 (if str_contains "!join without a left item" composed then ["Q-join-without-left-item"] else []) ++
                 (if str_contains "?empty" composed then ["Q-empty-expression"] else []) ++
                 (* a part whose own text is not lexable (caller-supplied raw text) or does not render *)
                 (if str_contains "<?>" composed || str_contains "<!>" composed then ["Q-unlexable-part"] else []) in
      match pg_lex true sql with
      | None => SReject composed cls
      | Some ts =>
          match pg_read_stmt ts with
          | None => SReject composed cls
          | Some parsed =>
              if String.eqb composed (show_cn parsed) then SOk else SMismatch composed (show_cn parsed) cls
          end
      end.

  Definition c01_model (e : exp) : sverdict :=
    match stmt_text e with Some s => c01_eval e s | None => SSkip "panic" end.

  (* every statement nested anywhere inside the value, read back from the model's own text *)
  Definition nested_stmts (e : exp) : list exp := filter is_stmt (flat_map (all_sub 14) (children e)).
  Definition c01_nested (e : exp) : list sverdict := map c01_model (nested_stmts e).
End Eval.
