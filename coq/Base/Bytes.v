(* Byte strings and decimal printing shared by the model and the oracle.
   Go strings are byte sequences; Coq's [string] (list of 8-bit [ascii]) is used for them. *)
From Coq Require Import List String Ascii ZArith Lia Bool.
From Coq Require Import DecimalString DecimalZ DecimalNat.
Import ListNotations.

Definition byte := ascii.

Fixpoint sconcat (l : list string) : string :=
  match l with [] => EmptyString | x :: r => append x (sconcat r) end.

Lemma sconcat_app a b : sconcat (a ++ b) = append (sconcat a) (sconcat b).
Proof.
  induction a as [|x a IH]; cbn [sconcat List.app]; [reflexivity|].
  rewrite IH. clear IH. induction x as [|c x IHx]; cbn; [reflexivity|]. now rewrite IHx.
Qed.

Lemma append_nil_r s : append s EmptyString = s.
Proof. induction s as [|c s IH]; cbn; [reflexivity|now rewrite IH]. Qed.

Lemma append_assoc a b c : append (append a b) c = append a (append b c).
Proof. induction a as [|x a IH]; cbn; [reflexivity|now rewrite IH]. Qed.

(* strconv.Itoa *)
Definition z_dec (z : Z) : string := NilZero.string_of_int (Z.to_int z).
Definition nat_dec (n : nat) : string := NilZero.string_of_uint (Nat.to_uint n).

Fixpoint list_of_string (s : string) : list byte :=
  match s with EmptyString => [] | String c r => c :: list_of_string r end.
Fixpoint string_of_list (l : list byte) : string :=
  match l with [] => EmptyString | c :: r => String c (string_of_list r) end.

Lemma string_of_list_of_string s : string_of_list (list_of_string s) = s.
Proof. induction s as [|c s IH]; cbn; [reflexivity|now rewrite IH]. Qed.
Lemma list_of_string_of_list l : list_of_string (string_of_list l) = l.
Proof. induction l as [|c l IH]; cbn; [reflexivity|now rewrite IH]. Qed.
Lemma list_of_string_app a b : list_of_string (append a b) = list_of_string a ++ list_of_string b.
Proof. induction a as [|c a IH]; cbn; [reflexivity|now rewrite IH]. Qed.

Definition byte_of_N (n : N) : byte := ascii_of_N n.
Definition N_of_byte (b : byte) : N := N_of_ascii b.

(* strings.Contains for a single byte / strings.Replace of one byte by a string *)
Fixpoint contains_byte (c : byte) (s : string) : bool :=
  match s with EmptyString => false | String d r => if Ascii.eqb c d then true else contains_byte c r end.

Fixpoint replace_byte (c : byte) (by_ : string) (s : string) : string :=
  match s with
  | EmptyString => EmptyString
  | String d r => if Ascii.eqb c d then append by_ (replace_byte c by_ r) else String d (replace_byte c by_ r)
  end.

(* assoc-list lookup on string keys *)
Fixpoint lookup {A} (k : string) (l : list (string * A)) : option A :=
  match l with
  | [] => None
  | (k', v) :: r => if String.eqb k k' then Some v else lookup k r
  end.

(* UTF-8 encoding of a rune as Go's string(rune) does it: invalid runes become U+FFFD *)
Local Open Scope Z_scope.
Definition utf8_encode (r : Z) : string :=
  let b (z : Z) := byte_of_N (Z.to_N z) in
  let bad := String (b 239) (String (b 191) (String (b 189) EmptyString)) in
  if r <? 0 then bad
  else if r <? 128 then String (b r) EmptyString
  else if r <? 2048 then String (b (192 + r / 64)) (String (b (128 + r mod 64)) EmptyString)
  else if (55296 <=? r) && (r <=? 57343) then bad
  else if r <? 65536 then
    String (b (224 + r / 4096)) (String (b (128 + (r / 64) mod 64)) (String (b (128 + r mod 64)) EmptyString))
  else if r <=? 1114111 then
    String (b (240 + r / 262144)) (String (b (128 + (r / 4096) mod 64))
      (String (b (128 + (r / 64) mod 64)) (String (b (128 + r mod 64)) EmptyString)))
  else bad.
