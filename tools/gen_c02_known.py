#!/usr/bin/env python3
"""One-off generator of the D7 entries of known_findings.json (C02): every site class that is demonstrated ALONE
(the only failing local condition of a tree whose emitted text reads back differently) by the exhaustive
parent x position x wrapping x child enumeration on the tree at hand.  Run by hand on the unchanged tree and
review the output; checks never write known_findings.json."""
import sys, json, subprocess, os
sys.path.insert(0, os.path.join(os.path.dirname(os.path.abspath(__file__)), "..", "lib"))
from qrbverif import corr, build
out = "/tmp/gen_c02_known.jsonl"
subprocess.run([os.path.join(build.BIN, "harness"), "-mode", "c02", "-seed", "1", "-n", "20000", "-depth", "5",
                "-stride", "1", "-out", out], check=True)
cases = [json.loads(l) for l in open(out)]
os.unlink(out)
# every pair inside every one-level context (demonstrates classes that are harmless on their own)
subprocess.run([os.path.join(build.BIN, "harness"), "-mode", "c02ctx", "-out", out], check=True)
cases += [json.loads(l) for l in open(out)]
os.unlink(out)
reqs = [f"(c02 {c['dump']} s{c['renders'][1]['sql']})" for c in cases]
ans = corr.model_answers(reqs)
demo, others = {}, set()
for c, a in zip(cases, ans):
    p = a.split(" ")
    if p[1] not in ("mismatch", "reject"):
        continue
    sites = [x for x in (p[5] if len(p) > 5 else "").split(",") if x]
    emitted = bytes.fromhex(c["renders"][1]["sql"]).decode()
    back = bytes.fromhex(p[4][1:]).decode() if p[1] == "mismatch" else "(rejected by the grammar)"
    if len(sites) == 1:
        d = demo.get(sites[0])
        if d is None or len(c["prog"]) < len(d["composed"]):
            demo[sites[0]] = {"composed": c["prog"], "emitted": emitted, "reads_back_as": back}
    else:
        others.update(sites)
missing = sorted(others - set(demo))
print("demonstrated:", len(demo), "sites seen only in combination:", missing, file=sys.stderr)
json.dump([{"id": "D7-" + s, "property": "C02",
            "what": f"operator nesting lost at {s}: composed {d['composed']} is emitted as {d['emitted']!r}, "
                    f"which PostgreSQL reads as {d['reads_back_as']}",
            "witness": d} for s, d in sorted(demo.items())], sys.stdout, indent=1)
