module verif

go 1.20

require github.com/networkteam/qrb v0.0.0

replace github.com/networkteam/qrb => /repo
