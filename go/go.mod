module verif

go 1.21

require (
	github.com/jackc/pgx/v5 v5.6.0
	github.com/networkteam/qrb v0.0.0
)

require (
	github.com/jackc/pgpassfile v1.0.0 // indirect
	github.com/jackc/pgservicefile v0.0.0-20240606120523-5a60cdf6a761 // indirect
	golang.org/x/crypto v0.24.0 // indirect
	golang.org/x/text v0.16.0 // indirect
)

replace github.com/networkteam/qrb => /repo
