package main

// C06 mode: every literal context x a stream of strings / ints / floats.  For each case the
// statement is rendered with the literal under test and with a harmless reference literal, so that an
// independent reader (the extracted PostgreSQL lexer) can compare the two token streams.

import (
	"encoding/hex"
	"encoding/json"
	"fmt"
	"io"
	"math"
	"math/rand"
	"strconv"

	qrb "github.com/networkteam/qrb"
	"github.com/networkteam/qrb/builder"
	"github.com/networkteam/qrb/fn"
	"verif/internal/dump"
)

type litCase struct {
	Ctx    string  `json:"ctx"`
	Kind   string  `json:"kind"` // string | int | float | bool | rune
	S      string  `json:"s"`    // hex of the Go string / decimal of the int / bits of the float
	SQL    string  `json:"sql"`
	Ref    string  `json:"ref"` // same statement with the reference literal
	Err    string  `json:"err,omitempty"`
	Panic  string  `json:"panic,omitempty"`
	Float  string  `json:"float,omitempty"` // strconv.FormatFloat(f,'g',-1,64) for reading back
	Pretty bool    `json:"pretty,omitempty"`
	Dump   string  `json:"dump"`
}

type strCtx struct {
	name string
	f    func(lit builder.Exp) builder.SQLWriter
}

func col(n string) builder.IdentExp { return qrb.N(n) }

// contexts in which an expression literal can be placed
var expContexts = []strCtx{
	{"alone", func(l builder.Exp) builder.SQLWriter { return l }},
	{"func-arg", func(l builder.Exp) builder.SQLWriter { return qrb.Func("f", l) }},
	{"func-args", func(l builder.Exp) builder.SQLWriter { return qrb.Func("f", col("a"), l, l) }},
	{"array", func(l builder.Exp) builder.SQLWriter { return qrb.Array(l, l) }},
	{"op-right", func(l builder.Exp) builder.SQLWriter { return col("a").Eq(l) }},
	{"op-concat", func(l builder.Exp) builder.SQLWriter { return col("a").Concat(l).Concat(l) }},
	{"custom-op", func(l builder.Exp) builder.SQLWriter { return col("a").Op("->>", l) }},
	{"in-list", func(l builder.Exp) builder.SQLWriter { return col("a").In(qrb.Exps(l, l)) }},
	{"like", func(l builder.Exp) builder.SQLWriter { return col("a").Like(l) }},
	{"case", func(l builder.Exp) builder.SQLWriter { return qrb.Case(l).When(l).Then(l).Else(l).End() }},
	{"not", func(l builder.Exp) builder.SQLWriter { return qrb.Not(l) }},
	{"and", func(l builder.Exp) builder.SQLWriter { return qrb.And(l, l) }},
	{"cast", func(l builder.Exp) builder.SQLWriter { return builder.ExpBase{Exp: l}.Cast("text") }},
	{"select-list", func(l builder.Exp) builder.SQLWriter { return qrb.Select(l, l).As("x").From(col("t")).Where(col("a").Eq(l)) }},
	{"values", func(l builder.Exp) builder.SQLWriter {
		return qrb.InsertInto(col("t")).ColumnNames("a", "b").Values(l, l).Values(l, qrb.Int(1))
	}},
	{"set", func(l builder.Exp) builder.SQLWriter { return qrb.Update(col("t")).Set("a", l).Where(col("b").Eq(l)) }},
	{"json-value", func(l builder.Exp) builder.SQLWriter { return fn.JsonBuildObject().Prop("k", l) }},
	{"agg", func(l builder.Exp) builder.SQLWriter { return fn.StringAgg(col("a"), l).OrderBy(l) }},
	{"limit", func(l builder.Exp) builder.SQLWriter { return qrb.Select(col("a")).Limit(l).Offset(l) }},
	{"any", func(l builder.Exp) builder.SQLWriter { return col("a").Eq(qrb.Any(l)) }},
	{"coalesce", func(l builder.Exp) builder.SQLWriter { return qrb.Coalesce(l, l) }},
	{"extract", func(l builder.Exp) builder.SQLWriter { return fn.Extract("year", l) }},
	{"on-conflict", func(l builder.Exp) builder.SQLWriter {
		return qrb.InsertInto(col("t")).Values(l).OnConflict(col("a")).DoUpdate().Set("a", l).Where(col("b").Eq(l)).Returning(l)
	}},
}

// contexts specific to Go strings that are not expressions
var strOnlyContexts = []struct {
	name string
	f    func(s string) builder.SQLWriter
}{
	{"interval", func(s string) builder.SQLWriter { return qrb.Interval(s) }},
	{"interval-op", func(s string) builder.SQLWriter { return col("a").Plus(qrb.Interval(s)) }},
	{"json-key", func(s string) builder.SQLWriter { return fn.JsonBuildObject().Prop(s, col("a")).Prop("z", col("b")) }},
	{"jsonb-key", func(s string) builder.SQLWriter { return fn.JsonbBuildObject().Prop("z", col("b")).Prop(s, col("a")) }},
}

const refString = "zz"

var litDumper = &dump.Dumper{AnyID: func(any) int { return 0 }}

func renderLit(w builder.SQLWriter, pretty bool) (sql string, errS string, panicS string) {
	defer func() {
		if e := recover(); e != nil {
			panicS = fmt.Sprint(e)
		}
	}()
	qb := qrb.Build(w)
	if pretty {
		qb = qb.PrettyPrint()
	}
	s, _, err := qb.ToSQL()
	if err != nil {
		errS = err.Error()
	}
	return s, errS, ""
}

func emitLit(enc *json.Encoder, ctx, kind, s string, w, ref builder.SQLWriter, extra string) {
	for _, pretty := range []bool{false, true} {
		if pretty && ctx != "values" && ctx != "on-conflict" {
			continue
		}
		sql, e1, p1 := renderLit(w, pretty)
		rs, _, _ := renderLit(ref, pretty)
		enc.Encode(litCase{Ctx: ctx, Kind: kind, S: s, SQL: hex.EncodeToString([]byte(sql)), Ref: hex.EncodeToString([]byte(rs)),
			Err: e1, Panic: p1, Float: extra, Pretty: pretty, Dump: litDumper.Value(w)})
	}
}

var critical = []byte{'\'', '\\', 'a', 'E', '$', '-', '/', '*', '\n', 0x00, 0xC3, 0xA9}

func enumStrings(maxLen int, f func(string)) {
	var rec func(prefix []byte, l int)
	rec = func(prefix []byte, l int) {
		f(string(prefix))
		if l == maxLen {
			return
		}
		for _, c := range critical {
			rec(append(prefix[:len(prefix):len(prefix)], c), l+1)
		}
	}
	rec(nil, 0)
}

func runC06(out io.Writer, seed int64, maxLen int, nRandom int) {
	enc := json.NewEncoder(out)
	rng := rand.New(rand.NewSource(seed))
	doString := func(s string, allCtx bool) {
		for i, c := range expContexts {
			if !allCtx && i != rng.Intn(len(expContexts)) {
				continue
			}
			emitLit(enc, c.name, "string", hex.EncodeToString([]byte(s)), c.f(qrb.String(s)), c.f(qrb.String(refString)), "")
		}
		for i, c := range strOnlyContexts {
			if !allCtx && i != rng.Intn(len(strOnlyContexts)) {
				continue
			}
			emitLit(enc, c.name, "string", hex.EncodeToString([]byte(s)), c.f(s), c.f(refString), "")
		}
	}
	// exhaustive over the critical alphabet: every context for short strings, one random context beyond
	enumStrings(maxLen, func(s string) { doString(s, len(s) <= 2) })
	// random long strings incl. invalid UTF-8
	for i := 0; i < nRandom; i++ {
		n := 1 + rng.Intn(40)
		b := make([]byte, n)
		for j := range b {
			switch rng.Intn(4) {
			case 0:
				b[j] = critical[rng.Intn(len(critical))]
			case 1:
				b[j] = byte(1 + rng.Intn(255))
			default:
				b[j] = byte(32 + rng.Intn(95))
			}
		}
		doString(string(b), false)
	}
	// ESCAPE characters
	for _, r := range []rune{'!', '\\', '\'', '#', 'x', 'é', 0, -1, 0x10FFFF + 1, 0xD800, '\n', '"', '$', 0x1F600} {
		w := col("a").Like(qrb.String("p")).Escape(r)
		ref := col("a").Like(qrb.String("p")).Escape('z')
		emitLit(enc, "escape", "rune", hex.EncodeToString([]byte(string(r))), w, ref, "")
	}
	// integers
	ints := []int{0, 1, -1, 7, 42, -42, 1000000, math.MaxInt64, math.MinInt64, math.MaxInt32, math.MinInt32, 1 << 53, -(1 << 53)}
	for i := 0; i < nRandom/4+20; i++ {
		ints = append(ints, int(rng.Uint64()))
		ints = append(ints, int(rng.Int63n(100000))-50000)
	}
	for _, z := range ints {
		for i, c := range expContexts {
			if i%4 != int(uint(z))%4 && z != 0 && z != -1 {
				continue
			}
			emitLit(enc, c.name, "int", strconv.Itoa(z), c.f(qrb.Int(z)), c.f(qrb.Int(7)), "")
		}
	}
	// floats
	floats := []float64{0, math.Copysign(0, -1), 1, -1, 0.5, 0.1, 1e21, 1e-7, 1e300, -1e300, 5e-324, math.MaxFloat64,
		math.SmallestNonzeroFloat64, 123456789.125, 1e20, 1e22, 2.2250738585072014e-308, 4.9e-324, 1.7976931348623157e308}
	// whole numbers at and next to the integer-type boundaries (a formatting fast path through an integer type)
	for _, e := range []int{7, 8, 15, 16, 24, 31, 32, 52, 53, 54, 62, 63, 64, 65, 127, 128} {
		p := math.Ldexp(1, e)
		floats = append(floats, p, -p, math.Nextafter(p, 0), math.Nextafter(p, math.Inf(1)), -math.Nextafter(p, 0), -math.Nextafter(p, math.Inf(1)))
	}
	for i := 0; i < nRandom/4+20; i++ {
		f := math.Float64frombits(rng.Uint64())
		if math.IsNaN(f) || math.IsInf(f, 0) {
			continue
		}
		floats = append(floats, f, rng.NormFloat64()*1e6, float64(rng.Intn(1000))/8)
	}
	for k, f := range floats {
		for i, c := range expContexts {
			if i%5 != k%5 {
				continue
			}
			emitLit(enc, c.name, "float", strconv.FormatUint(math.Float64bits(f), 10), c.f(qrb.Float(f)), c.f(qrb.Float(7)),
				strconv.FormatFloat(f, 'g', -1, 64))
		}
	}
	for _, b := range []bool{true, false} {
		for _, c := range expContexts {
			emitLit(enc, c.name, "bool", strconv.FormatBool(b), c.f(qrb.Bool(b)), c.f(qrb.Bool(!b)), "")
		}
	}
}
