package main

// C02 mode: operator expressions composed through the real API - every parent kind x operand position x
// "held as the handle the API returned / re-wrapped as a plain value" x child kind, as spines up to depth 3
// (one representative per precedence class, the other operands atoms), and random full trees beyond.
// Each case carries the reflective dump of the composed value (for the model) and the texts the
// implementation emits (stand-alone under the four option combinations, and embedded in a statement).

import (
	"encoding/hex"
	"encoding/json"
	"fmt"
	"io"
	"math/rand"

	qrb "github.com/networkteam/qrb"
	"github.com/networkteam/qrb/builder"
	"verif/internal/dump"
)

type xnode struct {
	kind string
	kids []*xnode
	wrap []bool
}

type c02Case struct {
	Case
	Shape    string `json:"shape"`
	Embedded string `json:"embedded"` // hex: SELECT <e> FROM t WHERE <e>, no validation
	EmbPanic string `json:"emb_panic,omitempty"`
}

var c02Atoms = []string{"ident", "neglit"}
var c02AtomsAll = []string{"ident", "neglit", "int", "str", "arg", "func", "negfloat", "bool", "null", "case", "sub"}
var c02Bin = []string{"eq", "concat", "plus", "minus", "mult", "div", "pow", "and", "or", "like"}
var c02Un = []string{"cast", "not", "neg", "isnull", "in"}
var c02BinAll = []string{"eq", "neq", "lt", "gte", "concat", "regexp", "jsonop", "plus", "minus", "mult", "div", "mod", "pow",
	"and", "or", "and3", "or3", "like", "ilike", "notlike", "similar", "likeesc"}
var c02UnAll = []string{"cast", "castarr", "not", "neg", "isnull", "isnotnull", "in", "notin", "and1", "or1"}

func arity(kind string) int {
	for _, k := range c02BinAll {
		if k == kind {
			if k == "and3" || k == "or3" {
				return 3
			}
			return 2
		}
	}
	for _, k := range c02UnAll {
		if k == kind {
			return 1
		}
	}
	return 0
}

type c02Builder struct {
	ident int
}

func (b *c02Builder) recv(v builder.Exp, wrap bool) builder.ExpBase {
	if !wrap {
		switch t := v.(type) {
		case builder.ExpBase:
			return t
		case builder.IdentExp:
			return t.ExpBase
		}
	}
	return builder.ExpBase{Exp: v}
}

func (b *c02Builder) arg(v builder.Exp, wrap bool) builder.Exp {
	if wrap {
		return builder.ExpBase{Exp: v}
	}
	return v
}

func (b *c02Builder) build(n *xnode) (builder.Exp, string) {
	switch n.kind {
	case "ident":
		b.ident++
		name := fmt.Sprintf("c%d", b.ident)
		return qrb.N(name), name
	case "neglit":
		return qrb.Int(-3), "-3"
	case "int":
		return qrb.Int(7), "7"
	case "str":
		return qrb.String("s"), "'s'"
	case "arg":
		return qrb.Arg(1), "?"
	case "func":
		return builder.FuncExp("lower", []builder.Exp{qrb.N("x")}), "lower(x)"
	case "negfloat":
		return qrb.Float(-1.5), "-1.5"
	case "bool":
		return qrb.Bool(true), "true"
	case "null":
		return qrb.Null(), "NULL"
	case "case":
		return qrb.Case().When(qrb.N("p")).Then(qrb.Int(1)).Else(qrb.Int(2)).End(), "CASE"
	case "sub":
		return qrb.Select(qrb.N("m")).From(qrb.N("u")), "(subselect)"
	}
	var k []builder.Exp
	var ps []string
	for i, kid := range n.kids {
		e, p := b.build(kid)
		k = append(k, e)
		w := ""
		if n.wrap[i] {
			w = "~"
		}
		ps = append(ps, w+p)
	}
	l := func() builder.ExpBase { return b.recv(k[0], n.wrap[0]) }
	r := func() builder.Exp { return b.arg(k[1], n.wrap[1]) }
	sh2 := func(op string) string { return "(" + ps[0] + " " + op + " " + ps[1] + ")" }
	switch n.kind {
	case "eq":
		return l().Eq(r()), sh2("=")
	case "neq":
		return l().Neq(r()), sh2("<>")
	case "lt":
		return l().Lt(r()), sh2("<")
	case "gte":
		return l().Gte(r()), sh2(">=")
	case "concat":
		return l().Concat(r()), sh2("||")
	case "regexp":
		return l().RegexpIMatch(r()), sh2("~*")
	case "jsonop":
		return l().Op(builder.Operator("->>"), r()), sh2("->>")
	case "plus":
		return l().Plus(r()), sh2("+")
	case "minus":
		return l().Minus(r()), sh2("-")
	case "mult":
		return l().Mult(r()), sh2("*")
	case "div":
		return l().Divide(r()), sh2("/")
	case "mod":
		return l().Mod(r()), sh2("%")
	case "pow":
		return l().Pow(r()), sh2("^")
	case "and":
		return qrb.And(b.arg(k[0], n.wrap[0]), r()), sh2("AND")
	case "or":
		return qrb.Or(b.arg(k[0], n.wrap[0]), r()), sh2("OR")
	case "and3":
		return qrb.And(b.arg(k[0], n.wrap[0]), r(), b.arg(k[2], n.wrap[2])), "(" + ps[0] + " AND " + ps[1] + " AND " + ps[2] + ")"
	case "or3":
		return qrb.Or(b.arg(k[0], n.wrap[0]), r(), b.arg(k[2], n.wrap[2])), "(" + ps[0] + " OR " + ps[1] + " OR " + ps[2] + ")"
	case "like":
		return l().Like(r()), sh2("LIKE")
	case "ilike":
		return l().ILike(r()), sh2("ILIKE")
	case "notlike":
		return l().NotLike(r()), sh2("NOT LIKE")
	case "similar":
		return l().SimilarTo(r()), sh2("SIMILAR TO")
	case "likeesc":
		return l().Like(r()).Escape('!'), "(" + ps[0] + " LIKE " + ps[1] + " ESCAPE '!')"
	case "cast":
		return l().Cast("int"), "(" + ps[0] + "::int)"
	case "castarr":
		return l().Cast("text[]"), "(" + ps[0] + "::text[])"
	case "and1":
		// a junction left with one element after nil filtering (dynamic filter lists)
		return qrb.And(nil, b.arg(k[0], n.wrap[0])), "And(nil, " + ps[0] + ")"
	case "or1":
		return qrb.Or(b.arg(k[0], n.wrap[0]), nil), "Or(" + ps[0] + ", nil)"
	case "not":
		return qrb.Not(b.arg(k[0], n.wrap[0])), "(NOT " + ps[0] + ")"
	case "neg":
		return builder.Neg(b.arg(k[0], n.wrap[0])), "(- " + ps[0] + ")"
	case "isnull":
		return l().IsNull(), "(" + ps[0] + " IS NULL)"
	case "isnotnull":
		return l().IsNotNull(), "(" + ps[0] + " IS NOT NULL)"
	case "in":
		return l().In(qrb.Exps(qrb.Int(1), qrb.Int(2))), "(" + ps[0] + " IN (1,2))"
	case "notin":
		return l().NotIn(qrb.Exps(qrb.Int(1), qrb.Int(2))), "(" + ps[0] + " NOT IN (1,2))"
	}
	panic("c02: unknown kind " + n.kind)
}

func atomNode(kind string) *xnode { return &xnode{kind: kind} }

// spines of exactly the given depth: one operand position carries the sub-spine, the others are identifiers
func spines(depth int, all bool, emit func(*xnode)) {
	atoms, kinds := c02Atoms, append(append([]string{}, c02Bin...), c02Un...)
	if all {
		atoms, kinds = c02AtomsAll, append(append([]string{}, c02BinAll...), c02UnAll...)
	}
	if depth <= 1 {
		for _, a := range atoms {
			emit(atomNode(a))
		}
		return
	}
	for _, kind := range kinds {
		ar := arity(kind)
		for pos := 0; pos < ar; pos++ {
			for _, wrap := range []bool{false, true} {
				kind, pos, wrap := kind, pos, wrap
				spines(depth-1, all, func(sub *xnode) {
					n := &xnode{kind: kind, kids: make([]*xnode, ar), wrap: make([]bool, ar)}
					for i := range n.kids {
						n.kids[i] = atomNode("ident")
					}
					n.kids[pos] = sub
					n.wrap[pos] = wrap
					emit(n)
				})
			}
		}
	}
}

func randomTree(rng *rand.Rand, depth int) *xnode {
	if depth <= 1 || rng.Intn(5) == 0 {
		return atomNode(c02AtomsAll[rng.Intn(len(c02AtomsAll))])
	}
	var kind string
	if rng.Intn(3) == 0 {
		kind = c02UnAll[rng.Intn(len(c02UnAll))]
	} else {
		kind = c02BinAll[rng.Intn(len(c02BinAll))]
	}
	ar := arity(kind)
	n := &xnode{kind: kind, kids: make([]*xnode, ar), wrap: make([]bool, ar)}
	for i := range n.kids {
		n.kids[i] = randomTree(rng, depth-1)
		n.wrap[i] = rng.Intn(3) == 0
	}
	return n
}

func runC02(out io.Writer, seed int64, n int, depth int, stride int) {
	enc := json.NewEncoder(out)
	d := &dump.Dumper{AnyID: anyID}
	id := 0
	one := func(t *xnode, gen string) {
		b := &c02Builder{}
		e, shape := b.build(t)
		c := c02Case{Case: Case{ID: id, Gen: gen, Type: "c02." + t.kind, Prog: shape}, Shape: shape}
		id++
		c.Dump = d.Value(e)
		c.Binds = []string{}
		for _, vp := range [][2]bool{{true, false}, {false, false}, {true, true}, {false, true}} {
			c.Renders = append(c.Renders, render(e, vp[0], vp[1], nil))
		}
		func() {
			defer func() {
				if r := recover(); r != nil {
					c.EmbPanic = fmt.Sprint(r)
				}
			}()
			s, _, _ := qrb.Build(qrb.Select(e).From(qrb.N("t")).Where(e)).WithoutValidation().ToSQL()
			c.Embedded = hex.EncodeToString([]byte(s))
		}()
		if err := enc.Encode(c); err != nil {
			panic(err)
		}
	}
	for _, w := range c02Witnesses() {
		one(w, "witness")
	}
	spines(1, true, func(t *xnode) {
		if t.kind != "sub" { // a top-level select is a statement, not an expression
			one(t, "spine")
		}
	})
	spines(2, true, func(t *xnode) { one(t, "spine") })
	// every (parent kind, position, direct / re-wrapped, child operator kind) over ALL kinds, identifiers as leaves:
	// each failing local condition of the model is demonstrated alone
	allOps := append(append([]string{}, c02BinAll...), c02UnAll...)
	for _, pk := range allOps {
		for pos := 0; pos < arity(pk); pos++ {
			for _, wrap := range []bool{false, true} {
				for _, ck := range allOps {
					child := &xnode{kind: ck, kids: make([]*xnode, arity(ck)), wrap: make([]bool, arity(ck))}
					for i := range child.kids {
						child.kids[i] = atomNode("ident")
					}
					n := &xnode{kind: pk, kids: make([]*xnode, arity(pk)), wrap: make([]bool, arity(pk))}
					for i := range n.kids {
						n.kids[i] = atomNode("ident")
					}
					n.kids[pos] = child
					n.wrap[pos] = wrap
					one(n, "pair")
				}
			}
		}
	}
	// a one-element junction renders as its bare element: every parent x position x wrapping over it x every operator
	// kind below it
	mk := func(kind string) *xnode {
		n := &xnode{kind: kind, kids: make([]*xnode, arity(kind)), wrap: make([]bool, arity(kind))}
		for i := range n.kids {
			n.kids[i] = atomNode("ident")
		}
		return n
	}
	for _, pk := range allOps {
		for pos := 0; pos < arity(pk); pos++ {
			for _, wrap := range []bool{false, true} {
				for _, mid := range []string{"and1", "or1"} {
					for _, ck := range allOps {
						m := mk(mid)
						m.kids[0] = mk(ck)
						n := mk(pk)
						n.kids[pos] = m
						n.wrap[pos] = wrap
						one(n, "transparent")
					}
				}
			}
		}
	}
	i := 0
	spines(3, false, func(t *xnode) {
		if i%stride == 0 {
			one(t, "spine")
		}
		i++
	})
	rng := rand.New(rand.NewSource(seed))
	for j := 0; j < n; {
		t := randomTree(rng, 2+rng.Intn(depth))
		if arity(t.kind) == 0 {
			continue
		}
		one(t, "random")
		j++
	}
}

// the shapes the property text names, first
func c02Witnesses() []*xnode {
	id := func() *xnode { return atomNode("ident") }
	bin := func(k string, l, r *xnode, wl, wr bool) *xnode {
		return &xnode{kind: k, kids: []*xnode{l, r}, wrap: []bool{wl, wr}}
	}
	un := func(k string, e *xnode, w bool) *xnode { return &xnode{kind: k, kids: []*xnode{e}, wrap: []bool{w}} }
	return []*xnode{
		bin("minus", id(), bin("minus", id(), id(), false, false), false, false), // a - (b - c)
		un("neg", bin("plus", id(), id(), false, false), false),                  // -(a + b)
		bin("eq", id(), bin("eq", id(), id(), false, false), false, false),       // a = (b = c)
		bin("div", id(), bin("div", id(), id(), false, false), false, false),
		bin("pow", id(), bin("pow", id(), id(), false, false), false, false),
		bin("and", id(), bin("or", id(), id(), false, false), false, true),
		bin("concat", id(), bin("like", id(), id(), false, false), false, false),
		un("cast", atomNode("neglit"), true),
		bin("plus", bin("plus", id(), id(), false, false), bin("minus", id(), id(), false, false), false, false),
		bin("mult", bin("plus", id(), id(), false, false), bin("plus", id(), id(), false, false), false, false),
	}
}

// runC02Ctx (tool mode "c02ctx", used by tools/gen_c02_known.py only): every pair tree inside every one-level
// context, to demonstrate site classes that are harmless on their own but not below another operator
func runC02Ctx(out io.Writer) {
	enc := json.NewEncoder(out)
	d := &dump.Dumper{AnyID: anyID}
	id := 0
	one := func(t *xnode) {
		b := &c02Builder{}
		e, shape := b.build(t)
		c := c02Case{Case: Case{ID: id, Gen: "context", Type: "c02." + t.kind, Prog: shape}, Shape: shape}
		id++
		c.Dump = d.Value(e)
		c.Binds = []string{}
		c.Renders = append(c.Renders, render(e, true, false, nil), render(e, false, false, nil))
		enc.Encode(c)
	}
	mk := func(kind string) *xnode {
		n := &xnode{kind: kind, kids: make([]*xnode, arity(kind)), wrap: make([]bool, arity(kind))}
		for i := range n.kids {
			n.kids[i] = atomNode("ident")
		}
		return n
	}
	allOps := append(append([]string{}, c02BinAll...), c02UnAll...)
	for _, pk := range allOps {
		for pos := 0; pos < arity(pk); pos++ {
			for _, wrap := range []bool{false, true} {
				for _, ck := range allOps {
					pair := func() *xnode {
						n := mk(pk)
						n.kids[pos] = mk(ck)
						n.wrap[pos] = wrap
						return n
					}
					for _, ctx := range allOps {
						for cpos := 0; cpos < arity(ctx); cpos++ {
							c := mk(ctx)
							c.kids[cpos] = pair()
							one(c)
						}
					}
				}
			}
		}
	}
}
