package main

// C19 mode: the if/else law of the conditional helpers, evaluated on the implementation:
// receivers (select, update, JSON object, JSON batch builder) x both conditions x functions built
// from the fluent API (with a call counter), and nil operands at every position of And / Or.

import (
	"encoding/json"
	"fmt"
	"io"
	"math/rand"
	"reflect"
	"strings"

	qrb "github.com/networkteam/qrb"
	"github.com/networkteam/qrb/builder"
	"github.com/networkteam/qrb/fn"
	"verif/internal/gen"
)

type c19Case struct {
	ID       int    `json:"id"`
	Kind     string `json:"kind"`
	Desc     string `json:"desc"`
	Cond     bool   `json:"cond"`
	Calls    int    `json:"calls"`
	Got      string `json:"got"`       // hex sql of helper(cond, f)(recv)
	Want     string `json:"want"`      // hex sql of: if cond { f(recv) } else { recv }
	GotArgs  []int  `json:"got_args"`
	WantArgs []int  `json:"want_args"`
	RecvSame bool   `json:"recv_same"` // the receiver renders as before
	Panic    string `json:"panic,omitempty"`
	Dump     string `json:"dump,omitempty"`
	DumpWant string `json:"dump_want,omitempty"`
}

func sqlArgs(w builder.SQLWriter) (string, []int) {
	s, a, err := qrb.Build(w).ToSQL()
	ids := []int{}
	for _, x := range a {
		ids = append(ids, anyID(x))
	}
	if err != nil {
		msg := err.Error()
		if strings.HasPrefix(msg, "missing named argument") {
			msg = "missing named argument" // which name is reported depends on Go's map order
		}
		return fmt.Sprintf("%x|ERR %s", s, msg), ids
	}
	return fmt.Sprintf("%x", s), ids
}

func runC19(out io.Writer, seed int64, n int) {
	enc := json.NewEncoder(out)
	g := gen.New(seed, pool)
	rng := rand.New(rand.NewSource(seed + 1))
	id := 0
	emit := func(c c19Case) {
		c.ID = id
		id++
		enc.Encode(c)
	}
	selT := reflect.TypeOf(builder.SelectBuilder{})
	updT := reflect.TypeOf(builder.UpdateBuilder{})
	jsonT := reflect.TypeOf(builder.JsonBuildObjectBuilder{})
	for i := 0; i < n; i++ {
		cond := rng.Intn(2) == 0
		func() {
			var c c19Case
			defer func() {
				if e := recover(); e != nil {
					c.Panic = fmt.Sprint(e)
					emit(c)
				}
			}()
			switch i % 4 {
			case 0: // SelectBuilder.ApplyIf
				rv, ok := g.Gen(selT, 3, "")
				fv, ok2 := g.Gen(reflect.TypeOf(func(builder.SelectBuilder) builder.SelectBuilder { return builder.SelectBuilder{} }), 3, "")
				if !ok || !ok2 {
					return
				}
				recv := rv.V.Interface().(builder.SelectBuilder)
				f := fv.V.Interface().(func(builder.SelectBuilder) builder.SelectBuilder)
				before, _ := sqlArgs(recv)
				calls := 0
				counted := func(q builder.SelectBuilder) builder.SelectBuilder { calls++; return f(q) }
				got := recv.ApplyIf(cond, counted)
				c = c19Case{Kind: "select.ApplyIf", Desc: rv.Prog + " | " + fv.Prog, Cond: cond, Calls: calls}
				var want builder.SelectBuilder = recv
				if cond {
					want = f(recv)
				}
				c.Got, c.GotArgs = sqlArgs(got)
				c.Want, c.WantArgs = sqlArgs(want)
				after, _ := sqlArgs(recv)
				c.RecvSame = before == after
				emit(c)
				if i%16 == 0 { // nil function: documented to return the receiver
					g2 := recv.ApplyIf(cond, nil)
					c2 := c19Case{Kind: "select.ApplyIf(nil)", Desc: rv.Prog, Cond: cond, Calls: -1}
					c2.Got, c2.GotArgs = sqlArgs(g2)
					c2.Want, c2.WantArgs = sqlArgs(recv)
					c2.RecvSame = true
					emit(c2)
				}
			case 1: // UpdateBuilder.ApplyIf
				rv, ok := g.Gen(updT, 3, "")
				fv, ok2 := g.Gen(reflect.TypeOf(func(builder.UpdateBuilder) builder.UpdateBuilder { return builder.UpdateBuilder{} }), 3, "")
				if !ok || !ok2 {
					return
				}
				recv := rv.V.Interface().(builder.UpdateBuilder)
				f := fv.V.Interface().(func(builder.UpdateBuilder) builder.UpdateBuilder)
				before, _ := sqlArgs(recv)
				calls := 0
				counted := func(q builder.UpdateBuilder) builder.UpdateBuilder { calls++; return f(q) }
				got := recv.ApplyIf(cond, counted)
				c = c19Case{Kind: "update.ApplyIf", Desc: rv.Prog + " | " + fv.Prog, Cond: cond, Calls: calls}
				var want builder.UpdateBuilder = recv
				if cond {
					want = f(recv)
				}
				c.Got, c.GotArgs = sqlArgs(got)
				c.Want, c.WantArgs = sqlArgs(want)
				after, _ := sqlArgs(recv)
				c.RecvSame = before == after
				emit(c)
				if i%16 == 1 { // nil function: documented to return the receiver
					g2 := recv.ApplyIf(cond, nil)
					c2 := c19Case{Kind: "update.ApplyIf(nil)", Desc: rv.Prog, Cond: cond, Calls: -1}
					c2.Got, c2.GotArgs = sqlArgs(g2)
					c2.Want, c2.WantArgs = sqlArgs(recv)
					c2.RecvSame = true
					emit(c2)
				}
			case 2: // JsonBuildObjectBuilder.ApplyIf / PropIf
				rv, ok := g.Gen(jsonT, 3, "")
				if !ok {
					return
				}
				recv := rv.V.Interface().(builder.JsonBuildObjectBuilder)
				key := []string{"a", "", "k'", "b"}[rng.Intn(4)]
				if rng.Intn(2) == 0 {
					// the receiver already carries the key (default value + conditional override)
					recv = recv.Prop(key, qrb.N("preset"))
					rv.Prog += fmt.Sprintf(".Prop(%q, N(\"preset\"))", key)
				}
				before, _ := sqlArgs(recv)
				val, _ := g.Gen(reflect.TypeOf((*builder.Exp)(nil)).Elem(), 2, "")
				if i%8 == 2 {
					fv, ok2 := g.Gen(reflect.TypeOf(func(builder.JsonBuildObjectBuilder) builder.JsonBuildObjectBuilder {
						return builder.JsonBuildObjectBuilder{}
					}), 3, "")
					if !ok2 {
						return
					}
					f := fv.V.Interface().(func(builder.JsonBuildObjectBuilder) builder.JsonBuildObjectBuilder)
					calls := 0
					counted := func(q builder.JsonBuildObjectBuilder) builder.JsonBuildObjectBuilder { calls++; return f(q) }
					got := recv.ApplyIf(cond, counted)
					c = c19Case{Kind: "json.ApplyIf", Desc: rv.Prog + " | " + fv.Prog, Cond: cond, Calls: calls}
					want := recv
					if cond {
						want = f(recv)
					}
					c.Got, c.GotArgs = sqlArgs(got)
					c.Want, c.WantArgs = sqlArgs(want)
				} else {
					v := val.V.Interface().(builder.Exp)
					got := recv.PropIf(cond, key, v)
					c = c19Case{Kind: "json.PropIf", Desc: rv.Prog + fmt.Sprintf(" | PropIf(%v, %q, %s)", cond, key, val.Prog), Cond: cond, Calls: -1}
					want := recv
					if cond {
						want = recv.Prop(key, v)
					}
					c.Got, c.GotArgs = sqlArgs(got)
					c.Want, c.WantArgs = sqlArgs(want)
				}
				after, _ := sqlArgs(recv)
				c.RecvSame = before == after
				emit(c)
			case 3: // batch builder PropIf, and nil operands of And / Or
				rv, ok := g.Gen(jsonT, 3, "")
				val, ok2 := g.Gen(reflect.TypeOf((*builder.Exp)(nil)).Elem(), 2, "")
				if !ok || !ok2 {
					return
				}
				recv := rv.V.Interface().(builder.JsonBuildObjectBuilder)
				v := val.V.Interface().(builder.Exp)
				key := []string{"a", "", "k'", "b"}[rng.Intn(4)]
				if rng.Intn(2) == 0 {
					recv = recv.Prop(key, qrb.N("preset"))
					rv.Prog += fmt.Sprintf(".Prop(%q, N(\"preset\"))", key)
				}
				before, _ := sqlArgs(recv)
				bb := recv.Start()
				r := bb.PropIf(cond, key, v)
				got := bb.End()
				c = c19Case{Kind: "batch.PropIf", Desc: rv.Prog + fmt.Sprintf(" | Start().PropIf(%v, %q, %s).End()", cond, key, val.Prog), Cond: cond, Calls: -1}
				if r != bb {
					c.Panic = "PropIf did not return the batch builder"
				}
				bw := recv.Start()
				if cond {
					bw.Prop(key, v)
				}
				c.Got, c.GotArgs = sqlArgs(got)
				c.Want, c.WantArgs = sqlArgs(bw.End())
				after, _ := sqlArgs(recv)
				c.RecvSame = before == after
				emit(c)

				// And / Or with nil operands at random positions
				k := 1 + rng.Intn(5)
				var withNil, without []builder.Exp
				desc := ""
				for j := 0; j < k; j++ {
					if rng.Intn(3) == 0 {
						withNil = append(withNil, nil)
						desc += "nil,"
						continue
					}
					ev, ok := g.Gen(reflect.TypeOf((*builder.Exp)(nil)).Elem(), 2, "")
					if !ok {
						continue
					}
					x := ev.V.Interface().(builder.Exp)
					withNil = append(withNil, x)
					without = append(without, x)
					desc += ev.Prog + ","
				}
				snapshot := append([]builder.Exp{}, withNil...)
				for _, isAnd := range []bool{true, false} {
					var a, b builder.Exp
					name := "Or"
					if isAnd {
						a, b, name = qrb.And(withNil...), qrb.And(without...), "And"
					} else {
						a, b = qrb.Or(withNil...), qrb.Or(without...)
					}
					// the caller's operand slice is an input, not scratch space
					c2 := c19Case{Kind: name + "(nil...)", Desc: name + "(" + desc + ")", Calls: -1, RecvSame: reflect.DeepEqual(snapshot, withNil)}
					c2.Got, c2.GotArgs = sqlArgs(a)
					c2.Want, c2.WantArgs = sqlArgs(b)
					c2.Dump, c2.DumpWant = litDumper.Value(a), litDumper.Value(b)
					emit(c2)
				}
			}
		}()
	}
	_ = fn.Count
}
