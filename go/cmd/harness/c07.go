package main

// C07 / C08 mode: candidate names and cast types (grammar-shaped with mutations, every ASCII
// character and every boundary code point of the Unicode classes in every position class, random
// bytes).  For each: what the library's own matcher says (verif hook), and what rendering emits.

import (
	"encoding/hex"
	"encoding/json"
	"io"
	"math/rand"
	"strings"
	"unicode"

	qrb "github.com/networkteam/qrb"
	"github.com/networkteam/qrb/builder"
)

type c07Case struct {
	Kind  string `json:"kind"` // ident | type
	S     string `json:"s"`    // hex of the input string
	Valid bool   `json:"valid"`
	SQL   string `json:"sql"` // hex of the emitted text (validation on)
	Err   string `json:"err,omitempty"`
	Panic string `json:"panic,omitempty"`
	// the same name / type under the other ways of rendering with validation on: which option methods were called, in
	// which order, and from which statement position - validation must not depend on any of it
	Variants []c07Variant `json:"variants,omitempty"`
}

type c07Variant struct {
	Name string `json:"name"`
	SQL  string `json:"sql"` // hex
	Err  string `json:"err,omitempty"`
}

func boundaryRunes() []rune {
	set := map[rune]bool{}
	add := func(r rune) {
		if r >= 0 && r <= unicode.MaxRune {
			set[r] = true
		}
	}
	for _, tab := range []*unicode.RangeTable{unicode.L, unicode.Nd} {
		for _, r16 := range tab.R16 {
			for _, x := range []rune{rune(r16.Lo), rune(r16.Hi)} {
				add(x - 1)
				add(x)
				add(x + 1)
			}
			if r16.Stride > 1 {
				add(rune(r16.Lo) + rune(r16.Stride))
				add(rune(r16.Lo) + 1)
			}
		}
		for _, r32 := range tab.R32 {
			for _, x := range []rune{rune(r32.Lo), rune(r32.Hi)} {
				add(x - 1)
				add(x)
				add(x + 1)
			}
			if r32.Stride > 1 {
				add(rune(r32.Lo) + rune(r32.Stride))
				add(rune(r32.Lo) + 1)
			}
		}
	}
	for _, x := range []rune{0x7f, 0x80, 0xff, 0x100, 0x7ff, 0x800, 0xd7ff, 0xe000, 0xfffd, 0xffff, 0x10000, 0x10ffff} {
		add(x)
	}
	var out []rune
	for r := range set {
		out = append(out, r)
	}
	return out
}

func runC07(out io.Writer, seed int64, n int, stride int) {
	enc := json.NewEncoder(out)
	rng := rand.New(rand.NewSource(seed))
	seen := map[string]bool{}
	emit := func(kind, s string) {
		if seen[kind+s] {
			return
		}
		seen[kind+s] = true
		c := c07Case{Kind: kind, S: hex.EncodeToString([]byte(s))}
		func() {
			defer func() {
				if e := recover(); e != nil {
					c.Panic = "panic"
				}
			}()
			var w builder.SQLWriter
			if kind == "ident" {
				// N trims white space before anything else; the matcher sees the trimmed string
				c.Valid = builder.VerifIsValidIdentifier(strings.TrimSpace(s))
				w = qrb.N(s)
			} else {
				c.Valid = builder.VerifIsValidType(s)
				w = qrb.N("x").Cast(s)
			}
			sql, _, err := qrb.Build(w).ToSQL()
			c.SQL = hex.EncodeToString([]byte(sql))
			if err != nil {
				c.Err = err.Error()
			}
			variant := func(name string, f func() (string, []any, error)) {
				v := c07Variant{Name: name}
				func() {
					defer func() {
						if recover() != nil {
							v.Err = "panic"
						}
					}()
					vs, _, verr := f()
					v.SQL = hex.EncodeToString([]byte(vs))
					if verr != nil {
						v.Err = verr.Error()
					}
				}()
				c.Variants = append(c.Variants, v)
			}
			named := map[string]any{"k": 1}
			variant("pretty", func() (string, []any, error) { return qrb.Build(w).PrettyPrint().ToSQL() })
			variant("named+pretty", func() (string, []any, error) { return qrb.Build(w).WithNamedArgs(named).PrettyPrint().ToSQL() })
			variant("pretty+named", func() (string, []any, error) { return qrb.Build(w).PrettyPrint().WithNamedArgs(named).ToSQL() })
			variant("named", func() (string, []any, error) { return qrb.Build(w).WithNamedArgs(named).ToSQL() })
			// inside statements (the INSERT writer reads the pretty switch itself)
			var ins builder.SQLWriter
			if kind == "ident" {
				ins = qrb.InsertInto(qrb.N(s)).ColumnNames("a").Values(qrb.Arg(1))
			} else {
				ins = qrb.InsertInto(qrb.N("t")).ColumnNames("a").Values(qrb.N("x").Cast(s))
			}
			variant("insert", func() (string, []any, error) { return qrb.Build(ins).ToSQL() })
			variant("insert pretty", func() (string, []any, error) { return qrb.Build(ins).PrettyPrint().ToSQL() })
		}()
		enc.Encode(c)
	}
	both := func(s string) { emit("ident", s); emit("type", s) }

	// 1. every ASCII character and every boundary code point in every position class
	var chars []string
	for c := 0; c < 128; c++ {
		chars = append(chars, string(rune(c)))
	}
	for i, r := range boundaryRunes() {
		if stride <= 1 || i%stride == int(seed)%stride {
			chars = append(chars, string(r))
		}
	}
	chars = append(chars, "\xff", "\xc3", "\xe2\x82", "\xf0\x9f", "\xed\xa0\x80", "\xc0\x80")
	for _, ch := range chars {
		for _, ctx := range []string{"%s", "a%s", "%sa", "a%sb", `"%s"`, `"a%sb"`, "a.%s", "%s.a", `U&"%s"`, "a %s", "a%s1",
			"a UESCAPE '%s'", `U&"a" UESCAPE '%s'`, "int(%s)", "int[%s]", "int%s[]", "a(1)%s"} {
			both(strings.Replace(ctx, "%s", ch, 1))
		}
	}
	// 2. grammar-shaped candidates with mutations
	segs := []string{"a", "_x1", "tbl$", "Z9", `"q"`, `"a""b"`, `"with space"`, `"a\0041"`, `"x\+000041"`, "é", "名前", `""`, `"`, "1a", "$a", "a-b", "*",
		"uescape", "UESCAPE", "E", "e", "N", "B", "X", "U", "u"}
	tails := []string{"", " UESCAPE '!'", "  UESCAPE\n'#'", " UESCAPE '+'", " UESCAPE 'a'", " UESCAPE '!!'", " uescape '!'", " UESCAPE'!'", " UESCAPE ''", " UESCAPE '''",
		"(3)", "(33)", "()", "(a)", "[]", "[ ]", "[3]", "[][]", " [ 1 ] [ ]", "(3)[]", "[3](3)", "::int", ";", " x", "--", "/*"}
	prefixes := []string{"", "U&", "u&", "U &", "U&U&", "E", "N"}
	for i := 0; i < n; i++ {
		var sb strings.Builder
		sb.WriteString(prefixes[rng.Intn(len(prefixes))])
		k := 1 + rng.Intn(3)
		for j := 0; j < k; j++ {
			if j > 0 {
				sb.WriteString([]string{".", ".", ".", "..", " . ", ""}[rng.Intn(6)])
			}
			sb.WriteString(segs[rng.Intn(len(segs))])
		}
		sb.WriteString(tails[rng.Intn(len(tails))])
		if rng.Intn(4) == 0 {
			sb.WriteString(tails[rng.Intn(len(tails))])
		}
		s := sb.String()
		if rng.Intn(5) == 0 && len(s) > 0 { // one random byte mutation
			b := []byte(s)
			b[rng.Intn(len(b))] = byte(rng.Intn(256))
			s = string(b)
		}
		if rng.Intn(6) == 0 {
			s = " " + s + "\t"
		}
		both(s)
	}
	// 3. long names around the 63 character limit
	for _, l := range []int{1, 62, 63, 64, 65, 200} {
		both(strings.Repeat("a", l))
		both("t." + strings.Repeat("é", l))
		both(`"` + strings.Repeat("q", l) + `"`)
	}
}
